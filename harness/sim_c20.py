"""C20 -- runner that imports one NON-Linux platform layer of psutil over a
stub C extension, inside a dedicated interpreter.

Used in two ways:

* imported by harness/props/c20.py for the value protocol shared between the
  stubs and the oracle (slot_value, special slots);
* executed (``python sim_c20.py``) as one subprocess per platform: the first
  stdin line is a JSON configuration produced from the ``platform`` row of
  spec/Platform.tla (native function names, slot tables), every further line
  is one row to replay; one JSON answer line per row on stdout.  Every row
  runs in a fork()ed child of the interpreter that has psutil imported for
  that platform, so module-level memoisation never leaks between rows.

Nothing here knows what psutil is supposed to answer; it only plays the
operating system:

  world   pid under test, its state alive/zombie/gone, whether PID 0 is
          listed, the cached process name;
  stubs   psutil._psutil_<platform> / psutil._psutil_posix in sys.modules
          BEFORE the first ``import psutil``; every slot of every record is a
          distinct value; upper-case names are distinct integer constants;
  os      the ``os`` name of the platform module and of _psposix is proxied so
          /proc/<pid>/... accesses, os.kill(pid, 0) are answered by the world;
  fault   the site-th per-process native access made while armed raises the
          row's OSError; afterwards the world is in the row's post-state
          (gone / zombie for a "no such process" error, unchanged otherwise).
"""
import errno as _errno
import json
import os
import sys
import types

SYS_PLATFORM = {"freebsd": "freebsd13", "openbsd": "openbsd7", "netbsd": "netbsd9",
                "macos": "darwin", "sunos": "sunos5", "aix": "aix7", "windows": "win32"}
MODNAME = {"freebsd": "_psbsd", "openbsd": "_psbsd", "netbsd": "_psbsd", "macos": "_psosx",
           "sunos": "_pssunos", "aix": "_psaix", "windows": "_pswindows"}
CEXT = {"bsd": "_psutil_bsd", "osx": "_psutil_osx", "sunos": "_psutil_sunos", "aix": "_psutil_aix",
        "windows": "_psutil_windows"}

WINERR = {"ERROR_ACCESS_DENIED": (5, _errno.EACCES), "ERROR_PRIVILEGE_NOT_HELD": (1314, _errno.EINVAL),
          "ERROR_INVALID_PARAMETER": (87, _errno.EINVAL), "ERROR_GEN_FAILURE": (31, _errno.EINVAL)}
KNOWN_CONST = {"ERROR_ACCESS_DENIED": 5, "ERROR_PRIVILEGE_NOT_HELD": 1314, "ERROR_INVALID_NAME": 123,
               "ERROR_SERVICE_DOES_NOT_EXIST": 1060, "INFINITE": 0xFFFFFFFF, "WINVER": 1000,
               "WINDOWS_8_1": 603, "WINDOWS_7": 601, "WINDOWS_10": 1000, "AF_LINK": 18}
RLIMITS = ["RLIMIT_AS", "RLIMIT_CORE", "RLIMIT_CPU", "RLIMIT_DATA", "RLIMIT_FSIZE", "RLIMIT_MEMLOCK",
           "RLIMIT_NOFILE", "RLIMIT_NPROC", "RLIMIT_RSS", "RLIMIT_STACK", "RLIMIT_SWAP", "RLIMIT_SBSIZE",
           "RLIMIT_NPTS"]          # <sys/resource.h> of FreeBSD
FILES = ["/etc/passwd", "/etc/hosts"]     # regular files of the host, so isfile_strict() says yes
WINDEV = "\\Device\\HarddiskVolume1"
CACHED = "cachedname"
PROCNAME = "pname"
OTHER_PID = 1


# --------------------------------------------------------------------------
# value protocol shared with the oracle
# --------------------------------------------------------------------------

def slot_value(keys, key, idx, rec=0, scale=1, name=PROCNAME):
    """Value the stub puts in slot *idx* (1-based) of record number *rec* of
    native function *key* ("family.fn"): distinct for every slot of every
    function.  *keys* is the sorted list of all keys of the platform."""
    return ((keys.index(key) + 1) * 100 + idx + 50 * rec) * scale


def special_slot(slot, rec, name):
    """Slots whose value cannot be an arbitrary number."""
    if slot == "name":
        return name
    if slot == "path":
        return FILES[rec % len(FILES)]
    if slot == "args":
        return "pexe --flag"
    return None


# --------------------------------------------------------------------------
# the world
# --------------------------------------------------------------------------

class World:
    def __init__(self):
        self.reset(5, False, True)

    def reset(self, pid, zombie, p0, name=PROCNAME, scale=1):
        self.pid, self.zombie, self.p0 = pid, zombie, p0
        self.name, self.scale = name, scale
        self.state = "alive"
        self.armed = False
        self.site = 0
        self.err = None
        self.calls = 0
        self.fired = None          # (function, kind)
        self.raised = None
        self.log = []
        self.quiet_gone = False
        self.partial_left = 0
        self.signals_ok = False

    def arm(self, site, err):
        self.armed, self.site, self.err, self.calls = True, site, err, 0

    # --- what the system lists / knows -----------------------------------
    def listed(self, pid):
        if pid == 0:
            return self.p0
        if pid == self.pid:
            return self.state != "gone"
        return pid == OTHER_PID

    def present(self, pid):
        """May a per-process access on *pid* succeed right now?"""
        if pid == self.pid:
            if self.state == "gone":
                return False
            if self.fired is None:
                return True
            return True
        return self.listed(pid)

    def listing(self):
        return [p for p in (0, OTHER_PID, self.pid) if self.listed(p)] if self.pid not in (0, OTHER_PID) \
            else [p for p in (0, OTHER_PID) if self.listed(p)]


W = World()
CFG = {}
PLAT = None
NSP_ERRNO = _errno.ESRCH


def make_error(name):
    if name in WINERR:
        code, en = WINERR[name]
        e = OSError(en, "stub: " + name)
        e.winerror = code
        return e
    en = getattr(_errno, name)
    e = OSError(en, os.strerror(en))
    if PLAT == "windows":
        e.winerror = None      # as on Windows for an errno-only OSError
    return e


def is_nsp_error(name, kind):
    return name == "ESRCH" or (name == "ENOENT" and (CFG["procfs"] or kind == "procfs"))


# BSD natives that give an empty answer, not ESRCH, for a PID that has vanished (the reason
# psutil re-probes the process after them)
EMPTY_WHEN_GONE = {"openbsd": {"net_connections", "proc_threads"}, "netbsd": {"net_connections", "proc_num_fds"},
                   "freebsd": {"net_connections", "proc_net_connections"}}


def empty_when_gone(fn, pid):
    return (getattr(W, "quiet_gone", False) and pid == W.pid and W.state == "gone"
            and fn in EMPTY_WHEN_GONE.get(PLAT, ()))


def access(fn, kind, pid, survives_zombie=False):
    """Every per-process native access goes through here."""
    if getattr(W, "partial_left", 0) > 0 and pid == W.pid:
        # ERROR_PARTIAL_COPY (ReadProcessMemory of a process that is starting up / exiting)
        W.partial_left -= 1
        W.log.append(fn + ":partial-copy")
        e = OSError(_errno.EINVAL, "stub: ERROR_PARTIAL_COPY")
        e.winerror = 299
        W.raised = e
        raise e
    if empty_when_gone(fn, pid):
        W.log.append(fn + ":empty")
        return
    if getattr(W, "always", None) and pid == W.pid:
        # the caller may not look at this process at all: every per-process access is refused
        W.log.append(fn + ":" + W.always)
        W.raised = make_error(W.always)
        raise W.raised
    if W.armed and pid == W.pid:
        W.calls += 1
        W.log.append(fn)
        if W.fired is None and W.calls == W.site:
            W.fired = (fn, kind)
            if is_nsp_error(W.err, kind):
                W.state = "zombie" if W.zombie else "gone"
            W.raised = make_error(W.err)
            raise W.raised
    unlisted0 = (pid == 0 and not W.p0 and W.fired is not None and survives_zombie and PLAT in ("openbsd", "macos"))
    # OpenBSD / macOS: pids() decides whether PID 0 "is listed" by probing its kinfo record
    if unlisted0 or not W.present(pid) or (pid == W.pid and W.state == "zombie" and not survives_zombie):
        en = _errno.ENOENT if (kind == "procfs" or CFG["procfs"]) else _errno.ESRCH
        e = OSError(en, os.strerror(en))
        if PLAT == "windows":
            e.winerror = None
        raise e


# --------------------------------------------------------------------------
# stub C extension
# --------------------------------------------------------------------------

class StubModule(types.ModuleType):
    """Upper-case names resolve to distinct integers; lower-case names only
    to the functions the platform's C extension really defines."""

    def __init__(self, name, fns, handler, base):
        super().__init__(name)
        self.__dict__["_fns"] = set(fns)
        self.__dict__["_handler"] = handler
        self.__dict__["_consts"] = {}
        self.__dict__["_base"] = base
        self.__file__ = "<stub %s>" % name
        self.version = 700

    def __getattr__(self, name):
        d = self.__dict__
        if name.startswith("__"):
            raise AttributeError(name)
        if name in d["_fns"]:
            h = d["_handler"]
            f = lambda *a, **k: h(name, a, k)      # noqa: E731
            f.__name__ = name
            d[name] = f
            return f
        if name.upper() == name and name[0].isalpha():
            if name in KNOWN_CONST:
                v = KNOWN_CONST[name]
            else:
                v = d["_base"] + len(d["_consts"])
            d["_consts"][name] = v
            d[name] = v
            return v
        if name in ("TimeoutExpired", "TimeoutAbandoned"):
            cls = type(name, (Exception,), {})
            d[name] = cls
            return cls
        raise AttributeError("stub %s has no %s" % (self.__name__, name))


def record(key, rec=0):
    slots = CFG["slots"][key]
    vals = []
    for i, s in enumerate(slots, 1):
        sp = special_slot(s, rec, W.name)
        if sp is not None:
            vals.append(sp)
        elif s == "status":
            c = sys.modules["psutil." + CEXT[CFG["family"]]]
            # OpenBSD reports an exited, not yet reaped process as SDEAD (sys/proc.h: SZOMB unused)
            zs = c.SDEAD if PLAT == "openbsd" else c.SZOMB
            vals.append(zs if (W.state == "zombie") else (c.SACTIVE if PLAT == "aix" else c.SRUN))
        else:
            vals.append(slot_value(CFG["keys"], key, i, rec, W.scale))
    return tuple(vals)


GLOBAL_FNS = {"pids", "pid_exists", "ppid_map", "per_cpu_times", "cpu_times", "cpu_count_logical",
              "cpu_count_cores", "getpagesize", "QueryDosDevice", "boot_time", "net_if_addrs",
              "net_if_stats", "net_io_counters", "set_debug", "check_pid_range", "virtual_mem",
              "swap_mem", "net_if_mtu", "net_if_flags", "net_if_duplex_speed", "net_if_is_running",
              "disk_partitions", "disk_io_counters", "users", "cpu_stats", "cpu_freq"}
KINFO = {"proc_oneshot_info", "proc_kinfo_oneshot", "proc_basic_info"}     # answer for zombies too


def conn_tuple(with_pid, pid):
    import socket
    c = sys.modules["psutil." + CEXT[CFG["family"]]]
    status = c.MIB_TCP_STATE_ESTAB if PLAT == "windows" else c.TCPS_ESTABLISHED
    t = (7, int(socket.AF_INET), int(socket.SOCK_STREAM), ("127.0.0.1", 80), ("10.0.0.1", 4000), status)
    return t + (pid,) if with_pid else t


def cext_handler(name, a, k):
    fam = CFG["family"]
    if name not in GLOBAL_FNS:
        pid = a[0] if a else W.pid
        if name == "net_connections" and fam in ("bsd", "windows", "sunos", "aix"):
            if fam == "bsd" and PLAT == "freebsd":
                pid = None          # FreeBSD: system-wide only
            if pid == -1:
                pid = None
        if pid is not None:
            access(name, "sys", pid, survives_zombie=name in KINFO)
            if empty_when_gone(name, pid):
                return 0 if name == "proc_num_fds" else []
    key = fam + "." + name
    if key in CFG["slots"]:
        if key in CFG["scalars"]:
            return record(key)[0]
        if key in CFG["lists"]:
            return [record(key, 0), record(key, 1)]
        return record(key)
    return DEFAULTS[name](a, k)


def posix_handler(name, a, k):
    if name in ("getpriority", "setpriority"):
        access(name, "sys", a[0])
        return 4 if name == "getpriority" else None
    if name == "getpagesize":
        return CFG["pagesize"]
    if name == "net_if_addrs":
        import socket
        return [("eth0", KNOWN_CONST["AF_LINK"], "aa:bb:cc", None, None, None),
                ("eth0", int(socket.AF_INET), "192.168.1.7", "255.255.255.0", "192.168.1.255", None),
                ("eth0", int(socket.AF_INET6), "fe80::7", "ffff:ffff:ffff:ffff::", None, None)]
    return None


def _windows_net_if_addrs(a, k):
    import socket
    return [("Ethernet", -1, "aa-bb-cc", None, None, None),
            ("Ethernet", int(socket.AF_INET), "192.168.1.7", "255.255.255.0", None, None),
            ("Ethernet", int(socket.AF_INET6), "fe80::7", None, None, None)]   # arch/windows/net.c: IPv4 netmask only


def _pids(a, k):
    ls = W.listing()
    if PLAT == "openbsd":
        ls = [p for p in ls if p != 0]      # the OpenBSD kernel never lists PID 0
    return ls


def _proc_wait(a, k):
    W.state = "gone"                        # the process exited: its PID disappears
    return 0


def _memory_maps(a, k):
    if PLAT == "freebsd":
        return [("0x1000-0x2000", "r-x", FILES[0], 11, 12, 13, 14), ("0x3000-0x4000", "rw-", "[heap]", 21, 22, 23, 24)]
    if PLAT == "sunos":
        return [(4096, 8192, "r-x", "[heap]", 11, 12, 13), (12288, 16384, "rw-", "[stack]", 21, 22, 23)]
    return [(4096, "r", WINDEV + "\\Windows\\pexe.exe", 11), (8192, "rw", WINDEV + "\\Windows\\lib.dll", 21)]


DEFAULTS = {
    "proc_name": lambda a, k: W.name + ("\x00" if PLAT == "aix" else ""),
    "proc_exe": lambda a, k: WINDEV + "\\Windows\\pexe.exe" if PLAT == "windows" else "/usr/bin/pexe",
    "proc_open_files": lambda a, k: [WINDEV + "\\etc\\passwd", WINDEV + "\\etc\\hosts"],
    "proc_cmdline": lambda a, k: ["pexe", "--flag"],
    "proc_args": lambda a, k: ["pexe", "--flag"],
    "proc_environ": lambda a, k: "A=1\0B=2\0\0" if PLAT in ("macos", "windows") else {"A": "1", "B": "2"},
    "proc_cwd": lambda a, k: "C:\\cwd\\" if PLAT == "windows" else "/cwd",
    "proc_num_fds": lambda a, k: 7,
    "proc_num_threads": lambda a, k: 3,
    "proc_cpu_affinity_get": lambda a, k: 3 if PLAT == "windows" else [0, 1],
    "proc_cpu_affinity_set": lambda a, k: None,
    "proc_getrlimit": lambda a, k: (10, 20),
    "proc_setrlimit": lambda a, k: None,
    "proc_kill": lambda a, k: None,
    "proc_suspend_or_resume": lambda a, k: None,
    "proc_priority_set": lambda a, k: None,
    "proc_io_priority_set": lambda a, k: None,
    "proc_priority_get": lambda a, k: sys.modules["psutil._psutil_windows"].NORMAL_PRIORITY_CLASS,
    "proc_io_priority_get": lambda a, k: 2,
    "proc_is_suspended": lambda a, k: False,
    "proc_username": lambda a, k: ("DOM", "usr"),
    "proc_wait": _proc_wait,
    "proc_memory_maps": _memory_maps,
    "proc_net_connections": lambda a, k: [conn_tuple(False, a[0])],
    # system-wide (pid -1): one socket of PID 5 and one owned by PID 0 (the kernel / TIME_WAIT on Windows)
    "net_connections": lambda a, k: ([conn_tuple(True, a[0])] if a and isinstance(a[0], int) and a[0] != -1
                                     else [conn_tuple(True, 5), conn_tuple(True, 0)]),
    "pids": _pids,
    "pid_exists": lambda a, k: W.present(a[0]) if a[0] == W.pid else W.listed(a[0]),
    "ppid_map": lambda a, k: {p: OTHER_PID for p in W.listing()},
    "per_cpu_times": lambda a, k: [((1.0, 2.0, 3.0, 4.0, 5.0) if CFG["family"] in ("bsd", "windows") else (1.0, 2.0, 3.0, 4.0))] * 2,
    "cpu_times": lambda a, k: {"bsd": (1.0, 2.0, 3.0, 4.0, 5.0), "osx": (1.0, 2.0, 3.0, 4.0), "windows": (1.0, 2.0, 3.0)}[CFG["family"]],
    "cpu_count_logical": lambda a, k: 2,
    "cpu_count_cores": lambda a, k: 2,
    "getpagesize": lambda a, k: CFG["pagesize"],
    "QueryDosDevice": lambda a, k: "C:",
    "boot_time": lambda a, k: 1000.0,
    "net_if_addrs": _windows_net_if_addrs,
    "set_debug": lambda a, k: None,
    "check_pid_range": lambda a, k: None,
}


# --------------------------------------------------------------------------
# os proxy for the procfs based layers
# --------------------------------------------------------------------------

def _pid_of(path):
    """PID component of a /proc/<pid>/... path, else None."""
    if isinstance(path, bytes):
        path = os.fsdecode(path)
    if not isinstance(path, str) or not path.startswith("/proc"):
        return None, None
    parts = path.split("/")
    if len(parts) >= 3 and parts[2].isdigit():
        return int(parts[2]), "/".join(parts[3:])
    return None, "/".join(parts[2:])


class PathProxy:
    def __init__(self, real):
        self._real = real

    def __getattr__(self, n):
        return getattr(self._real, n)

    def exists(self, path):
        pid, rest = _pid_of(path)
        if pid is None:
            return self._real.exists(path)
        return W.present(pid) if pid == W.pid else W.listed(pid)     # a probe, never a fault site

    def islink(self, path):
        pid, rest = _pid_of(path)
        if pid is None:
            return self._real.islink(path)
        return rest.startswith("path/")


class OsProxy:
    """Stands for the ``os`` module inside the platform module and _psposix."""

    def __init__(self, path_mod=None):
        self._real = os
        self.path = PathProxy(path_mod or os.path)

    def __getattr__(self, n):
        return getattr(os, n)

    def kill(self, pid, sig):
        if sig != 0:
            # a real signal: only ever to the stub world's own process (recorded, never delivered)
            if pid != W.pid or not getattr(W, "signals_ok", False):
                raise AssertionError("stub world: signal %r to %r" % (sig, pid))
            W.log.append("kill:%d" % sig)
            if W.state == "gone" or (W.state == "zombie" and PLAT == "openbsd"):
                # OpenBSD's kill(2) answers ESRCH for a zombie; the others accept the signal
                raise ProcessLookupError(_errno.ESRCH, os.strerror(_errno.ESRCH))
            return
        ok = W.present(pid) if pid == W.pid else W.listed(pid)
        if not ok:
            raise ProcessLookupError(_errno.ESRCH, os.strerror(_errno.ESRCH))

    def listdir(self, path="."):
        pid, rest = _pid_of(path)
        if rest is None:
            return os.listdir(path)
        if pid is None:
            names = [str(p) for p in W.listing()] + ["self", "sys"]
        else:
            access("listdir:" + rest, "procfs", pid)
            names = {"lwp": ["1", "2"], "fd": ["0", "1", "3", "4"]}.get(rest, [])
        return [os.fsencode(n) for n in names] if isinstance(path, bytes) else names

    def readlink(self, path, **kw):
        pid, rest = _pid_of(path)
        if pid is None:
            return os.readlink(path, **kw)
        access("readlink:" + rest, "procfs", pid)
        if rest in ("exe", "path/a.out"):
            return "/usr/bin/pexe"
        if rest in ("cwd", "path/cwd"):
            return "/cwd/" if PLAT == "aix" else "/cwd"
        if rest.startswith("path/"):
            n = rest[5:]
            if n in ("0", "1", "2", "255"):
                return "/dev/pts/3"
            return FILES[int(n) % 2] if n.isdigit() else "/usr/lib/" + n
        raise FileNotFoundError(_errno.ENOENT, "stub world", path)

    def stat(self, path, **kw):
        pid, rest = _pid_of(path)
        if pid is None:
            return os.stat(path, **kw)
        access("stat:" + rest, "procfs", pid, survives_zombie=(rest == ""))
        return os.stat("/")


# --------------------------------------------------------------------------
# import of psutil for the platform
# --------------------------------------------------------------------------

def install(cfg):
    global CFG, PLAT
    CFG = cfg
    PLAT = cfg["platform"]
    cfg["keys"] = sorted(cfg["slots"])
    # everything the standard library decides by platform must be imported first
    import collections, contextlib, datetime, enum, functools, glob, ipaddress, ntpath, re  # noqa
    import shutil, signal, socket, subprocess, threading, time, xml.etree.ElementTree  # noqa
    try:
        import pwd  # noqa
    except ImportError:
        pass
    fam = cfg["family"]
    pkg = types.ModuleType("psutil")
    snap = os.environ["VERIF_SNAPSHOT"]
    cext = StubModule("psutil." + CEXT[fam], cfg["natives"], cext_handler, 7000)
    sys.modules[cext.__name__] = cext
    if PLAT != "windows":
        px = StubModule("psutil._psutil_posix", cfg["posix"], posix_handler, 9000)
        if PLAT == "freebsd":
            for i, n in enumerate(RLIMITS):
                setattr(px, n, i)
            px.RLIM_INFINITY = 2 ** 63 - 1
        px.AF_LINK = KNOWN_CONST["AF_LINK"]
        sys.modules[px.__name__] = px
    sys.platform = SYS_PLATFORM[PLAT]
    if PLAT == "windows":
        os.name = "nt"
    del pkg
    import psutil      # noqa  -- first import, for the faked platform
    mod = sys.modules["psutil." + MODNAME[PLAT]]
    assert psutil._psplatform is mod, (psutil._psplatform, mod)
    if PLAT == "windows":
        import ntpath
        mod.os = OsProxy(ntpath)
    else:
        prox = OsProxy()
        mod.os = prox
        if PLAT == "aix":       # terminal() walks /dev of the host: give it a quiet one
            mod.glob = types.SimpleNamespace(glob=lambda pat, **kw: ["/dev/null", "/dev/zero"])
        sys.modules["psutil._psposix"].os = prox
        psutil.os = prox            # the front end's own os.kill() (signals) stays inside the stub world
    return psutil, mod


# --------------------------------------------------------------------------
# calling one method, canonical answers
# --------------------------------------------------------------------------

def canon(v):
    import enum
    if isinstance(v, enum.Enum):
        return {"e": type(v).__name__, "n": v.name, "v": v.value if isinstance(v.value, (int, str)) else repr(v.value)}
    if isinstance(v, tuple) and hasattr(v, "_fields"):
        return {"nt": type(v).__name__, "f": list(v._fields), "v": [canon(x) for x in v]}
    if isinstance(v, (list, tuple)):
        return {"l": [canon(x) for x in v]}
    if isinstance(v, dict):
        return {"d": sorted([[str(a), canon(b)] for a, b in v.items()], key=lambda kv: kv[0])}
    if v is None or isinstance(v, (bool, int, float, str)):
        return v
    return {"r": repr(v)}


MODULE_CALLS = {
    "nice_set": ("nice_set", (5,)), "cpu_affinity_set": ("cpu_affinity_set", ([0],)),
    "rlimit_get": ("rlimit", (6,)), "rlimit_set": ("rlimit", (6, (10, 20))),
    "ionice_set": ("ionice_set", (2, None)), "wait": ("wait", (0.2,)),
    "net_connections": ("net_connections", ("inet",)),
}
PUBLIC_CALLS = {
    "nice_get": ("nice", ()), "cpu_affinity_get": ("cpu_affinity", ()), "ionice_get": ("ionice", ()),
    "rlimit_get": ("rlimit", (6,)), "net_connections": ("net_connections", ("inet",)),
    "memory_maps": ("memory_maps", (False,)),
}


def call(obj, method, table):
    import signal
    if method == "send_signal":
        name, args = "send_signal", (signal.SIGTERM,)
    else:
        name, args = table.get(method, (method, ()))
    res = getattr(obj, name)(*args)
    if isinstance(res, types.GeneratorType):
        res = list(res)
    return res


def outcome(fn):
    """Run fn(); classify what came out."""
    import psutil
    try:
        val = fn()
    except psutil.Error as e:
        return {"cls": type(e).__name__, "pid": getattr(e, "pid", None), "name": getattr(e, "name", None),
                "cause": type(e.__cause__).__name__ if e.__cause__ is not None else None}
    except OSError as e:
        same = (W.raised is not None and e.errno == W.raised.errno
                and getattr(e, "winerror", None) == getattr(W.raised, "winerror", None))
        return {"cls": "Unchanged" if same else "OSError:" + type(e).__name__, "errno": e.errno,
                "identical": e is W.raised, "type": type(e).__name__}
    except BaseException as e:   # noqa: BLE001
        import traceback
        return {"cls": "Other:" + type(e).__name__, "text": traceback.format_exc()[-1500:]}
    return {"cls": "ok", "val": canon(val)}


def world_info():
    return {"fired": W.fired is not None, "fn": W.fired[0] if W.fired else None,
            "kind": W.fired[1] if W.fired else None, "calls": W.calls, "state": W.state, "log": W.log[:12]}


def run_row(psutil, mod, row):
    k = row["k"]
    if k == "baseline":
        W.reset(row["pid"], False, True, row.get("name", PROCNAME), row.get("scale", 1))
        if row.get("via") == "package":
            p = psutil.Process(row["pid"])
            r = outcome(lambda: call(p, row["m"], PUBLIC_CALLS))
        else:
            proc = mod.Process(row["pid"])
            r = outcome(lambda: call(proc, row["m"], MODULE_CALLS))
        return r
    if k in ("err", "layout"):
        W.reset(row["pid"], row["z"], row["p0"], row.get("name", PROCNAME), row.get("scale", 1))
        if row.get("via") == "package":
            p = psutil.Process(row["pid"])
            cached = p.name()
            target, table = p, PUBLIC_CALLS
        else:
            target = mod.Process(row["pid"])
            target._name = cached = CACHED
            table = MODULE_CALLS
        if row.get("site"):
            W.arm(row["site"], row["e"])
        if row.get("oneshot"):
            def fn():
                if row.get("via") == "package":
                    with target.oneshot():
                        return call(target, row["m"], table)
                target.oneshot_enter()      # what psutil.Process.oneshot() does with the platform object
                try:
                    return call(target, row["m"], table)
                finally:
                    target.oneshot_exit()
        else:
            def fn():
                return call(target, row["m"], table)
        r = outcome(fn)
        r["cached"] = cached
        r.update(world_info())
        return r
    if k == "sigseq":
        # POSIX front end: a signal, the same signal again, then two plain queries on the same object
        W.reset(row["pid"], row["state"] == "zombie", True, row.get("name", PROCNAME), row.get("scale", 1))
        p = psutil.Process(row["pid"])
        p.name()
        W.signals_ok = True
        if row["state"] == "zombie":
            W.state = "zombie"
        elif row["state"] == "gone":
            W.state = "gone"
        steps = []
        try:
            for what in ("kill", "kill", "ppid", "is_running"):
                r = outcome(getattr(p, what))
                steps.append({"what": what, "cls": r.get("cls"), "val": r.get("val"), "pid": r.get("pid")})
        finally:
            W.signals_ok = False
        return {"cls": "ok", "steps": steps, "log": W.log[:12]}
    if k == "partial":
        # Windows: the first n native accesses of the method answer ERROR_PARTIAL_COPY
        W.reset(row["pid"], False, True, row.get("name", PROCNAME), row.get("scale", 1))
        pkg = row.get("via") == "package"
        target = psutil.Process(row["pid"]) if pkg else mod.Process(row["pid"])
        table = PUBLIC_CALLS if pkg else MODULE_CALLS
        if not pkg:
            target._name = CACHED
        slept = []
        real_sleep = mod.time.sleep
        mod.time.sleep = lambda d: slept.append(d)       # (the retries pause for up to a second)
        W.partial_left = row["n"]
        try:
            r = outcome(lambda: call(target, row["m"], table))
        finally:
            mod.time.sleep = real_sleep
            left = W.partial_left
            W.partial_left = 0
        r.update(world_info())
        r["retries"], r["left"] = len(slept), left
        return r
    if k == "vanished":
        # the process is looked at while alive (inside a oneshot() block when asked), exits and is
        # reaped, and then the method is called on the same object
        W.reset(row["pid"], False, True, row.get("name", PROCNAME), row.get("scale", 1))
        pkg = row.get("via") == "package"
        target = psutil.Process(row["pid"]) if pkg else mod.Process(row["pid"])
        table = PUBLIC_CALLS if pkg else MODULE_CALLS
        if not pkg:
            target._name = CACHED

        def body():
            call(target, "ppid", table)            # fills whatever a oneshot() block memoises
            W.state, W.quiet_gone = "gone", True
            return call(target, row["m"], table)

        def fn():
            if not row.get("oneshot"):
                return body()
            if pkg:
                with target.oneshot():
                    return body()
            target.oneshot_enter()
            try:
                return body()
            finally:
                target.oneshot_exit()
        r = outcome(fn)
        r.update(world_info())
        return r
    if k == "refused":
        # every native access to the process is refused, then access is granted again: the refusal is
        # reported as such and is not remembered as an answer
        W.reset(row["pid"], False, True, row.get("name", PROCNAME), row.get("scale", 1))
        target = psutil.Process(row["pid"])
        target.name()
        W.always = row["e"]
        try:
            first = outcome(lambda: call(target, row["m"], PUBLIC_CALLS))
        finally:
            W.always = None
        second = outcome(lambda: call(target, row["m"], PUBLIC_CALLS))
        fresh = outcome(lambda: call(psutil.Process(row["pid"]), row["m"], PUBLIC_CALLS))
        first.update(world_info())
        first["second"], first["fresh"] = second, fresh
        return first
    if k == "einval":
        # NetBSD: KERN_PROC_ARGS answers EINVAL for a process it cannot describe any more -- a zombie,
        # or a PID that has just gone: the layer has to say which
        W.reset(row["pid"], row["state"] == "zombie", True, row.get("name", PROCNAME), row.get("scale", 1))
        pkg = row.get("via") == "package"
        target = psutil.Process(row["pid"]) if pkg else mod.Process(row["pid"])
        table = PUBLIC_CALLS if pkg else MODULE_CALLS
        if pkg:
            target.name()
        else:
            target._name = CACHED

        def body():
            W.state = row["state"]
            W.arm(1, "EINVAL")
            return call(target, row["m"], table)

        def fn():
            if not row.get("oneshot"):
                return body()
            if pkg:
                with target.oneshot():
                    return body()
            target.oneshot_enter()
            try:
                return body()
            finally:
                target.oneshot_exit()
        r = outcome(fn)
        r.update(world_info())
        return r
    if k == "platform":
        W.reset(5, False, True)
        names = {}
        for n in row["names"]:
            if n.startswith("Process."):
                names[n] = hasattr(psutil.Process, n[8:])
            else:
                names[n] = hasattr(psutil, n)
        missing_all = [n for n in psutil.__all__ if not hasattr(psutil, n)]
        pub = sorted(n for n in dir(mod.Process) if not n.startswith("_") and callable(getattr(mod.Process, n)))
        return {"has": names, "all": sorted(set(psutil.__all__)), "all_unresolved": missing_all, "module_methods": pub,
                "flags": {n: getattr(psutil, n) for n in ("POSIX", "WINDOWS", "LINUX", "MACOS", "FREEBSD", "OPENBSD",
                                                         "NETBSD", "BSD", "SUNOS", "AIX")}}
    if k == "frontend":
        W.reset(5, False, True)
        what = row["what"]
        if what == "net_if_addrs":
            return outcome(psutil.net_if_addrs)
        if what == "net_connections":
            return outcome(lambda: psutil.net_connections("inet"))
    raise ValueError("unknown row kind %r" % (k,))


def child(psutil, mod, row, wfd):
    try:
        try:
            res = run_row(psutil, mod, row)
        except BaseException:   # noqa: BLE001
            import traceback
            res = {"cls": "RunnerError", "text": traceback.format_exc()[-2000:]}
        data = json.dumps(res, default=repr).encode()
        while data:
            n = os.write(wfd, data)
            data = data[n:]
    finally:
        os._exit(0)


def main():
    import signal
    cfg = json.loads(sys.stdin.readline())
    psutil, mod = install(cfg)
    out = sys.stdout
    out.write(json.dumps({"ready": True, "platform": PLAT, "module": mod.__name__}) + "\n")
    out.flush()
    for line in sys.stdin:
        line = line.strip()
        if not line:
            continue
        row = json.loads(line)
        rfd, wfd = os.pipe()
        pid = os.fork()
        if pid == 0:
            os.close(rfd)
            signal.alarm(20)
            child(psutil, mod, row, wfd)
        os.close(wfd)
        chunks = []
        while True:
            b = os.read(rfd, 1 << 16)
            if not b:
                break
            chunks.append(b)
        os.close(rfd)
        _, status = os.waitpid(pid, 0)
        data = b"".join(chunks)
        if not data:
            data = json.dumps({"cls": "RunnerError", "text": "child died, status %r" % (status,)}).encode()
        out.write(data.decode() + "\n")
    out.flush()


if __name__ == "__main__":
    main()

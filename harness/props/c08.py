"""C08 -- virtual_memory() / swap_memory() follow the documented formulas
(spec/MemInfo.tla, spec/MemInfoTrace.tla; kernel texts by harness/sim_c08.py)."""
import json
import os
import random
import re
import shutil
import warnings
from fractions import Fraction

from harness import core, forkpool, functional, sim_c08, tlc
from harness.tmpl import template

FIXES = set()          # no repair of /repo belongs to this property
ABSENT = -1
GRID = {0, 1, 2, 3, 5}
KMAX = 145             # largest kB figure of the enumerated patterns
# every formula in scope is positively homogeneous: inputs and expected bytes are
# multiplied by one of these (even factors above 1, so halves stay integral)
SCALES = [1, 2 ** 10, 2 ** 31 + 6, 2 ** 53 + 2, (2 ** 64 - 1) // KMAX]
# swap: sysinfo(2) fields are unsigned long; the largest enumerated one is 32768
SWAP_SCALES = [1, 2 ** 10, 2 ** 31 + 6, (2 ** 64 - 1) // 32768]
# the watermark estimate is computed in floating point by the code: exact below 2**53 bytes
EXACT_FLOAT_SCALES = [1, 2 ** 10, 2 ** 31 + 6]

QUICK_FAMILIES = ["vm-subsets", "vm-subsets-rare", "swap"]
THOROUGH_FAMILIES = ["vm-subsets-full", "vm-grid-used", "vm-grid-kernel", "vm-grid-estimate", "swap-grid"]
INVS = ["AvailableInRange", "VmPercentInRange", "UsedInRange", "WarnedAreZero", "WarnNeverSlab",
        "CompleteMeansSilent", "Independence", "KernelEstimateVerbatim",
        "SwapConservation", "SwapPercentInRange", "SwapWarnBoth"]

VM_INT = ["total", "available", "used", "free", "active", "inactive", "buffers", "cached", "shared", "slab"]
VM_NAMES = set(VM_INT) | {"percent"}
SWAP_INT = ["total", "used", "free", "sin", "sout"]
SWAP_NAMES = set(SWAP_INT) | {"percent"}

# every branch of the documented rules must be exercised by the executed cases
REQUIRED_CLASSES = {
    "used:plain", "used:total-free",
    "avail:kernel", "avail:zero->estimate", "avail:absent->estimate",
    "estimate:free+cached", "estimate:watermarks",
    "estimate:pagecache/2", "estimate:pagecache-wm", "estimate:slab/2", "estimate:slab-wm",
    "avail:<0", "avail:>total", "avail:in-range",
    "percent:total=0", "percent:0", "percent:100", "percent:mid",
    "cached:+sreclaimable", "shared:memshared", "inactive:inact_*", "slab:missing",
    "warn:none", "warn:buffers", "warn:cached", "warn:shared", "warn:active", "warn:inactive",
    "warn:available", "warn-optional:available",
    "swap:meminfo", "swap:sysinfo", "vmstat:absent", "vmstat:counters", "vmstat:no-counters",
    "swap-percent:total=0", "swap-percent:0", "swap-percent:100", "swap-percent:mid",
}


def consts(families):
    return {"Families": set(families), "Grid": set(GRID)}


# ---- the real code ------------------------------------------------------------

WARNABLE = {"vm": {"buffers", "cached", "shared", "active", "inactive", "available", "slab"},
            "swap": {"sin", "sout"}}


def _named(ws, vocabulary):
    """Metric names mentioned by the RuntimeWarnings recorded in *ws*."""
    names = set()
    for wm in ws:
        if issubclass(wm.category, RuntimeWarning):
            names |= set(re.findall(r"[a-z_]+", str(wm.message).lower())) & vocabulary
    return names


def _num(v):
    """Byte counts are integers; an integral float is the same figure."""
    if isinstance(v, float) and v == v and abs(v) != float("inf") and v.is_integer():
        return int(v)
    return v


def query(ps, kind):
    """Call the public API; return ({field: value}, sorted warned metric names)."""
    with warnings.catch_warnings(record=True) as ws:
        warnings.simplefilter("always")
        r = ps.virtual_memory() if kind == "vm" else ps.swap_memory()
    fields = VM_NAMES if kind == "vm" else SWAP_NAMES
    got = {f: (getattr(r, f, None) if f == "percent" else _num(getattr(r, f, None))) for f in fields}
    return got, sorted(_named(ws, WARNABLE[kind]))


def warn_ok(warned, out):
    return set(out["warn"]) <= set(warned) <= set(out["warn"]) | set(out["mayname"])


def percent_ok(x, num, den):
    """x is the rational num/den rounded to one decimal (any rounding of ties); a zero
    total leaves the value open inside [0, 100]."""
    if isinstance(x, bool) or not isinstance(x, (int, float)) or x != x:
        return False
    if den == 0:
        return 0 <= x <= 100
    fx = Fraction(x)
    if abs(fx * 10 - round(fx * 10)) > Fraction(1, 10 ** 9):
        return False
    return abs(fx - Fraction(num, den)) <= Fraction(1, 20) + Fraction(1, 10 ** 9)


def compare(kind, got, warned, out, S):
    """Field names on which the code's answer differs from the specification's, + text."""
    bad, txt = [], []
    api = "virtual_memory" if kind == "vm" else "swap_memory"
    for f in (VM_INT if kind == "vm" else SWAP_INT):
        exp = out[f] * S
        g = got[f]
        if isinstance(g, bool) or not isinstance(g, int) or g != exp:
            bad.append(f)
            txt.append("%s().%s -> %r, expected %d" % (api, f, g, exp))
    num, den = out["percent"]
    if not percent_ok(got["percent"], num, den):
        bad.append("percent")
        txt.append("%s().percent -> %r, expected %s" % (
            api, got["percent"], "a value in [0, 100]" if den == 0 else "%d/%d = %.4f rounded to one decimal"
            % (num, den, num / den)))
    if not warn_ok(warned, out):
        bad.append("warning")
        txt.append("%s() RuntimeWarning names %r, expected %r%s" % (
            api, sorted(warned), sorted(out["warn"]),
            " (optionally %r)" % sorted(out["mayname"]) if out["mayname"] else ""))
    return bad, txt


def run_chunk(cases):
    w, ps = template()
    res = []
    for i, (ev, S) in enumerate(cases):
        inp, out = ev["inp"], ev["out"]
        sim_c08.install(w, inp, S)
        try:
            got, warned = query(ps, inp["k"])
        except Exception as ex:  # noqa: BLE001
            res.append((i, "%s:exception| the call raised %r  [input %r scale %d]" % (inp["k"], ex, inp, S)))
            continue
        bad, txt = compare(inp["k"], got, warned, out, S)
        if bad:
            res.append((i, "%s:%s| %s  [input %r scale %d]" % (inp["k"], ",".join(bad), "; ".join(txt), inp, S)))
    return res


def sig_fn(case, text):
    return text.split("|")[0]


# ---- mode 4: random larger contents through the code, judged by TLC ---------------

def _opt(rnd, p, hi):
    return rnd.randint(0, hi) if rnd.random() < p else ABSENT


def rand_vm(rnd):
    total = rnd.choice([0, 1, rnd.randint(1, 1000), rnd.randint(500, 1000), 1000])
    free = rnd.choice([0, total, rnd.randint(0, total), rnd.randint(0, max(0, total // 8))])
    style = rnd.choice(["host", "host", "tight", "distorted"])
    hi = {"host": max(1, total // 3), "tight": max(1, total // 20), "distorted": 1500}[style]
    old = rnd.random() < 0.2          # 2.4-era names
    inp = {"k": "vm", "total": total, "free": free,
           "buffers": _opt(rnd, .85, hi), "cached": _opt(rnd, .85, hi), "srecl": _opt(rnd, .8, hi),
           "shmem": ABSENT if old else _opt(rnd, .85, hi), "memshared": _opt(rnd, .8, hi) if old else _opt(rnd, .05, hi),
           "active": _opt(rnd, .85, hi), "inactive": ABSENT if old else _opt(rnd, .85, hi),
           "inact_d": ABSENT, "inact_c": ABSENT, "inact_l": ABSENT,
           "slab": _opt(rnd, .8, hi),
           "mavail": rnd.choice([ABSENT, 0, rnd.randint(0, hi), rnd.randint(0, max(1, total)), rnd.randint(0, 1500)]),
           "afile": _opt(rnd, .85, hi), "ifile": _opt(rnd, .85, hi)}
    if old and rnd.random() < 0.8:
        inp["inact_d"], inp["inact_c"] = rnd.randint(0, hi), rnd.randint(0, hi)
        inp["inact_l"] = _opt(rnd, .85, hi)
    inp["zone"] = rnd.random() < 0.8
    wmax = rnd.choice([0, 2, max(1, free // 8), max(1, hi // 4), 120])
    inp["lows"] = [rnd.randint(0, wmax) for _ in range(rnd.choice([0, 1, 2, 3, 4]))] if inp["zone"] else []
    return inp


def rand_swap(rnd):
    both = rnd.random() < 0.6
    unit = rnd.choice([1, 1, 1024, 4096])
    top = 1000 * 1024 // unit
    if both:
        st = rnd.choice([0, rnd.randint(0, 1000), 1000])
        sf = rnd.choice([0, st, rnd.randint(0, st)])
        stot = rnd.randint(0, top)
        sys_ = [stot, rnd.randint(0, stot), unit]
    else:
        stot = rnd.choice([0, rnd.randint(0, top), top])
        sys_ = [stot, rnd.choice([0, stot, rnd.randint(0, stot)]), unit]
        st, sf = ABSENT, ABSENT
        which = rnd.choice(["none", "none", "total", "free"])
        if which != "none" and (sys_[0] * unit) % 1024 == 0 and (sys_[1] * unit) % 1024 == 0:
            # a kernel's meminfo and sysinfo agree on the one figure that is shown
            if which == "total":
                st = sys_[0] * unit // 1024
            else:
                sf = sys_[1] * unit // 1024
    form = rnd.choice(["absent", "none", "both", "both", "both"])
    return {"k": "swap", "stotal": st, "sfree": sf, "sys": sys_, "vmstat": form != "absent",
            "pin": rnd.randint(0, 100000) if form == "both" else ABSENT,
            "pout": rnd.randint(0, 100000) if form == "both" else ABSENT}


def full_estimate(inp):
    return (inp["mavail"] in (ABSENT, 0) and inp["zone"] and ABSENT not in (inp["afile"], inp["ifile"], inp["srecl"]))


def pick_scale(rnd, inp):
    if inp["k"] == "swap":
        top = max(1, inp["sys"][0], inp["sys"][1], inp["pin"], inp["pout"])
        return rnd.choice([1, 2 ** 10, 2 ** 31 + 6, (2 ** 64 - 1) // top])
    if full_estimate(inp):
        return rnd.choice(EXACT_FLOAT_SCALES)
    return rnd.choice([1, 2 ** 10, 2 ** 31 + 6, 2 ** 53 + 2, (2 ** 64 - 1) // 1500])


def record(ps, w, inp, S):
    """One trace line: the input and the code's answer with the scale divided out
    (-7: not a multiple of the scale, i.e. certainly not the specified figure)."""
    sim_c08.install(w, inp, S)
    try:
        got, warned = query(ps, inp["k"])
    except Exception as ex:  # noqa: BLE001
        return {"inp": inp, "scale": S, "error": repr(ex)}
    g = {}
    for f in (VM_INT if inp["k"] == "vm" else SWAP_INT):
        v = got[f]
        g[f] = v // S if isinstance(v, int) and not isinstance(v, bool) and v % S == 0 and abs(v // S) < 2 ** 31 else -7
    p = got["percent"]
    p10 = -7
    if isinstance(p, (int, float)) and p == p and abs(p) < 10 ** 6:
        t = Fraction(p) * 10
        if abs(t - round(t)) <= Fraction(1, 10 ** 9):
            p10 = int(round(t))
    g["p10"] = p10
    g["warn"] = warned
    return {"inp": inp, "scale": S, "got": g, "raw": {k: got[k] for k in sorted(got)}}


def rand_chunk(job):
    seed, n = job
    w, ps = template()
    rnd = random.Random(seed)
    lines = []
    for j in range(n):
        inp = rand_vm(rnd) if j % 3 else rand_swap(rnd)
        lines.append(record(ps, w, inp, pick_scale(rnd, inp)))
    return lines


def replay_line(line):
    w, ps = template()
    return [record(ps, w, line["inp"], line.get("scale", 1))]


def input_tags(inp):
    if inp["k"] == "swap":
        return {"swap:" + ("meminfo" if ABSENT not in (inp["stotal"], inp["sfree"]) else "sysinfo"),
                "vmstat:" + ("absent" if not inp["vmstat"] else "counters" if inp["pin"] != ABSENT else "no-counters")}
    t = {"mavail:" + ("absent" if inp["mavail"] == ABSENT else "zero" if inp["mavail"] == 0 else "value"),
         "estimate:" + ("watermarks" if full_estimate(inp) else "other")}
    t |= {"missing:" + k for k in ("buffers", "cached", "srecl", "active", "slab") if inp[k] == ABSENT}
    if inp["inact_l"] != ABSENT:
        t.add("inact_*")
    if inp["memshared"] != ABSENT and inp["shmem"] == ABSENT:
        t.add("memshared")
    return t


RANDOM_TAGS = {"swap:meminfo", "swap:sysinfo", "vmstat:absent", "vmstat:counters", "vmstat:no-counters",
               "mavail:absent", "mavail:zero", "mavail:value", "estimate:watermarks", "estimate:other",
               "missing:buffers", "missing:cached", "missing:srecl", "missing:active", "missing:slab",
               "inact_*", "memshared"}


def trace_validate(ctx, n, only=None):
    if only is not None:
        res = forkpool.map_fork(replay_line, [only])
    else:
        res = forkpool.map_fork(rand_chunk, [(ctx.seed * 1000 + i, n // 16 + 1) for i in range(16)])
    lines = []
    for st, val in res:
        if st != "ok":
            raise core.Machinery("trace driver failed: %s" % (val,))
        lines.extend(val)
    for l in [l for l in lines if "error" in l][:3]:
        ctx.disagree("trace:%s:exception" % l["inp"]["k"],
                     "%s raised on a kernel-formatted input: %s (input %r scale %d)"
                     % ("virtual_memory()" if l["inp"]["k"] == "vm" else "swap_memory()", l["error"], l["inp"], l["scale"]), l)
    if only is None:
        tags = set()
        for l in lines:
            tags |= input_tags(l["inp"])
        if RANDOM_TAGS - tags:
            raise core.Machinery("random driver never produced the input classes %s" % sorted(RANDOM_TAGS - tags))
    lines = [l for l in lines if "got" in l]
    d = tlc.scratch()
    tf = os.path.join(d, "trace.ndjson")
    with open(tf, "w") as f:
        for l in lines:
            f.write(json.dumps({"inp": l["inp"], "got": l["got"]}) + "\n")
    cfg = os.path.join(d, "t.cfg")
    tlc.write_cfg(cfg, consts([]), init="TInit", next_="TNext", invariants=["Match"])
    r = tlc.run("MemInfoTrace", cfg, workers=4, env={"TRACE_FILE": tf}, timeout=900)
    ctx.tlc("trace-validation", r)
    if r.distinct != 2 * len(lines):
        if not r.violated:
            raise core.Machinery("trace validation visited %d states for %d records" % (r.distinct, len(lines)))
    ctx.cov["traces_validated_against_impl"] += len(lines)
    ctx.cov.setdefault("replay", {})["trace-validation"] = {
        "records": len(lines), "virtual_memory": sum(l["inp"]["k"] == "vm" for l in lines),
        "swap_memory": sum(l["inp"]["k"] == "swap" for l in lines)}
    for l in lines:
        ctx.case(json.dumps([l["inp"], l["scale"]], sort_keys=True))
    if r.violated:
        rej = []
        for tag, rest in r.printed:
            if tag == "REJECTED":
                num, js = rest.split(",", 1)
                rej.append((int(num), json.loads(json.loads(js.strip()))))
        for i, exp in rej[:3]:
            l = lines[i - 1]
            g = l["got"]
            diff = [f for f in (VM_INT if exp["k"] == "vm" else SWAP_INT) if g[f] != exp[f]]
            num, den = exp["percent"]
            if not percent_ok(g["p10"] / 10, num, den) or g["p10"] < 0:
                diff.append("percent")
            if not warn_ok(g["warn"], exp):
                diff.append("warning")
            want = {f: exp[f] * l["scale"] for f in (VM_INT if exp["k"] == "vm" else SWAP_INT)}
            ctx.disagree("trace:%s:%s" % (exp["k"], ",".join(diff)),
                         "TLC rejects a recorded answer: input %r (scale %d), code answered %r with RuntimeWarning "
                         "names %r; specified: %r, percent = %d/%d rounded to one decimal, warning names %r"
                         % (l["inp"], l["scale"], l["raw"], g["warn"], want, num, den, sorted(exp["warn"])), l)
        if not rej:
            raise core.Machinery("trace validation failed without naming a record: %s" % r.violated)
    shutil.rmtree(d, ignore_errors=True)
    if lines:
        ctx.sample({"kind": "recorded trace line", "line": lines[0]})


# ---- non-binding observations: free > total ------------------------------------------

def observe_chunk(inputs):
    w, ps = template()
    out = []
    for inp in inputs:
        sim_c08.install(w, inp, 1)
        try:
            got, warned = query(ps, inp["k"])
            out.append({"inp": inp, "answer": got, "warned": warned})
        except Exception as ex:  # noqa: BLE001
            out.append({"inp": inp, "raised": repr(ex)})
    return out


def observations(ctx):
    """Worlds outside the binding space (free > total): run, recorded, never judged."""
    vm = dict(sim_c08.VM_DEFAULT, k="vm")
    inputs = [dict(vm, total=10, free=20), dict(vm, total=10, free=20, mavail=ABSENT),
              dict(vm, total=0, free=5, mavail=0, zone=False),
              {"k": "swap", "stotal": 2, "sfree": 5, "sys": [0, 0, 1], "vmstat": True, "pin": 1, "pout": 1},
              {"k": "swap", "stotal": ABSENT, "sfree": ABSENT, "sys": [1, 9, 4096], "vmstat": False,
               "pin": ABSENT, "pout": ABSENT},
              # only one of the two swap counters (no kernel prints one without the other)
              {"k": "swap", "stotal": 5, "sfree": 2, "sys": [0, 0, 1], "vmstat": True, "pin": 3, "pout": ABSENT}]
    st, val = forkpool.map_fork(observe_chunk, [inputs])[0]
    if st != "ok":
        raise core.Machinery("observation runner failed: %s" % (val,))
    ctx.cov["observations_non_binding"] = val


# ---- driver --------------------------------------------------------------------------

def warm(ctx):
    for fams in (QUICK_FAMILIES, THOROUGH_FAMILIES):
        rd = tlc.dump_cached("MemInfo", consts(fams), view=None)
        functional.events_of(rd)


def replay_one(ctx, path):
    rep = json.load(open(path))["replay"]
    if "case" in rep:
        ev, S = rep["case"]
        st, val = forkpool.map_fork(run_chunk, [[(ev, S)]])[0]
        if st != "ok":
            raise core.Machinery("replay failed: %s" % (val,))
        for idx, text in val:
            ctx.disagree("conf:" + sig_fn(None, text), "code and specification disagree: %s" % text, rep)
        ctx.case(json.dumps(rep, sort_keys=True))
        print("replayed %s: %d disagreement(s)" % (path, len(val)))
    elif "inp" in rep:
        trace_validate(ctx, 1, only=rep)
    else:
        raise core.Machinery("nothing to replay in %s" % path)


def scales_for(ev):
    if ev["inp"]["k"] == "swap":
        return SWAP_SCALES
    if "estimate:watermarks" in ev["out"]["cls"]:
        return EXACT_FLOAT_SCALES
    return SCALES


def check(ctx):
    forkpool.start(16, init=template)
    if ctx.replay_file:
        return replay_one(ctx, ctx.replay_file)
    thorough = ctx.tier == "thorough"
    ctx.cov["rule"] = ("cases = abstract <meminfo field subset and magnitudes, zoneinfo watermarks, vmstat counters, "
                       "sysinfo> records x magnitude scale, rendered by sim_c08 into /proc/meminfo, /proc/zoneinfo, "
                       "/proc/vmstat and cext.linux_sysinfo and queried through psutil.virtual_memory() / "
                       "psutil.swap_memory() with warnings recorded; distinct = distinct (record, scale)")
    ctx.assumptions += [
        "sim_c08 renders meminfo/zoneinfo/vmstat as fs/proc/meminfo.c and mm/vmstat.c do (2.6+ line format: 'Name: value kB'); "
        "MemTotal and MemFree are always present; pages are 4096 bytes (the unit of the watermarks and of pswpin/pswpout)",
        "binding inputs keep free <= total (the statement conditions its range claims on it); free > total worlds are run "
        "as non-binding observations recorded in evidence",
        "available > total is forced into range the documented way (available := free, as procps does), per DESIGN.md C08",
        "percent: the float is compared with the exact rational up to 0.05 (any rounding of ties) and must have one decimal; "
        "with total = 0 any value in [0, 100] is accepted (the statement's formula is undefined there)",
        "the watermark estimate is computed by the code in floating point; it is compared exactly for byte counts below "
        "2**53 (scales 1, 2**10, 2**31+6) and not exercised above, where the 'estimate' is exact only to one ulp; every "
        "other figure is compared exactly up to 2**64-1 kB",
        "pswpin and pswpout are modelled as one optional group (mm/vmstat.c prints both or neither); when only one of "
        "SwapTotal/SwapFree is shown, sysinfo(2) agrees with the one shown (both come from si_swapinfo)",
        "a RuntimeWarning 'names' a metric when its message contains that result field's name as a word; only the names "
        "buffers/cached/shared/active/inactive/available/slab (sin/sout for swap) are looked at; a missing Slab or SReclaimable "
        "is reported as 0 without a warning (MemInfo.tla: WarnNeverSlab -- slab is the exception to the warning rule); when MemAvailable is shown as 0 (not missing) and the estimate "
        "replacing it is negative, available = 0 may or may not be named",
    ]
    fams = THOROUGH_FAMILIES if thorough else QUICK_FAMILIES
    evs = functional.observe(ctx, "MemInfo", "inputs", consts(fams), invariants=INVS)
    evs = [e for e in evs if e.get("op") == "observe"]
    rnd = random.Random(ctx.seed)
    cases, classes = [], set()
    for e in evs:
        classes |= set(e["out"]["cls"])
        sc = scales_for(e)
        cases.append((e, 1))
        if e["inp"]["k"] == "swap":
            cases += [(e, x) for x in sc[1:]]
        elif thorough or rnd.random() < 0.3:
            cases.append((e, rnd.choice(sc[1:])))
    missing = REQUIRED_CLASSES - classes
    if missing:
        raise core.Machinery("the enumerated inputs never exercise the rule branches %s" % sorted(missing))
    ctx.cov["rule_branches_exercised"] = sorted(classes)
    functional.run_cases(ctx, "enumerated-contents", cases, run_chunk, sig_fn, chunk=400 if thorough else 150)
    trace_validate(ctx, 40000 if thorough else 6000)
    observations(ctx)


def main(prop, argv):
    core.main_wrapper(check, prop, argv)

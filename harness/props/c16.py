"""C16 -- oneshot()/as_dict() (spec/Oneshot.tla, spec/OneshotTrace.tla, spec/AsDict.tla)."""
import errno
import json
import os
import random
import shutil
import signal
import sys

from harness import core, forkpool, functional, sched, tlc
from harness.tmpl import template

PID = 61
PROPS = ["C16_NoSpuriousError", "C16_VersionWindow", "C16_BlockSnapshot", "C16_AtMostOneRead"]
TRACED = ("psutil/__init__.py", "psutil/_common.py", "psutil/_pslinux.py")

# source -> (front+platform method, platform-only method, how to read the version back)
SOURCES = {
    "stat": ("cpu_times", "cpu_num"),
    "status": ("uids", "num_ctx_switches"),
    # the third memoised source has no front-end memoised reader: two platform-level ones
    "smaps": ("memory_full_info", "memory_maps"),
    # statm is memoised only by the front end (memory_info); memory_percent() goes through it
    "statm": ("memory_info", "memory_percent"),
}
ASDICT = {"stat": ["cpu_num", "cpu_times"], "status": ["num_ctx_switches", "uids"], "smaps": ["memory_maps"],
          "statm": ["memory_info", "memory_percent"]}


def setver(w, v):
    p = w.procs[PID]
    p.utime = v
    p.processor = v
    p.uids = (v, v, v, v)
    p.vol_ctx = v
    if not p.maps:
        from harness.simkernel import Mapping
        p.maps = [Mapping(path="/bin/target")]
        p.has_rollup = False          # memory_full_info() then sums the smaps listing
    p.maps[0].kb["Rss"] = v
    p.maps[0].kb["Pss"] = v
    p.statm = (100, v, 20, 5, 0, 30, 0)
    w.ver = v


def version_of(method, val):
    if method == "cpu_times":
        return int(round(val.user * 100))
    if method == "cpu_num":
        return int(val)
    if method == "uids":
        return int(val.real)
    if method == "num_ctx_switches":
        return int(val.voluntary)
    if method == "memory_full_info":
        return int(val.pss) // 1024
    if method == "memory_maps":
        return int(val[0].rss) // 1024
    if method == "memory_info":
        return int(val.rss) // 4096
    if method == "memory_percent":
        return int(round(val * 1024000 / 100.0 / 4096))      # MemTotal of the world is 1000 kB
    if method == "as_dict":
        k, v = sorted(val.items())[0]
        return version_of(k, v)
    raise ValueError(method)


class Recorder:
    def __init__(self, w, src, run=None):
        self.w, self.src, self.run = w, src, run
        self.ev = []
        self.path = "/proc/%d/%s" % (PID, src)
        w.observer = self.observe

    def tname(self):
        if self.run is None:
            return "A"
        t = getattr(self.run.local, "t", None)
        return "ABC"[t.idx] if t is not None else "A"

    def observe(self, k, op, path):
        if op == "open" and path == self.path:
            self.ev.append({"e": "rd", "t": self.tname(), "v": self.w.ver})

    def bump(self):
        setver(self.w, self.w.ver + 1)
        self.ev.append({"e": "bump"})

    def call(self, p, m):
        t = self.tname()
        self.ev.append({"e": "cs", "t": t, "m": m})
        try:
            val = p.as_dict(ASDICT[self.src]) if m == "as_dict" else getattr(p, m)()
            self.ev.append({"e": "cr", "t": t, "m": m, "v": version_of(m, val), "exc": ""})
        except BaseException as ex:  # noqa: BLE001
            self.ev.append({"e": "cr", "t": t, "m": m, "v": -1, "exc": type(ex).__name__})

    def block(self, p, body, raising=False):
        t = self.tname()
        cm = p.oneshot()
        self.ev.append({"e": "bs", "t": t})
        cm.__enter__()
        self.ev.append({"e": "be", "t": t})
        exc = (None, None, None)
        try:
            body()
            if raising:
                raise KeyError("user error inside the block")
        except KeyError as ex:
            exc = (type(ex), ex, ex.__traceback__)
        self.ev.append({"e": "xs", "t": t})
        try:
            cm.__exit__(*exc)
        except KeyError:
            pass
        self.ev.append({"e": "xe", "t": t})


def fresh_world(w):
    for q in list(w.procs):
        if q != w.caller_pid:
            del w.procs[q]
    w.spawn(PID, comm=b"target", ppid=1, start=7)
    # files the "all attributes" form of as_dict() reads besides /proc/<pid>/*
    hdr = b"  sl  local_address rem_address   st tx_queue rx_queue tr tm->when retrnsmt   uid  timeout inode\n"
    for f in ("tcp", "tcp6", "udp", "udp6"):
        w.files["/proc/net/" + f] = hdr
    w.files["/proc/net/unix"] = b"Num       RefCount Protocol Flags    Type St Inode Path\n"
    w.files["/proc/meminfo"] = b"MemTotal:  1000 kB\nMemFree:  500 kB\nMemAvailable:  600 kB\nBuffers: 1 kB\nCached: 2 kB\nShmem: 3 kB\nActive: 4 kB\nInactive: 5 kB\nSlab: 6 kB\nSReclaimable: 1 kB\n"
    w.observer = None
    w.hooks.clear()
    setver(w, 0)


# ---------------------------------------------------------------------------
# single-thread random programs (enter / nested / raise / calls / bumps also mid-call)
# ---------------------------------------------------------------------------

def seq_chunk(job):
    seed, n = job
    w, ps = template()
    rnd = random.Random(seed)
    traces = []
    for _ in range(n):
        fresh_world(w)
        src = rnd.choice(list(SOURCES))
        mF, mP = SOURCES[src]
        p = ps.Process(PID)
        rec = Recorder(w, src)

        def prog(depth):
            for _ in range(rnd.randint(1, 4)):
                r = rnd.random()
                if r < 0.25:
                    rec.bump()
                elif r < 0.32:
                    # repr()/str() of the object (a log line): whatever it reads, it is no reason
                    # for the block to read a shared source again
                    (repr if rnd.random() < 0.5 else str)(p)
                elif r < 0.36 and src != "stat":
                    # a signal sent through the object (its PID-reuse probe looks at stat, which is
                    # why this is left out when stat is the source under watch)
                    p.send_signal(signal.SIGCONT)
                elif r < 0.47 and depth < 3:
                    rec.block(p, lambda: prog(depth + 1), raising=rnd.random() < 0.3)
                else:
                    if rnd.random() < 0.2:    # a kernel event in the middle of the call
                        w.hooks.setdefault(w.acc + rnd.randint(0, 2), []).append(rec.bump)
                    rec.call(p, rnd.choice([mF, mP, mF, mP, "as_dict"]))
        prog(0)
        w.hooks.clear()
        traces.append({"kind": "sequential", "src": src, "ev": rec.ev})
    return traces


# ---------------------------------------------------------------------------
# threads under the line-level scheduler
# ---------------------------------------------------------------------------

PROGRAMS = [
    # (A ops, B ops, C ops)
    (["enter", "mF", "mP", "mF", "exit", "mF"], ["mF", "mP"], ["bump", "bump"]),
    (["enter", "mP", "raise", "mP"], ["mP", "mF"], ["bump"]),
    (["enter", "enter", "mF", "exit", "exit", "mF"], ["mF"], ["bump", "bump"]),
    (["mF", "enter", "mF", "exit"], ["enter", "mP", "exit"], ["bump"]),
    (["enter", "mF", "mP", "exit"], ["as_dict", "mF"], ["bump"]),
    (["as_dict", "mP"], ["as_dict"], ["bump", "bump"]),
    (["enter", "mF", "repr", "mF", "mP", "exit"], ["mF"], ["bump"]),
    # a plain call in flight while the source moves and another thread enters a block
    (["enter", "mF", "sig", "mF", "mP", "exit"], ["mF"], ["bump"]),
    (["mF"], ["bump", "enter", "mF", "mP", "exit"], []),
    (["mP", "mF"], ["bump", "enter", "mP", "mF", "exit", "bump", "enter", "mF", "exit"], ["mF"]),
]


def thread_chunk(job):
    seed, prog_i, bound, limit = job[:4]
    traced = job[4] if len(job) > 4 else TRACED
    w, ps = template()
    rnd = random.Random(seed)
    src = ("stat", "status", "smaps", "statm")[seed % 4]
    mF, mP = SOURCES[src]
    progs = PROGRAMS[prog_i]
    traces = []
    state = {}

    def make_bodies(run):
        fresh_world(w)
        p = ps.Process(PID)
        if not sched.coop_locks(p, run):   # oneshot() holds a lock across the block
            p._lock = sched.CoopRLock(run)
        rec = Recorder(w, src, run)
        state["rec"] = rec

        def interp(ops):
            def body():
                i = 0

                def run_ops(stop):
                    nonlocal i
                    while i < len(ops):
                        op = ops[i]
                        i += 1
                        if op == "enter":
                            rec.block(p, lambda: run_ops(True))
                        elif op in ("exit",):
                            if stop:
                                return
                        elif op == "raise":
                            if stop:
                                raise KeyError("boom")
                        elif op == "bump":
                            run.yield_point()
                            rec.bump()
                        elif op == "as_dict":
                            rec.call(p, "as_dict")
                        elif op == "repr":
                            repr(p)
                        elif op == "sig":
                            if src != "stat":
                                p.send_signal(signal.SIGCONT)
                        else:
                            rec.call(p, mF if op == "mF" else mP)
                run_ops(False)
            return body
        return [interp(o) for o in progs]

    def on_run(run, plan, err):
        rec = state["rec"]
        tr = {"kind": "threads", "src": src, "prog": prog_i, "plan": plan, "ev": rec.ev}
        if err is not None:
            tr["deadlock"] = str(err)
        for t in run.ts:
            if t.exc is not None:
                tr.setdefault("escaped", []).append(repr(t.exc))
        traces.append(tr)

    sched.explore(make_bodies, traced, bound=bound, limit=limit, rnd=rnd, on_run=on_run)
    w.observer = None
    return traces


def validate(ctx, name, traces):
    bad = [t for t in traces if "deadlock" in t or "escaped" in t]
    for t in bad[:3]:
        ctx.disagree("sched:" + ("deadlock" if "deadlock" in t else "escaped"),
                     "execution under the scheduler failed: %s" % (t.get("deadlock") or t.get("escaped")), t)
    traces = [t for t in traces if t["ev"] and "deadlock" not in t]
    d = tlc.scratch()
    tf = os.path.join(d, "traces.ndjson")
    with open(tf, "w") as f:
        for t in traces:
            f.write(json.dumps({"ev": t["ev"]}) + "\n")
    cfg = os.path.join(d, "t.cfg")
    tlc.write_cfg(cfg, {}, invariants=["Accepted"])
    r = tlc.run("OneshotTrace", cfg, workers=8, env={"TRACE_FILE": tf}, timeout=1500)
    ctx.tlc(name + "-trace-validation", r)
    shutil.rmtree(d, ignore_errors=True)
    ctx.cov["traces_validated_against_impl"] += len(traces)
    nev = sum(len(t["ev"]) for t in traces)
    ctx.cov.setdefault("replay", {})[name] = {"executions": len(traces), "events": nev}
    for t in traces:
        ctx.case(json.dumps(t["ev"], sort_keys=True))
    if r.violated:
        rej = [p for p in r.printed if p[0] == "REJECTED"]
        for tag, body in rej[:3]:
            vals = tlc.parse_value("<<" + body + ">>")
            t = traces[vals[0] - 1]
            ctx.disagree("trace:" + vals[2].split(":")[0],
                         "TLC rejects a recorded execution at event %d (%s): %s"
                         % (vals[1], vals[2], json.dumps(t["ev"][:vals[1]])[-900:]), t)
        if not rej:
            raise core.Machinery("trace validation failed without naming a trace: %s" % r.violated)
    if traces:
        ctx.sample({"kind": name, "events": traces[len(traces) // 2]["ev"][:14]})


# ---------------------------------------------------------------------------
# as_dict decision table
# ---------------------------------------------------------------------------

ATTRS = ["pid", "name", "cmdline", "exe", "cwd", "ppid", "status"]


def asdict_chunk(cases):
    w, ps = template()
    out = []
    for i, e in enumerate(cases):
        inp, exp = e["inp"], e["out"]
        fresh_world(w)
        p = ps.Process(PID)
        st = inp["state"]
        if st == "zombie":
            w.exit(PID)
        elif st == "denied":
            w.procs[PID].deny["cwd"] = errno.EACCES
        elif st == "gone":
            w.reap(PID)
        req = inp["req"]
        if req["kind"] == "notacollection":
            # (an empty or zero one is no more of a collection than "name")
            attrs = ("name", "", 0, 7, 0.0, False, 3.5)[(i + len(st)) % 7]
        elif req["kind"] == "all":
            attrs = None
        else:
            attrs = list(req["names"]) + (["no_such_attr"] if req["bad"] else [])
        n0 = w.acc
        sentinel = object()
        try:
            got = p.as_dict(attrs=attrs, ad_value=sentinel)
            cls = "dict"
        except ps.NoSuchProcess:
            cls = "NoSuchProcess"
        except Exception as ex:  # noqa: BLE001
            cls = type(ex).__name__
        bad = []
        if cls != exp["class"]:
            bad.append("as_dict(%r) on a %s process -> %s, specification: %s" % (attrs, st, cls, exp["class"]))
        elif cls in ("TypeError", "ValueError") and w.acc != n0:
            bad.append("as_dict(%r) queried the OS before rejecting its argument" % (attrs,))
        elif cls == "dict":
            if req["kind"] == "all":
                if set(got) != set(ps._as_dict_attrnames):
                    bad.append("as_dict() keys differ from the public attribute set")
            else:
                if set(got) != set(req["names"]):
                    bad.append("as_dict(%r) -> keys %r" % (attrs, sorted(got)))
                adv = {k for k, v in got.items() if v is sentinel}
                if adv != set(exp["advalue"]):
                    bad.append("as_dict(%r) on a %s process: ad_value at %r, specification: %r"
                               % (attrs, st, sorted(adv), sorted(exp["advalue"])))
        if bad:
            out.append((i, "; ".join(bad)))
    return out


def warm(ctx):
    c = {"Attrs": set(ATTRS), "States": {"alive", "zombie", "denied", "gone"}}
    rd = tlc.dump_cached("AsDict", c, view=None)
    functional.events_of(rd)


def check(ctx):
    forkpool.start(16, init=template)
    thorough = ctx.tier == "thorough"
    ctx.cov["rule"] = ("cases = recorded executions (event sequences) of the real oneshot()/memoised methods: random "
                       "single-thread programs with nested/raising blocks and mid-call kernel events, and multi-thread "
                       "programs under every schedule with a bounded number of pre-emptions at source-line granularity; "
                       "plus as_dict decision-table rows; distinct = distinct event sequences / rows")
    ctx.assumptions += [
        "thread clause: a call returns a version v with floor <= v <= version at return, where floor is the source version at the last quiescent instant at or before the call's start; the strict block-snapshot / at-most-one-read clauses are demanded only of blocks no other thread's call overlapped",
        "the observed methods are cpu_times/cpu_num (stat) and uids/num_ctx_switches (status): they read their source through the oneshot caches and do not probe process identity",
        "yield points are the source lines of psutil/__init__.py, _common.py, _pslinux.py; Process._lock is replaced by a cooperative re-entrant lock so that the scheduler sees blocking",
    ]
    # (1) the algorithm satisfies the clauses, for four thread programs
    for n in ([1, 2, 3, 4] if thorough else [1, 2, 3]):
        cfg = os.path.join(tlc.scratch(), "os%d.cfg" % n)
        tlc.write_cfg(cfg, {"Threads": "@ThreadsDef", "Prog": "@ProgDef", "MaxVer": 2, "Guard": True},
                      view="view", properties=PROPS, invariants=["CachesOnlyInBlock", "TypeOK"])
        txt = open(cfg).read().replace("Threads = ThreadsDef", "Threads <- ThreadsDef").replace("Prog = ProgDef", "Prog <- ProgDef")
        open(cfg, "w").write(txt)
        r = tlc.run("MC_Oneshot%d" % n, cfg, timeout=1500)
        ctx.tlc("oneshot-program-%d" % n, r)
        if r.violated:
            evs = tlc.trace_events(r.trace)
            ctx.disagree("model:" + str(r.violated), "TLC: %s violated by the wrapper/oneshot algorithm\n%s"
                         % (r.violated, "\n".join("%s %s" % x for x in evs)), {"trace": evs})
    # regression: without the issue-1948 guard the model raises a spurious error
    cfg = os.path.join(tlc.scratch(), "reg.cfg")
    tlc.write_cfg(cfg, {"Threads": "@ThreadsDef", "Prog": "@ProgDef", "MaxVer": 1, "Guard": False},
                  view="view", properties=["C16_NoSpuriousError"])
    txt = open(cfg).read().replace("Threads = ThreadsDef", "Threads <- ThreadsDef").replace("Prog = ProgDef", "Prog <- ProgDef")
    open(cfg, "w").write(txt)
    rr = tlc.run("MC_Oneshot1", cfg, timeout=600)
    ctx.tlc("regression-without-guard", rr)
    if rr.violated != "C16_NoSpuriousError":
        raise core.Machinery("specification no longer exposes the issue-1948 race")
    # (2) single-thread executions, judged by the monitor
    n = 6000 if thorough else 1500
    res = forkpool.map_fork(seq_chunk, [(ctx.seed * 31 + i, n // 16 + 1) for i in range(16)])
    traces = []
    for st, val in res:
        if st != "ok":
            raise core.Machinery("sequential driver failed: %s" % (val,))
        traces.extend(val)
    if not any(any(e["e"] == "bs" for e in t["ev"]) for t in traces):
        core.vacuity("no block entered")
    validate(ctx, "sequential", traces)
    # (3) threads under the scheduler
    jobs = []
    per = 700 if thorough else 160
    for pi in range(len(PROGRAMS)):
        for k in range(4):
            jobs.append((ctx.seed * 101 + pi * 4 + k, pi, 3 if thorough else 2, per))
    # the same programs with yield points in the memo wrapper only (psutil/_common.py): few enough steps
    # for EVERY schedule with two pre-emptions, one execution per source kind
    for pi in range(len(PROGRAMS)):
        for k in range(4):
            jobs.append((ctx.seed * 101 + pi * 4 + k, pi, 2, 4000 if thorough else 500, ("psutil/_common.py",)))
    res = forkpool.map_fork(thread_chunk, jobs, timeout=1500)
    traces = []
    for st, val in res:
        if st != "ok":
            raise core.Machinery("scheduler driver failed: %s" % (val,))
        traces.extend(val)
    inter = sum(1 for t in traces if len(t["plan"]) > 0)
    if inter < 10:
        core.vacuity("only %d pre-empted schedules" % inter)
    validate(ctx, "threads", traces)
    # (4) as_dict decision table
    c = {"Attrs": set(ATTRS), "States": {"alive", "zombie", "denied", "gone"}}
    evs = functional.observe(ctx, "AsDict", "as_dict-table", c, invariants=["RejectedBeforeQuerying", "AdValueSubset"])
    cases = [e for e in evs if e.get("op") == "observe"]
    functional.run_cases(ctx, "as_dict", cases, asdict_chunk, lambda c0, t: "as_dict:" + t.split("->")[-1].strip()[:24])
    # (5) a process that changes state inside a block
    check_inblock(ctx)


# ---------------------------------------------------------------------------
# the process changes state inside a block: what the block's records hold is still served
# ---------------------------------------------------------------------------

FROM_RECORDS = ["name", "ppid", "status", "cpu_times", "create_time", "cpu_num", "terminal",           # stat
                "uids", "gids", "num_ctx_switches", "num_threads",                                      # status
                "memory_info", "memory_percent", "memory_maps"]                                          # statm, smaps
# (memory_full_info() is left out: with a roll-up file present it reads that file and statm anew at every
# call -- neither is one of the records the statement names as shared)


def inblock_chunk(cases):
    w, ps = template()
    out = []
    for ci, (m, what, depth) in enumerate(cases):
        fresh_world(w)
        p = ps.Process(PID)
        bad = None
        cms = [p.oneshot() for _ in range(depth)]
        for cm in cms:
            cm.__enter__()
        try:
            first = getattr(p, m)()
            if what == "vanish":
                w.vanish(PID)
            elif what == "zombie":
                w.exit(PID)
            elif what == "recycled":
                w.reap(PID)
                w.spawn(PID, comm=b"other", ppid=80, start=9000)
            try:
                second = getattr(p, m)()
                if repr(second) != repr(first):
                    bad = "%s() -> %r, then (process %s inside the block) -> %r" % (m, first, what, second)
            except Exception as ex:  # noqa: BLE001
                bad = "%s() -> %r, then (process %s inside the block) raised %r" % (m, first, what, ex)
        finally:
            for cm in reversed(cms):
                cm.__exit__(None, None, None)
        if bad:
            out.append((ci, bad))
    return out


def check_inblock(ctx):
    cases = [(m, what, depth) for m in FROM_RECORDS for what in ("vanish", "zombie", "recycled") for depth in (1, 2)]
    functional.run_cases(ctx, "in-block", cases, inblock_chunk, lambda c0, t: "inblock:%s:%s" % (c0[0], c0[1]))


def main(prop, argv):
    core.main_wrapper(check, prop, argv)

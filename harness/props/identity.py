"""C01 / C02 -- Process identity (spec/ProcIdentity.tla over spec/Kernel.tla).

Modes: (1) exhaustive TLC check of the property on the algorithm that matches
the working tree, (2) full transition dump of two small configurations and a
transition tour replayed into the real psutil over simkernel, (3) random deep
behaviours (`tlc -simulate`) of the larger configuration replayed the same way,
(4) the original-algorithm regression (the model must expose the known
defects of 7.0.0)."""
import json
import os
import random
import signal

from harness import core, forkpool, graph, tlc
from harness.simkernel import World, import_psutil

# The set of repairs present in the working tree's algorithm (see DESIGN 5).
FIXES = {"C01gone", "C02mono"}

TICK = 50          # one model tick = 50 kernel ticks (CLK = 2 ticks/s, CLK_TCK = 100)
PROPS = {
    "C01": ["C01_NoMisdelivery", "C01_NeverGroup", "C01_ReusedRaises", "C05_PpidReusedRaises"],
    "C02": ["C02_EqTruth", "C02_RunTruth", "C02_RunSticky"],
}
INVS = ["TypeOK", "FlagsSound", "KUniqueInc"]


def consts(pids, objs, maxinc, maxup, sigs=(9,), setters=("nice",), fixes=None, kinds=("proc",)):
    return {"Pids": set(pids), "Objs": set(objs), "MaxInc": maxinc, "MaxUp": maxup, "Kinds": set(kinds),
            "Boots": {10, 20}, "CLK": 2, "Sigs": set(sigs), "Setters": set(setters),
            "Fixes": set(FIXES if fixes is None else fixes)}


# ---------------------------------------------------------------------------
# adapter: one model transition -> real call, compare observables
# ---------------------------------------------------------------------------

class Adapter:
    def __init__(self, w, psutil, btime, tick=TICK, base=0):
        self.w, self.ps = w, psutil
        w.btime = btime
        # start times of the processes: model tick x `tick` kernel ticks after `base` (machines that
        # have been up for years recycle PIDs a single tick apart just the same)
        self.tick, self.base = tick, base
        self.objs = {}
        self.hashes = {}

    def sigcall(self, p, s):
        if s == 9:
            return p.kill()
        if s == 15:
            return p.terminate()
        if s == 19:
            return p.suspend()
        if s == 18:
            return p.resume()
        return p.send_signal(s)

    def setcall(self, p, kind, kw=False):
        """The setting form of one call, its value passed by position or by keyword."""
        ps = self.ps
        if kind == "nice":
            p.nice(value=5) if kw else p.nice(5)
            return ("nice", 5)
        if kind == "ionice":
            p.ionice(ioclass=ps.IOPRIO_CLASS_BE, value=3) if kw else p.ionice(ps.IOPRIO_CLASS_BE, 3)
            return ("ionice", (2, 3))
        if kind == "rlimit":
            (p.rlimit(ps.RLIMIT_NOFILE, limits=(10, 20)) if kw else p.rlimit(ps.RLIMIT_NOFILE, (10, 20)))
            return ("rlimit", (ps.RLIMIT_NOFILE, (10, 20)))
        if kind == "affinity":
            p.cpu_affinity(cpus=[0]) if kw else p.cpu_affinity([0])
            return ("affinity", (0,))
        if kind == "affinity_all":
            p.cpu_affinity(cpus=[]) if kw else p.cpu_affinity([])          # "all eligible CPUs": the world has two
            return ("affinity", (0, 1))
        raise ValueError(kind)

    def adopted(self, e):
        """Every third refusal happens in a program whose own PID is the recycled one (a forked child
        that was given the dead process's PID and inherited the object): it is refused all the same."""
        import contextlib
        w = self.w
        self.nadopt = getattr(self, "nadopt", 0) + 1
        if e["res"] != "NSP" or e["pid"] not in w.procs or e["pid"] <= 0 or self.nadopt % 3:
            return contextlib.nullcontext()

        @contextlib.contextmanager
        def cm():
            old = w.caller_pid
            w.caller_pid = e["pid"]
            try:
                yield
            finally:
                w.caller_pid = old
        return cm()

    def outcome(self, fn):
        ps = self.ps
        try:
            v = fn()
            return "ok", v
        except ps.NoSuchProcess as e:
            return ("NSP" if type(e) is ps.NoSuchProcess else type(e).__name__), e
        except ps.AccessDenied as e:
            return "AD", e
        except Exception as e:  # noqa: BLE001
            return type(e).__name__, e

    def step(self, e):
        """Apply event e; return None or a mismatch description."""
        w, ps, op = self.w, self.ps, e["op"]
        nk, ns = len(w.kill_log), len(w.set_log)
        if op == "k_spawn":
            w.next_inc = e["inc"]
            pr = w.spawn(e["pid"], start=self.base + e["start"] * self.tick, ppid=0)
            # every other incarnation is multi-threaded: thread IDs are IDs of the same namespace,
            # and nothing may be delivered to them either
            if (e["pid"] + e["inc"]) % 2:
                from harness.simkernel import Thread
                pr.threads = {e["pid"]: Thread(pr.comm, 1, 1), 700 + 10 * e["pid"]: Thread(b"w1", 1, 1),
                              701 + 10 * e["pid"]: Thread(b"w2", 1, 1)}
            return None
        if op == "k_exit":
            w.exit(e["pid"])
            return None
        if op == "k_reap":
            w.reap(e["pid"])
            return None
        if op == "k_tick":
            return None
        if op == "k_clock":
            w.btime = e["btime"]
            return None
        if op == "new":
            if e.get("kind") == "popen":
                w.popen_pid = e["pid"]
                res, v = self.outcome(lambda: ps.Popen(["child"]))
            else:
                res, v = self.outcome(lambda: ps.Process(e["pid"]))
            if res == "ok":
                self.objs[e["o"]] = v
                if v.pid != e["pid"]:
                    return "Process(%d).pid == %r" % (e["pid"], v.pid)
            got = res
        elif op == "drop":
            self.objs.pop(e["o"], None)
            self.hashes.pop(e["o"], None)
            return None
        elif op == "is_running":
            res, v = self.outcome(self.objs[e["o"]].is_running)
            got = v if res == "ok" else res
        elif op == "signal":
            p = self.objs[e["o"]]
            # every other delivered signal finds its target stopped (job control, a debugger):
            # it still gets that signal and no other
            tgt = w.procs.get(e["pid"])
            self.nsig = getattr(self, "nsig", 0) + 1
            stopped = tgt is not None and tgt.state == "S" and self.nsig % 2 == 0
            if stopped:
                tgt.state = "T"
            try:
                with self.adopted(e):
                    got, v = self.outcome(lambda: self.sigcall(p, e["sig"]))
            finally:
                if stopped and tgt.state == "T":
                    tgt.state = "S"
            new = [x for x in w.kill_log[nk:] if x[2] is not None]  # delivered ones
            exp = [(e["pid"], e["sig"], e["toInc"])] if e["res"] == "ok" else []
            if [tuple(x) for x in new] != exp:
                return "kernel received kill%r, specification predicts %r" % (new, exp)
            if got == "NSP" and e["res"] == "NSP" and v.pid != e["pid"]:
                return "NoSuchProcess carries pid %r" % (v.pid,)
        elif op == "set":
            p = self.objs[e["o"]]
            box = {}
            self.nset = getattr(self, "nset", 0) + 1
            kw = bool(self.nset % 2)
            with self.adopted(e):
                got, v = self.outcome(lambda: box.setdefault("v", self.setcall(p, e["kind"], kw)))
            if e["res"] == "NSP" and got == "NSP":
                # a refused setting stays refused however the value is spelled
                got, v = self.outcome(lambda: self.setcall(p, e["kind"], not kw))
            new = w.set_log[ns:]
            if e["res"] == "ok":
                what, val = box.get("v", (None, None))
                exp = [(what, e["pid"], val, e["toInc"])]
            else:
                exp = []
            if [tuple(x) for x in new] != exp:
                return "kernel received settings %r, specification predicts %r" % (new, exp)
        elif op in ("enter", "exit"):
            if op == "enter":
                cm = self.objs[e["o"]].oneshot()
                cm.__enter__()
                self.blocks = getattr(self, "blocks", {})
                self.blocks[e["o"]] = cm
            else:
                self.blocks.pop(e["o"]).__exit__(None, None, None)
            return None
        elif op == "wait":
            try:
                v = self.objs[e["o"]].wait(0)
                got = "none" if v is None else "value:%r" % (v,)
            except ps.TimeoutExpired:
                got = "timeout"
            except Exception as ex:  # noqa: BLE001
                got = type(ex).__name__
        elif op == "ppid":
            res, v = self.outcome(self.objs[e["o"]].ppid)
            got = "val" if res == "ok" else res
        elif op == "eq":
            a, b = self.objs[e["a"]], self.objs[e["b"]]
            got = (a == b)
            if (a != b) == got:
                return "== and != agree"
            # one of the two may have been asked for its start time before it is first hashed
            # (directly, or through as_dict()/process_iter(attrs=...)): equal objects hash alike all the same
            if e["a"] not in self.hashes and (e["a"] + e["b"]) % 2:
                try:
                    a.create_time()
                except ps.Error:
                    pass
            ha, hb = hash(a), hash(b)
            for k, h in ((e["a"], ha), (e["b"], hb)):
                if self.hashes.setdefault(k, h) != h:
                    return "hash() of object %d changed" % k
            if got and ha != hb:
                return "equal objects hash differently"
            if e["res"] and ha != hb:
                return "same process, different hash()"
            if not e["res"] and a.pid == b.pid and ha == hb:
                return "two owners of one PID hash alike (hash() %d)" % ha
        elif op == "boot_time":
            got = int(ps.boot_time())
        elif op == "iter":
            list(ps.process_iter())     # side effects only; the listing is C04's subject
            return None
        else:
            raise core.Machinery("unknown op %r" % op)
        sent = [x for x in w.kill_log[nk:] if x[1] != 0]      # kill(pid, 0) is an existence probe, not a signal
        if sent and op != "signal":
            return "%s sent signals %r" % (op, sent)
        for (pid, sig, inc) in w.kill_log[nk:]:
            if pid <= 0:
                return "signalled pid %d" % pid
        if got != e["res"]:
            return "%s -> %r, specification predicts %r" % (op, got, e["res"])
        return None


from harness.tmpl import template  # noqa: E402


def run_events(job):
    """Forked child: replay a list of events from the initial state."""
    btime, events = job
    w, ps = template()
    ad = Adapter(w, ps, btime, *((1, 4 * 10 ** 9) if len(events) % 3 == 1 else (TICK, 0)))
    for i, e in enumerate(events):
        m = ad.step(e)
        if m is not None:
            return {"step": i, "mismatch": m, "event": e}
    return {"steps": len(events)}


def run_group_probe(job):
    """Forked child: calls that take a caller-supplied PID, given every PID-like value the OS would
    read as "a process group"; the kernel must see no kill() for PID <= 0 and the answers stay true."""
    w, ps = template()
    for pid in (1, 7, 300):
        w.spawn(pid, start=3 * TICK, ppid=0)
    if job == "pid0-listed":
        w.spawn(0, start=0, ppid=0)
    bad = []
    listed = set(ps.pids())

    def probe(name, fn, want=None):
        n = len(w.kill_log)
        try:
            got = fn()
        except (ps.Error, ValueError, TypeError, OverflowError) as ex:
            got = type(ex).__name__
        grp = [x for x in w.kill_log[n:] if x[0] <= 0]
        if grp:
            bad.append("%s made the kernel see kill%r" % (name, [tuple(x[:2]) for x in grp]))
        elif want is not None and got != want:
            bad.append("%s -> %r, expected %r" % (name, got, want))
    for x in (0, False, -1, -7, -2 ** 31, -2 ** 40, 2 ** 31, 2 ** 64, True, 7, 8):
        want = None if x is True else (x in listed and x >= 0 if not isinstance(x, bool) else x in listed)
        probe("pid_exists(%r)" % (x,), lambda: ps.pid_exists(x), want)
    for x in (0, -1, -7):
        for m in ("kill", "terminate", "suspend", "resume", "is_running", "wait"):
            def call(x=x, m=m):
                p = ps.Process(x)
                return getattr(p, m)(0) if m == "wait" else getattr(p, m)()
            probe("Process(%d).%s()" % (x, m), call)
        probe("Process(%d).send_signal(0)" % x, lambda: ps.Process(x).send_signal(0))
        probe("Process(%d).children()" % x, lambda: ps.Process(x).children(recursive=True) and None)
    probe("wait_procs", lambda: ps.wait_procs([ps.Process(1)], timeout=0) and None)
    return bad


def check_group_probe(ctx):
    for job, (st, res) in zip(("plain", "pid0-listed"), forkpool.map_fork(run_group_probe, ["plain", "pid0-listed"], nproc=16)):
        if st != "ok":
            raise core.Machinery("group probe worker failed: %s" % (res,))
        for m in res:
            ctx.disagree("group:" + m.split("(")[0] + ":" + m.split(" ")[1][:12], m + "  [world %s]" % job, {"world": job, "what": m})
        ctx.case(("group-probe", job))


def sig_of(e, mismatch):
    return "%s:%s" % (e.get("op"), e.get("kind", e.get("sig", "")))


# ---------------------------------------------------------------------------

def tlc_check(ctx, name, c, props, workers=16, timeout=900, simulate=None, depth=None, invs=INVS):
    cfg = os.path.join(tlc.scratch(), name + ".cfg")
    tlc.write_cfg(cfg, c, view="view", invariants=invs, properties=props)
    r = tlc.run("ProcIdentity", cfg, workers=workers, timeout=timeout,
                simulate=simulate, depth=depth, seed=ctx.seed if simulate else None)
    ctx.tlc(name, r, {k: sorted(v) if isinstance(v, set) else v for k, v in c.items()})
    return r


def dump(ctx, name, c):
    r = tlc.dump_cached("ProcIdentity", c)
    ctx.tlc(name, r)
    if not r.tr:
        raise core.Machinery("dump %s produced no transitions" % name)
    return graph.from_dump(r)


def edge_class(g, ei):
    """Abstract class of a transition: operation, arguments other than object
    slots, predicted result, flags of the objects involved, ownership relation."""
    s, e, t = g.edges[ei]
    objs = g.states[s][3]
    fl = []
    for k in ("o", "a", "b"):
        if k in e:
            ob = objs[e[k] - 1]
            fl.append((ob["gone"], ob["reused"], ob["saidFalse"], ob["pid"] >= 0))
    rel = None
    if "owner" in e:
        rel = "none" if e["owner"] == 0 else ("same" if e["owner"] == e["forInc"] else "other")
    args = tuple(sorted((k, str(v)) for k, v in e.items() if k not in ("o", "a", "b", "toInc", "forInc", "owner", "inc")))
    return (args, tuple(fl), rel, g.states[s][1])


def replay_graph(ctx, name, g, per_class=None):
    only = None
    if per_class is not None:
        rnd = random.Random(ctx.seed)
        order = list(range(len(g.edges)))
        rnd.shuffle(order)
        cnt, only = {}, []
        for ei in order:
            c = edge_class(g, ei)
            if cnt.get(c, 0) < per_class:
                cnt[c] = cnt.get(c, 0) + 1
                only.append(ei)
        ctx.cov.setdefault("edge_classes", {})[name] = len(cnt)
    if g.unreachable:
        raise core.Machinery('dump has %d unreachable transitions' % g.unreachable)
    segs = g.tour(maxlen=60, only=only)
    jobs = []
    for seg in segs:
        s0 = g.states[g.edges[seg[0]][0]]
        jobs.append((s0[0][4], [g.edges[e][1] for e in seg]))
    res = forkpool.map_fork(run_events, jobs, nproc=16)
    steps = 0
    ops = {}
    for job, (st, val) in zip(jobs, res):
        if st != "ok":
            raise core.Machinery("replay worker failed: %s" % (val,))
        if "mismatch" in val:
            e = val["event"]
            ctx.disagree("conf:" + sig_of(e, val["mismatch"]),
                         "code and specification disagree at step %d of a replayed behaviour: %s"
                         % (val["step"], val["mismatch"]),
                         {"btime": job[0], "events": job[1][:val["step"] + 1]})
            steps += val["step"]
        else:
            steps += val["steps"]
        for e in job[1]:
            k = e["op"] + ":" + str(e.get("res"))
            ops[k] = ops.get(k, 0) + 1
            if not e["op"].startswith("k_"):
                ctx.case((e["op"], json.dumps(e, sort_keys=True)))
    ctx.cov["replayed_transitions"] += steps
    ctx.cov["traces_validated_against_impl"] += len(jobs)
    ctx.cov.setdefault("replay", {})[name] = {"graph_states": len(g.states),
                                              "graph_transitions": len(g.edges),
                                              "segments": len(jobs), "steps": steps,
                                              "op_result_classes": ops}
    if jobs:
        ctx.sample({"kind": "replayed behaviour", "btime": jobs[len(jobs) // 2][0],
                    "events": jobs[len(jobs) // 2][1][:12]})
    return ops


def replay_sim(ctx, name, c, num, depth):
    d = tlc.scratch()
    cfg = os.path.join(d, name + ".cfg")
    tlc.write_cfg(cfg, c)
    r = tlc.run("ProcIdentity", cfg, workers=1, timeout=600,
                simulate="file=%s/b,num=%d" % (d, num), depth=depth, seed=ctx.seed)
    ctx.tlc(name, r)
    jobs = []
    for f in sorted(os.listdir(d)):
        if not f.startswith("b_"):
            continue
        beh = tlc.parse_sim_file(os.path.join(d, f))
        if len(beh) < 2:
            continue
        evs = [st["ev"] for _, st in beh[1:]]
        jobs.append((beh[0][1]["btime"], evs))
    import shutil
    shutil.rmtree(d, ignore_errors=True)
    if not jobs:
        raise core.Machinery("simulation produced no behaviours")
    res = forkpool.map_fork(run_events, jobs, nproc=16)
    steps = 0
    for job, (st, val) in zip(jobs, res):
        if st != "ok":
            raise core.Machinery("replay worker failed: %s" % (val,))
        if "mismatch" in val:
            ctx.disagree("conf:" + sig_of(val["event"], val["mismatch"]),
                         "code and specification disagree at step %d of a simulated behaviour: %s"
                         % (val["step"], val["mismatch"]),
                         {"btime": job[0], "events": job[1][:val["step"] + 1]})
        steps += val.get("steps", val.get("step", 0))
        for e in job[1]:
            if not e["op"].startswith("k_"):
                ctx.case((e["op"], json.dumps(e, sort_keys=True)))
    ctx.cov["replayed_transitions"] += steps
    ctx.cov["traces_validated_against_impl"] += len(jobs)
    ctx.cov.setdefault("replay", {})[name] = {"behaviours": len(jobs), "steps": steps}


def model_violation(ctx, r, name):
    """TLC found a property violated by the algorithm matching the tree:
    confirm on the real code, then report."""
    evs = tlc.trace_events(r.trace)
    parsed = []
    for label, txt in evs:
        try:
            parsed.append(tlc.parse_value(txt))
        except Exception:  # noqa: BLE001
            parsed.append({"op": "?", "raw": txt})
    btime = parsed[0].get("btime", 10) if parsed else 10
    job = (btime, [e for e in parsed[1:]])
    st, val = forkpool.fork_call(run_events, job)
    confirmed = st == "ok" and "mismatch" not in val
    last = parsed[-1] if parsed else {}
    ctx.disagree("model:%s:%s" % (r.violated, sig_of(last, "")),
                 "TLC: %s violated by the algorithm of the working tree in %d steps (%s on the real code: %s)\n%s"
                 % (r.violated, len(parsed) - 1,
                    "behaviour reproduced" if confirmed else "NOT reproduced", val,
                    "\n".join("%s %s" % x for x in evs)),
                 {"btime": btime, "events": job[1], "property": r.violated})


def check(ctx):
    forkpool.start(16, init=template)
    prop = ctx.prop
    props = PROPS[prop]
    thorough = ctx.tier == "thorough"
    ctx.cov["rule"] = ("cases = psutil-level transitions (operation, arguments, object/kernel "
                       "state class, predicted result) replayed into the real code; distinct = "
                       "distinct event records; kernel events are not counted")
    ctx.assumptions += [
        "calls are atomic w.r.t. kernel events (C01/C02 quantify over histories, not mid-call races)",
        "a PID is not recycled within one clock tick (documented assumption of Process._get_ident)",
        "simkernel renders /proc/<pid>/stat and /proc/stat as a Linux kernel does; signals and setters are observed at os.kill / setpriority / ioprio_set / sched_setaffinity / prlimit",
        "algorithm variant checked by TLC: Fixes = %s" % sorted(FIXES),
    ]
    # (1) exhaustive check
    allsetters = ("nice", "ionice", "rlimit", "affinity", "affinity_all")
    if thorough:
        c = consts({1, 2}, {1, 2, 3}, 4, 3, sigs=(9, 15), setters=allsetters, kinds=("proc", "popen"))
        r = tlc_check(ctx, "exhaustive-2pid-3obj", c, props, timeout=1500)
    else:
        c = consts({1, 2}, {1, 2}, 3, 2, sigs=(9,), setters=("nice",), kinds=("proc", "popen"))
        r = tlc_check(ctx, "exhaustive-2pid-2obj", c, props)
    if r.violated:
        model_violation(ctx, r, "exhaustive")
    # PID 0 listed (a world where /proc/0 exists): the PID-0 refusal
    c0 = consts({0, 1}, {1, 2}, 2, 1, sigs=(9, 15, 19, 18, 10), setters=())
    r0 = tlc_check(ctx, "exhaustive-pid0", c0, props)
    if r0.violated:
        model_violation(ctx, r0, "pid0")
    # (4) the specification must expose the defects of the unrepaired algorithm
    for fx, expect in (({"C02mono"}, "C01_NoMisdelivery"), ({"C01gone"}, "C02_RunTruth")):
        if fx <= FIXES and FIXES - fx:
            co = consts({1, 2}, {1, 2}, 3, 2, fixes=fx)
            if expect.startswith(prop):
                ro = tlc_check(ctx, "regression-without-" + "".join(sorted(FIXES - fx)), co, [expect], invs=())
                if ro.violated != expect:
                    raise core.Machinery("specification no longer exposes the %s defect of 7.0.0" % expect)
    # (2) transition tours
    pc = None if thorough else 2
    allops = set()
    for name, c in DUMPS:
        g = dump(ctx, name, c())
        allops |= set(replay_graph(ctx, name, g, per_class=pc))
    need = {"signal:ok", "signal:NSP", "set:ok", "set:NSP", "is_running:True", "is_running:False",
            "eq:True", "eq:False", "new:ok", "new:NSP", "ppid:NSP", "signal:ValueError"}
    if need - allops:
        core.vacuity("result classes never exercised: %s" % sorted(need - allops))
    # (3) deep random behaviours of a larger configuration
    cs = consts({1, 2, 3}, {1, 2, 3}, 6, 4, sigs=(9, 15, 19, 18, 1), setters=allsetters,
                kinds=("proc", "popen", "oneshot"))
    replay_sim(ctx, "simulate-3pid-3obj", cs, 4000 if thorough else 600, 40)
    if prop == "C01":
        check_group_probe(ctx)
    if prop == "C02":
        # is_running() / object identity under process_iter() traffic: the
        # ProcIter model (C04) predicts every is_running() answer on yielded objects
        from harness.props import c04
        c04.replay_all(ctx, thorough, vacuity=False, only=None if thorough else {"dump-1pid-1iter-full"})


DUMPS = [
    ("dump-1pid-2obj", lambda: consts({1}, {1, 2}, 2, 1, sigs=(9,), setters=("affinity_all",))),
    ("dump-2pid-1obj", lambda: consts({1, 2}, {1}, 2, 1, sigs=(15,), setters=("rlimit",))),
    ("dump-pid0", lambda: consts({0, 1}, {1}, 2, 1, sigs=(9, 15, 19, 18, 10), setters=())),
    ("dump-popen", lambda: consts({1}, {1, 2}, 2, 1, sigs=(9,), setters=("affinity",), kinds=("popen",))),
    ("dump-oneshot", lambda: consts({1}, {1}, 2, 1, sigs=(9,), setters=("nice",), kinds=("proc", "oneshot"))),
]


def warm(ctx):
    for name, c in DUMPS:
        dump(ctx, name, c())


def replay(ctx, data):
    """Re-run a recorded behaviour on the working tree; True if code and
    specification still disagree."""
    if "events" not in data.get("replay", {}):
        return False
    st, val = forkpool.fork_call(run_events, (data['replay'].get('btime', 10), data['replay']['events']))
    print("  ->", st, val if st != "ok" else {k: v for k, v in val.items() if k != "event"})
    return st != "ok" or "mismatch" in val


def main(prop, argv):
    core.main_wrapper(check, prop, argv)

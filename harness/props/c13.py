"""C13 -- process memory figures (spec/ProcMem.tla, spec/ProcMemTrace.tla).

mode 5: TLC enumerates abstract <statm, mappings, roll-up, MemTotal> records and publishes
        what memory_info / memory_full_info / memory_maps (both forms) / memory_percent must
        answer; every pair is replayed into the real API over simkernel (sim_c13 renderer).
mode 4: a seeded driver feeds random larger records to the real API; TLC evaluates the
        specification on every recorded input and accepts or rejects the recorded answers.
live  : structure-only run of the unmodified, un-interposed psutil on a live process."""
import errno
import itertools
import json
import os
import random
import resource
import subprocess
import sys
from fractions import Fraction

from harness import core, forkpool, functional, sim_c13, tlc
from harness.tmpl import template

FIXES = set()          # no repaired defect belongs to this property
PID = 77
PAGE = resource.getpagesize()
# per-case multiplier of every count (pages, kB, MemTotal): all formulas are homogeneous;
# 29*256 kB * (2**31+6) is ~16 PB, so "values up to TBs" are well covered
SCALES = [1, 2 ** 10, 2 ** 20 + 2, 2 ** 31 + 6]
# address multipliers: 8-digit, 10-digit, 12-digit (what x86-64 shows) and 16-digit ranges
AMULS = [1, 2 ** 13 + 1, 0x7f910a, 2 ** 41]
OPT_LINES = ["Extras", "Private_Hugetlb", "ProtectionKey", "THPeligible", "VmFlags"]
MEM_FIELDS = ["rss", "vms", "shared", "text", "lib", "data", "dirty", "uss", "pss", "swap"]
BAD_TYPES = ["", "RSS", "wired", "path", "rss ", "count", "index", "_fields", "_asdict", "__doc__"]   # (the last five: attributes of every named tuple)
NUM_FIELDS = ["rss", "size", "pss", "shared_clean", "shared_dirty", "private_clean",
              "private_dirty", "referenced", "anonymous", "swap"]
KB_LINES = ["Size", "Rss", "Pss", "Shared_Clean", "Shared_Dirty", "Private_Clean",
            "Private_Dirty", "Referenced", "Anonymous", "Swap", "Private_Hugetlb"]
INVS = ["GroupedConserves", "OneRowPerPath", "OneRowPerMapping", "FullExtendsInfo",
        "FullFromRows", "SourceIndependent", "PercentTotal", "Independent"]


def optsels(which):
    """cfg text of a set of subsets of the optional lines (cfg files take nested sets)."""
    if which == "all":
        subs = [c for n in range(len(OPT_LINES) + 1) for c in itertools.combinations(OPT_LINES, n)]
    else:
        subs = [(), tuple(OPT_LINES), ("Private_Hugetlb", "VmFlags"), ("Extras", "THPeligible")][:which]
    return "@{" + ", ".join("{" + ", ".join('"%s"' % x for x in c) + "}" for c in subs) + "}"


def consts(paths, maxmaps, sels, statms=(1, 2), totals=(50000,), rollups=("present", "enoent", "esrch")):
    return {"PageSize": PAGE, "StatmIds": set(statms), "PathIds": set(paths), "MaxMaps": maxmaps,
            "OptSels": optsels(sels), "Rollups": set(rollups), "Totals": set(totals),
            "BadTypes": set(BAD_TYPES)}


def configs(tier):
    """name -> constants.  quick: 0-3 mappings over 3 paths (anonymous, spaces+colon, unlinked)
    x all 32 optional-line subsets x 3 roll-up modes, plus every path of the table in pairs.
    thorough adds a 4th path to that, and 4 mappings: all subsets over 3 paths, and all 7
    paths over 2 complementary subsets."""
    c = {"maps3-paths3-allopts": consts((1, 2, 4), 3, "all"),
         "maps2-paths7": consts((1, 2, 3, 4, 5, 6, 7), 2, 2, statms=(1, 2, 3), totals=(50000, 7))}
    if tier == "thorough":
        c["maps3-paths4-allopts"] = consts((1, 2, 3, 4), 3, "all")
        c["maps4-paths3-allopts"] = consts((1, 2, 4), 4, "all")
        c["maps4-paths7"] = consts((1, 2, 3, 4, 5, 6, 7), 4, 2)
    return c


# ---------------------------------------------------------------------------
# abstract record -> simulated kernel
# ---------------------------------------------------------------------------

_ADDED = {"files": [], "dyn": []}


def build_world(w, inp, S, amul):
    for p in list(w.procs):
        if p != w.caller_pid:
            del w.procs[p]
    for k in _ADDED["files"]:
        w.files.pop(k, None)
    for k in _ADDED["dyn"]:
        w.dyn.pop(k, None)
    _ADDED["files"], _ADDED["dyn"] = [], []
    p = w.spawn(PID, comm=b"memproc", ppid=1, start=5)
    p.statm = tuple(v * S for v in inp["statm"])
    maps = inp["maps"]
    base = "%s/%d/" % (w.PROCFS, PID)
    smaps = sim_c13.render_smaps(maps, S, amul, PAGE)
    w.dyn[base + "smaps"] = lambda: smaps
    _ADDED["dyn"].append(base + "smaps")
    if inp["rollup"] == "present":
        roll = sim_c13.render_rollup(maps, S, amul, PAGE)
        w.dyn[base + "smaps_rollup"] = lambda: roll
        _ADDED["dyn"].append(base + "smaps_rollup")
    elif inp["rollup"] == "enoent":
        p.has_rollup = False
    else:
        p.deny["smaps_rollup"] = errno.ESRCH
    w.files[w.PROCFS + "/meminfo"] = sim_c13.render_meminfo(inp["total"] * S)
    _ADDED["files"].append(w.PROCFS + "/meminfo")
    for m in maps:      # a mapped file that was not unlinked exists
        if m["name"].startswith("/") and not m["deleted"]:
            w.files[m["name"]] = b""
            _ADDED["files"].append(m["name"])
    return p


def query(ps, types):
    """Every C13 answer of the real code for PID, as plain data."""
    pr = ps.Process(PID)
    info = pr.memory_info()
    full = pr.memory_full_info()
    un = pr.memory_maps(grouped=False)
    gr = pr.memory_maps(grouped=True)
    pct = {}
    for t in types:
        try:
            pct[t] = pr.memory_percent(t)
        except ValueError:
            pct[t] = "ValueError"
        except Exception as ex:  # noqa: BLE001
            pct[t] = "raised %s" % type(ex).__name__
    return {"info": dict(info._asdict()), "full": dict(full._asdict()),
            "maps": [dict(r._asdict()) for r in un], "grouped": [dict(r._asdict()) for r in gr],
            "percent": pct}


def addr_text(lo, hi, amul):
    return "%08x-%08x" % (lo * PAGE * amul, hi * PAGE * amul)


def _rowkey(r):
    return json.dumps(r, sort_keys=True, default=str)


INFO_FIELDS = MEM_FIELDS[:7]
GROUPED_FIELDS = ["path"] + NUM_FIELDS
ROW_FIELDS = ["addr", "perms"] + GROUPED_FIELDS


def _proj(d, fields):
    """Only the fields the statement speaks of (a field psutil may add later is not an error;
    a stated field that is missing shows up as None)."""
    return {k: d.get(k) for k in fields}


def compare(got, out, inp, S, amul):
    """Mismatches as 'tag | text'.  Only what the statement states: values by field name,
    rows as multisets (no order is stated)."""
    bad = []
    src = "rollup-" + inp["rollup"]
    exp = {k: v * S for k, v in out["info"].items()}
    if _proj(got["info"], exp) != exp:
        for k in sorted(exp):
            if got["info"].get(k) != exp.get(k):
                bad.append("memory_info.%s | memory_info().%s -> %r, expected %r pages x %d"
                           % (k, k, got["info"].get(k), None if k not in exp else exp[k] // PAGE, PAGE))
    exp = {k: v * S for k, v in out["full"].items()}
    if _proj(got["full"], exp) != exp:
        for k in sorted(exp):
            if got["full"].get(k) != exp.get(k):
                bad.append("memory_full_info.%s:%s | memory_full_info().%s -> %r, expected %r (source: %s)"
                           % (k, src if k in ("uss", "pss", "swap") else "statm", k, got["full"].get(k), exp.get(k), src))
    erows = []
    for r in out["maps"]:
        e = {f: r[f] * S for f in NUM_FIELDS}
        e.update(addr=addr_text(r["addr"][0], r["addr"][1], amul), perms=r["perms"], path=r["path"])
        erows.append(e)
    grows = [_proj(r, ROW_FIELDS) for r in got["maps"]]
    if sorted(map(_rowkey, grows)) != sorted(map(_rowkey, erows)):
        ge = {r.get("addr"): r for r in grows}
        if len(grows) != len(erows) or set(ge) != {e["addr"] for e in erows}:
            what = "rows"
        else:
            what = ",".join(sorted({k for e in erows for k in e if ge[e["addr"]].get(k) != e[k]}))
        bad.append("memory_maps(grouped=False):%s | memory_maps(grouped=False) -> %r, expected (any order) %r"
                   % (what, grows, erows))
    egr = []
    for r in out["grouped"]:
        e = {f: r[f] * S for f in NUM_FIELDS}
        e["path"] = r["path"]
        egr.append(e)
    ggr = [_proj(r, GROUPED_FIELDS) for r in got["grouped"]]
    if sorted(map(_rowkey, ggr)) != sorted(map(_rowkey, egr)):
        gp = sorted(str(r.get("path")) for r in ggr)
        what = "paths" if gp != sorted(e["path"] for e in egr) else "sums"
        bad.append("memory_maps(grouped=True):%s | memory_maps(grouped=True) -> %r, expected (any order) %r"
                   % (what, ggr, egr))
    for t, e in out["percent"].items():
        x = got["percent"].get(t)
        if e["err"] == "ValueError":
            if x != "ValueError":
                bad.append("memory_percent:unknown-name | memory_percent(%r) -> %r, expected ValueError" % (t, x))
        elif not functional.close(x, e["num"], e["den"]):
            bad.append("memory_percent:%s | memory_percent(%r) -> %r, expected %d/%d" % (t, t, x, e["num"], e["den"]))
    return bad


def classes_of(inp):
    """Input classes met by one record (vacuity accounting)."""
    maps = inp["maps"]
    names = [m["name"] for m in maps]
    c = {"maps=%d" % min(len(maps), 4), "rollup=" + inp["rollup"]}
    if len(set(names)) < len(names):
        c.add("repeated-path")
    if len(set(names)) > 1:
        c.add("several-paths")
    for m in maps:
        if m["name"] == "":
            c.add("anonymous")
        if " " in m["name"] and ":" in m["name"]:
            c.add("path-space-colon")
        if m["deleted"]:
            c.add("unlinked")
        if m["name"].endswith(" (deleted)"):
            c.add("literal-deleted-name")
        for l, v in m["opts"].items():
            c.add("%s=%s" % (l, bool(v)))
    return c


REQUIRED = ({"maps=%d" % k for k in range(4)} | {"rollup=present", "rollup=enoent", "rollup=esrch",
            "repeated-path", "several-paths", "anonymous", "path-space-colon", "unlinked",
            "literal-deleted-name"} | {"%s=%s" % (l, b) for l in OPT_LINES for b in (True, False)})


def run_chunk(cases):
    w, ps = template()
    out = []
    first = True
    for i, (ev, S, amul) in enumerate(cases):
        inp = ev["inp"]
        build_world(w, inp, S, amul)
        try:
            if not first:
                # total physical memory is what virtual_memory() reports; psutil remembers the
                # last report.  The first case of each child runs without any earlier report.
                ps.virtual_memory()
            first = False
            got = query(ps, list(ev["out"]["percent"]))
        except Exception as ex:  # noqa: BLE001
            out.append((i, "exception:%s | a C13 query raised %r for input %r (scale %d)"
                        % (type(ex).__name__, ex, inp, S)))
            continue
        bad = compare(got, ev["out"], inp, S, amul)
        if bad:
            out.append((i, bad[0] + "  [%d mismatch(es); input %r scale %d address multiplier %#x]"
                        % (len(bad), inp, S, amul)))
    return out


def sig_fn(case, text):
    return text.split(" | ")[0]


# ---- mode 4: random records through the code, judged by TLC -----------------

NAMES = ["", "", "/opt/my  libs/lib\ta:b.so.1", "/usr/lib/x86_64-linux-gnu/libc.so.6", "/tmp/gone file",
         "[heap]", "[stack]", "[vdso]", "[anon: my tag]", "/tmp/kept (deleted)", "/srv/Swap: 77 kB",
         "/memfd:buf", "/dev/zero", "/SYSV00000000", "/usr/bin/python3.12", "/a", "/x/Private_Clean: 9 kB",
         "anon_inode:[io_uring]", "/home/u/Pss:", "/var/lib/d (deleted) e"]
MUST_BE_DELETED = {"/memfd:buf", "/SYSV00000000"}
NEVER_DELETED = {"", "[heap]", "[stack]", "[vdso]", "[anon: my tag]", "/tmp/kept (deleted)", "anon_inode:[io_uring]"}
PERMS = ["r-xp", "rw-p", "r--p", "---p", "rw-s", "r--s", "rwxp", "--xp"]


def random_input(rnd):
    n = rnd.choice([0, 1, 2, 3, 5, 8, 12])
    pool = rnd.sample(NAMES, rnd.randint(1, 6))
    maps, page = [], rnd.randint(1, 40)
    deleted_of = {}
    for _ in range(n):
        name = rnd.choice(pool)
        if name not in deleted_of:      # one file is either unlinked or not
            deleted_of[name] = name in MUST_BE_DELETED or (name not in NEVER_DELETED and rnd.random() < 0.3)
        ln = rnd.randint(1, 30)
        kb = {l: rnd.choice([0, 0, rnd.randint(1, 9), rnd.randint(10, 300)]) for l in KB_LINES}
        maps.append({"lo": page, "hi": page + ln, "perms": rnd.choice(PERMS), "name": name,
                     "deleted": deleted_of[name], "kb": kb,
                     "opts": {l: rnd.random() < 0.5 for l in OPT_LINES}})
        page += ln + rnd.randint(0, 20)
    if n:
        statm = [rnd.randint(1, 100)] + [rnd.randint(0, 100) for _ in range(6)]
        rollup = rnd.choice(["present", "present", "enoent", "esrch"])
    else:
        statm = [0] * 7
        rollup = rnd.choice(["enoent", "esrch"])
    return {"statm": statm, "maps": maps, "rollup": rollup,
            # (a process may map, reserve or swap more than the machine has: vms, data, swap)
            "total": rnd.choice([rnd.randint(20000, 60000), rnd.randint(20000, 60000), rnd.randint(4, 400)])}


def _unscale(v, S):
    return v // S if isinstance(v, int) and not isinstance(v, bool) and v >= 0 and v % S == 0 else -1


def symbolic(g, inp, S, amul):
    """The recorded answers in the specification's units (scale divided out, address text
    turned back into page numbers, floats turned into the exact numerator they stand for);
    anything that does not divide out becomes -1, which no specification value equals."""
    got = {"info": {k: _unscale(g["info"].get(k), S) for k in INFO_FIELDS},
           "full": {k: _unscale(g["full"].get(k), S) for k in MEM_FIELDS}}
    rows = []
    for r in g["maps"]:
        e = {k: (_unscale(r.get(k), S) if k in NUM_FIELDS else str(r.get(k))) for k in ROW_FIELDS}
        try:
            lo, hi = (int(x, 16) for x in r["addr"].split("-"))
            unit = PAGE * amul
            ok = lo % unit == 0 and hi % unit == 0 and r["addr"] == "%08x-%08x" % (lo, hi)
            e["addr"] = [lo // unit, hi // unit] if ok else [-1, -1]
        except (ValueError, AttributeError, KeyError):
            e["addr"] = [-1, -1]
        rows.append(e)
    got["maps"] = rows
    got["grouped"] = [{k: (_unscale(r.get(k), S) if k in NUM_FIELDS else str(r.get(k))) for k in GROUPED_FIELDS}
                      for r in g["grouped"]]
    pct = {}
    den = inp["total"] * 1024
    for t, x in g["percent"].items():
        if x == "ValueError":
            pct[t] = {"err": "ValueError", "num": 0, "den": 1}
        elif isinstance(x, float) and x == x and abs(x) < 1e9:
            b = round(Fraction(x) * den / 100)
            pct[t] = {"err": "none", "num": 100 * b if functional.close(x, 100 * b, den) else -1, "den": den}
        else:
            pct[t] = {"err": str(x), "num": -1, "den": den}
    got["percent"] = pct
    return got


def rand_chunk(job):
    """Forked: feed random records to the real code; return trace lines."""
    seed, n = job
    w, ps = template()
    rnd = random.Random(seed)
    lines = []
    for j in range(n):
        inp = random_input(rnd)
        S, amul = rnd.choice(SCALES), rnd.choice(AMULS)
        build_world(w, inp, S, amul)
        try:
            if j:
                ps.virtual_memory()
            g = query(ps, MEM_FIELDS + BAD_TYPES)
        except Exception as ex:  # noqa: BLE001
            lines.append({"inp": inp, "scale": S, "amul": amul, "error": repr(ex), "etype": type(ex).__name__})
            continue
        lines.append({"inp": inp, "scale": S, "amul": amul, "got": symbolic(g, inp, S, amul)})
    return lines


def rand_one(job):
    """Forked: re-run one recorded line (replay)."""
    inp, S, amul = job
    w, ps = template()
    build_world(w, inp, S, amul)
    try:
        g = query(ps, MEM_FIELDS + BAD_TYPES)
    except Exception as ex:  # noqa: BLE001
        return [{"inp": inp, "scale": S, "amul": amul, "error": repr(ex), "etype": type(ex).__name__}]
    return [{"inp": inp, "scale": S, "amul": amul, "got": symbolic(g, inp, S, amul)}]


def trace_validate(ctx, n, only=None):
    if only is not None:
        jobs, fn = [(only["inp"], only["scale"], only["amul"])], rand_one
    else:
        jobs, fn = [(ctx.seed * 1000 + i, n // 16 + 1) for i in range(16)], rand_chunk
    res = forkpool.map_fork(fn, jobs, timeout=600)
    lines = []
    for st, val in res:
        if st != "ok":
            raise core.Machinery("trace driver failed: %s" % (val,))
        lines.extend(val)
    for l in [l for l in lines if "error" in l][:3]:
        ctx.disagree("trace:exception:" + l["etype"],
                     "a C13 query raised on a kernel-formatted record: %s (input %r, scale %d)"
                     % (l["error"], l["inp"], l["scale"]), l)
    seen = set()
    for l in lines:     # a record on which the code raised still exercised its input class
        seen |= classes_of(l["inp"])
        if len(l["inp"]["maps"]) >= 8:
            seen.add("maps>=8")
        ctx.case(("trace", json.dumps(l["inp"], sort_keys=True), l["scale"], l["amul"]))
    missing = (REQUIRED | {"maps>=8"}) - seen
    if missing and only is None:
        raise core.Machinery("random driver never produced input class(es) %s" % sorted(missing))
    lines = [l for l in lines if "got" in l]
    if not lines:
        return          # every query raised: reported above
    d = tlc.scratch()
    tf = os.path.join(d, "trace.ndjson")
    with open(tf, "w") as f:
        for l in lines:
            f.write(json.dumps({"inp": l["inp"], "got": l["got"]}) + "\n")
    cfg = os.path.join(d, "t.cfg")
    tlc.write_cfg(cfg, consts((1,), 0, 1), init="TInit", next_="TNext", invariants=["Match"])
    r = tlc.run("ProcMemTrace", cfg, workers=4, env={"TRACE_FILE": tf}, timeout=900)
    ctx.tlc("trace-validation", r)
    if not r.violated and r.distinct < 2 * len(lines):
        raise core.Machinery("trace validation evaluated %d states for %d records" % (r.distinct, len(lines)))
    ctx.cov["traces_validated_against_impl"] += len(lines)
    ctx.cov.setdefault("replay", {})["trace-validation"] = {
        "records": len(lines), "max_mappings": max(len(l["inp"]["maps"]) for l in lines)}
    if r.violated:
        rej = []
        for tag, rest in r.printed:
            if tag == "REJECTED":
                i, _, which = rest.partition(",")
                rej.append((int(i.strip()), ",".join(sorted(tlc.parse_value(which.strip())))))
        for i, which in rej[:3]:
            l = lines[i - 1]
            ctx.disagree("trace:rejected:%s:rollup-%s" % (which, l["inp"]["rollup"]),
                         "TLC rejects the recorded answer(s) of %s: input %r (scale %d), code answered %r"
                         % (which, l["inp"], l["scale"], l["got"]), l)
        if not rej:
            raise core.Machinery("trace validation failed without naming a record: %s" % r.violated)
    import shutil
    shutil.rmtree(d, ignore_errors=True)
    if lines:
        small = [l for l in lines if 1 <= len(l["inp"]["maps"]) <= 2]
        ctx.sample({"kind": "recorded trace line", "line": (small or lines)[0]})


# ---- calibration and live structure run --------------------------------------

def calibrate(ctx):
    bad, n, names = sim_c13.calibrate()
    if bad is None:
        ctx.notes.append("calibration skipped: /proc/self/smaps is not readable here")
        return
    if bad:
        raise core.Machinery("smaps renderer does not reproduce this kernel's text: %r" % (bad[:2],))
    ctx.cov.setdefault("replay", {})["renderer-calibration"] = {
        "live_lines_reproduced_byte_for_byte": n, "line_names_met": sorted(names)}


_LIVE = r'''
import json, re, sys
import psutil
HDR = re.compile(rb"^([0-9a-f]+-[0-9a-f]+) (\S+) \S+ \S+ \d+ ?(.*)$")
def headers():
    out = []
    with open("/proc/self/smaps", "rb") as f:
        for line in f.read().split(b"\n"):
            m = HDR.match(line)
            if m:
                out.append([m.group(1).decode(), m.group(2).decode(), m.group(3).strip().decode("utf8", "surrogateescape")])
    return out
p = psutil.Process()
res = {"stable": False}
for attempt in range(20):
    a = headers(); rows = p.memory_maps(grouped=False); b = headers()
    if a == b:
        res.update(stable=True, headers=a, rows=[list(r) for r in rows], fields=list(rows[0]._fields) if rows else [])
        break
g = p.memory_maps(grouped=True)
res["grouped_paths"] = [r.path for r in g]
res["grouped_fields"] = list(g[0]._fields) if g else []
res["info"] = dict(p.memory_info()._asdict())
res["full"] = dict(p.memory_full_info()._asdict())
res["percent_rss"] = p.memory_percent("rss")
try:
    p.memory_percent("no such field"); res["bad"] = "returned"
except ValueError:
    res["bad"] = "ValueError"
res["total"] = psutil.virtual_memory().total
json.dump(res, sys.stdout)
'''


def live(ctx):
    """Structure only (rule 2.7-6): figures of a live process drift between two reads."""
    snap = os.environ.get("VERIF_SNAPSHOT")
    if not snap or not os.path.exists("/proc/self/smaps"):
        ctx.notes.append("live structure run skipped (no snapshot path or no /proc/self/smaps)")
        return
    env = dict(os.environ, PYTHONPATH=snap)
    r = subprocess.run([sys.executable, "-c", _LIVE], env=env, cwd=snap, stdout=subprocess.PIPE,
                       stderr=subprocess.PIPE, timeout=120)
    if r.returncode != 0:
        ctx.disagree("live:exception", "memory queries of the unmodified psutil failed on a live process:\n%s"
                     % r.stderr.decode(errors="replace")[-1500:], {"live": True})
        return
    res = json.loads(r.stdout)
    bad = []
    if res["stable"]:
        hs, rows = res["headers"], res["rows"]
        if sorted(x[0] for x in hs) != sorted(x[0] for x in rows):
            bad.append("rows do not match the mappings one to one: %d rows, %d mappings" % (len(rows), len(hs)))
        else:
            byaddr = {x[0]: x for x in rows}
            for addr, perms, shown in hs:
                row = byaddr[addr]
                okpaths = {shown or "[anon]"}
                if shown.endswith(" (deleted)"):
                    okpaths.add(shown[:-10])
                if row[1] != perms or row[2] not in okpaths:
                    bad.append("mapping %s %s %r listed as %r" % (addr, perms, shown, row[:3]))
                if any((not isinstance(v, int)) or v < 0 or v % 1024 for v in row[3:]):
                    bad.append("figures of %s are not whole kB: %r" % (addr, row[3:]))
            if res["fields"][:3] != ["addr", "perms", "path"]:
                bad.append("ungrouped row fields %r" % res["fields"])
            ctx.cov.setdefault("replay", {})["live-structure"] = {"mappings": len(hs), "grouped_rows": len(res["grouped_paths"])}
    else:
        ctx.notes.append("live structure run: the mapping list never held still, row check skipped")
    if len(set(res["grouped_paths"])) != len(res["grouped_paths"]):
        bad.append("grouped listing repeats a path")
    if any(v % PAGE or v < 0 for v in res["info"].values()):
        bad.append("memory_info() is not whole pages: %r" % res["info"])
    if any(res["full"][k] % 1024 or res["full"][k] < 0 for k in ("uss", "pss", "swap")):
        bad.append("memory_full_info() extra figures are not whole kB: %r" % res["full"])
    if res["bad"] != "ValueError":
        bad.append("memory_percent('no such field') did not raise ValueError")
    if not 0 < res["percent_rss"] < 100:
        bad.append("memory_percent('rss') = %r" % res["percent_rss"])
    for b in bad[:2]:
        ctx.disagree("live:structure", "live process, unmodified psutil: " + b, {"live": res})
    ctx.case(("live", len(res.get("headers", ()))), nontrivial=False)


# ---------------------------------------------------------------------------

def warm(ctx):
    for tier in ("quick", "thorough"):
        for name, c in configs(tier).items():
            rd = tlc.dump_cached("ProcMem", c, view=None)
            functional.events_of(rd)


def replay_one(ctx, path):
    rep = json.load(open(path))["replay"]
    if "case" in rep:       # an enumerated record: [event, scale, address multiplier]
        ev, S, amul = rep["case"]
        st, val = forkpool.map_fork(run_chunk, [[(ev, S, amul)]])[0]
        if st != "ok":
            raise core.Machinery("replay failed: %s" % (val,))
        for idx, text in val:
            ctx.disagree("conf:" + sig_fn(None, text), "code and specification disagree: %s" % text, rep)
        ctx.case(json.dumps(rep, sort_keys=True))
    elif "inp" in rep:      # a recorded line of the random driver: run it again, TLC judges
        trace_validate(ctx, 1, only=rep)
    else:
        raise core.Machinery("nothing to replay in %s (live findings: rerun the check)" % path)


def check(ctx):
    forkpool.start(16, init=template)
    if ctx.replay_file:
        return replay_one(ctx, ctx.replay_file)
    thorough = ctx.tier == "thorough"
    ctx.cov["rule"] = ("cases = abstract <statm, mappings, roll-up mode, MemTotal> records (x count scale x address "
                       "multiplier) rendered by sim_c13 into statm/smaps/smaps_rollup/meminfo and queried through "
                       "memory_info, memory_full_info, memory_maps (both forms) and memory_percent (15 names); "
                       "distinct = distinct (record, scale, multiplier)")
    ctx.assumptions += [
        "sim_c13 renders smaps/smaps_rollup as fs/proc/task_mmu.c does (calibrated byte for byte against this kernel's "
        "/proc/self/smaps at every run); the roll-up holds exactly the per-line sums of the listing, as the statement assumes "
        "(a live kernel's roll-up Pss can be a few kB higher because it is summed at higher precision)",
        "rows of memory_maps() are compared as multisets: the statement gives no order",
        "an unlinked file is shown by the kernel as 'name (deleted)' and must be listed as 'name'; a living file whose "
        "name really ends in ' (deleted)' must keep it; the undecidable case (both a living 'x (deleted)' and an unlinked "
        "'x' visible) is not generated; names with leading/trailing blanks or newlines are not generated",
        "memory_percent floats are compared with the exact rational 100*field/total up to 4 ulp; total is what "
        "virtual_memory().total reports, refreshed through that public call whenever the simulated MemTotal changes "
        "(the first case of every forked child runs with no earlier report)",
        "a task without mappings has an all-zero statm and an unreadable roll-up (kernel thread); zombies belong to C03",
        "scales multiply pages, kB and MemTotal alike (formulas are homogeneous): figures up to 2^45 kB are exercised",
    ]
    calibrate(ctx)
    rnd = random.Random(ctx.seed)
    seen, nres = set(), {"ValueError": 0, "ratio": 0, "grouped<ungrouped": 0}
    for name, c in configs(ctx.tier).items():
        evs = functional.observe(ctx, "ProcMem", name, c, invariants=INVS)
        cases = []
        for e in evs:
            if e.get("op") != "observe":
                continue
            seen |= classes_of(e["inp"])
            nres["ValueError"] += sum(1 for v in e["out"]["percent"].values() if v["err"] == "ValueError")
            nres["ratio"] += sum(1 for v in e["out"]["percent"].values() if v["err"] == "none")
            nres["grouped<ungrouped"] += len(e["out"]["grouped"]) < len(e["out"]["maps"])
            cases.append((e, 1, 1))
            if thorough or rnd.random() < 0.34:
                cases.append((e, rnd.choice(SCALES[1:]), rnd.choice(AMULS[1:])))
        if not cases:
            raise core.Machinery("TLC produced no observation for %s" % name)
        functional.run_cases(ctx, name, cases, run_chunk, sig_fn)
    missing = REQUIRED - seen
    if missing:
        core.vacuity("enumeration never produced input class(es) %s" % sorted(missing))
    if not all(nres.values()):
        core.vacuity("a result class was never exercised: %r" % nres)
    ctx.cov.setdefault("replay", {})["classes"] = {"input": sorted(seen), "results": nres}
    trace_validate(ctx, 20000 if thorough else 3000)
    live(ctx)


def main(prop, argv):
    core.main_wrapper(check, prop, argv)

"""C06 -- per-process kernel facts (spec/ProcStat.tla, spec/ProcStatTrace.tla)."""
import json
import os
import random

from harness import core, forkpool, functional, tlc
from harness.simkernel import Thread
from harness.tmpl import template

FIXES = {"C06rfind"}
SCALES = [1, 2 ** 10, 2 ** 31 + 6, 2 ** 53 + 2, (2 ** 64 - 1) // 2300]
LETTERS = ["R", "S", "D", "T", "t", "Z", "X", "x", "K", "W", "I", "P"]
PID = 77


def consts(maxlen, alphabet=(97, 32, 40, 41, 10, 255), layouts=(52, 44, 41), nthr=(1, 2),
           ttys=(0, 1025, 34816, 34826, 34939, 1088, 999, 1083436, 15763711), longlens=(15, 16), letters=LETTERS):
    return {"Alphabet": set(alphabet), "MaxLen": maxlen, "LongLens": set(longlens),
            "Letters": set(letters), "Layouts": set(layouts), "Ttys": set(ttys), "NThreads": set(nthr)}


def build_world(w, inp, tcomms, S):
    """Render the abstract record into the simulated kernel."""
    for p in list(w.procs):
        if p != w.caller_pid:
            del w.procs[p]
    w.devs = {"/dev/tty1": 1025, "/dev/pts/0": 34816, "/dev/tty": 1280, "/dev/pts/10": 34826,
              "/dev/pts/123": 34939, "/dev/ttyS0": 1088, "/dev/pts/ptmx": 1282,
              "/dev/pts/300": 1083436, "/dev/pts/4095": 15763711, "/dev/pts/44": 34860, "/dev/pts/255": 35071}
    p = w.spawn(PID, comm=bytes(inp["comm"][:15]), state=inp["letter"], ppid=4, start=2200 * S)
    p.utime, p.stime, p.cutime, p.cstime = 11 * S, 12 * S, 13 * S, 14 * S
    p.processor, p.blkio, p.tty_nr = 3, 42 * S, inp["tty"]
    p.stat_nfields = inp["nf"]
    p.uids, p.gids = (1001, 1002, 1003, 1004), (2001, 2002, 2003, 2004)
    p.vol_ctx, p.nonvol_ctx = 71 * S, 72 * S
    p.cmdline = b"x\0"
    p.threads = {PID: Thread(bytes(tcomms[0]) if tcomms else p.comm, 101 * S, 201 * S)}
    if inp["letter"] != "Z" and len(tcomms) > 1:
        for k in range(2, len(tcomms) + 1):
            p.threads[PID + k - 1] = Thread(bytes(tcomms[k - 1]), (100 + k) * S, (200 + k) * S)
    return p


def query(ps, w):
    """All C06 answers of the real code for PID, in the specification's shape
    (tick counts recovered from seconds)."""
    pr = ps.Process(PID)

    def answers():
        ct = pr.cpu_times()
        return {
            "name": os.fsencode(pr.name()), "ppid": pr.ppid(), "status": pr.status(),
            "cpu_times": list(ct), "create_time": pr.create_time(), "cpu_num": pr.cpu_num(),
            "terminal": pr.terminal(), "num_threads": pr.num_threads(),
            "ctx": list(pr.num_ctx_switches()), "uids": list(pr.uids()), "gids": list(pr.gids()),
            "threads": sorted((t.id, t.user_time, t.system_time) for t in pr.threads()),
        }
    # asked plainly, or as the first / as a later question of one oneshot() block in which other
    # methods drawing on the same records (cpu_percent, username's uids, as_dict) went before
    _QN[0] += 1
    mode = _QN[0] % 3
    if mode == 0:
        return answers()
    with pr.oneshot():
        if mode == 2:
            pr.cpu_percent()
            pr.as_dict(attrs=["cpu_times", "num_threads", "uids", "status"])
            answers()
        return answers()


_QN = [0]


def compare(got, out, S, w):
    clk = w.clk_tck
    close = functional.close
    bad = []
    if got["name"] != bytes(out["name"]):
        bad.append("name() -> %r, expected %r" % (got["name"], bytes(out["name"])))
    if got["ppid"] != out["ppid"]:
        bad.append("ppid() -> %r, expected %r" % (got["ppid"], out["ppid"]))
    if got["status"] != out["status"]:
        bad.append("status() -> %r, expected %r" % (got["status"], out["status"]))
    def close(x, num, den):
        # ticks / tick rate: the correctly rounded quotient while the counter is exactly representable
        # (below 2**53); above, converting the counter rounds once more and an ulp or two may go
        if isinstance(x, float) and 0 <= num < 2 ** 53:
            return x == num / den
        return functional.close(x, num, den)
    for i, (x, t) in enumerate(zip(got["cpu_times"], out["cpu_times"])):
        if not close(x, t * S, clk):
            bad.append("cpu_times()[%d] -> %r, expected %d/%d" % (i, x, t * S, clk))
    if len(got["cpu_times"]) != 5:
        bad.append("cpu_times() has %d fields" % len(got["cpu_times"]))
    from fractions import Fraction
    if not close(got["create_time"], out["start"] * S + clk * w.btime, clk):
        bad.append("create_time() -> %r, expected %d/%d + %d" % (got["create_time"], out["start"] * S, clk, w.btime))
    if got["cpu_num"] != out["cpu_num"]:
        bad.append("cpu_num() -> %r" % got["cpu_num"])
    exp_t = None if out["terminal"] == "None" else out["terminal"]
    if got["terminal"] != exp_t:
        bad.append("terminal() -> %r, expected %r" % (got["terminal"], exp_t))
    if got["num_threads"] != out["num_threads"]:
        bad.append("num_threads() -> %r, expected %r" % (got["num_threads"], out["num_threads"]))
    if got["ctx"] != [c * S for c in out["ctx"]]:
        bad.append("num_ctx_switches() -> %r" % got["ctx"])
    if got["uids"] != list(out["uids"]) or got["gids"] != list(out["gids"]):
        bad.append("uids()/gids() -> %r %r" % (got["uids"], got["gids"]))
    exp_thr = sorted((PID + k - 1, ut, st) for k, ut, st in out["threads"])
    if len(exp_thr) != len(got["threads"]) or any(
            g[0] != e[0] or not close(g[1], e[1] * S, clk) or not close(g[2], e[2] * S, clk)
            for g, e in zip(got["threads"], exp_thr)):
        bad.append("threads() -> %r, expected ticks %r (scale %d)" % (got["threads"], exp_thr, S))
    return bad


def run_chunk(cases):
    w, ps = template()
    out = []
    for i, (ev, S) in enumerate(cases):
        build_world(w, ev["inp"], ev["tcomms"], S)
        try:
            got = query(ps, w)
        except Exception as ex:  # noqa: BLE001
            out.append((i, "query raised %r for input %r" % (ex, ev["inp"])))
            continue
        bad = compare(got, ev["out"], S, w)
        if bad:
            out.append((i, "; ".join(bad) + "  [input %r scale %d]" % (ev["inp"], S)))
    return out


def sig_fn(case, text):
    return text.split("(")[0].split(" ")[0] + ":" + ("threads" if "threads()" in text else "")


# ---- mode 4: random records through the code, judged by TLC -----------------

def rand_chunk(job):
    """Forked: feed random records to the real code; return trace lines."""
    seed, n = job
    w, ps = template()
    rnd = random.Random(seed)
    lines = []
    for _ in range(n):
        ln = rnd.choice([0, 1, 2, 5, 8, 14, 15])
        comm = [rnd.choice([97, 98, 32, 40, 41, 10, 0x80, 0xc3, 0xa9, 0xff, 58, 9]) for _ in range(ln)]
        inp = {"comm": comm, "letter": rnd.choice(LETTERS), "nf": rnd.choice([52, 44, 41]),
               "tty": rnd.choice([0, 1025, 34816, 34826, 34939, 1088, 999, 1083436, 15763711]), "nthr": rnd.choice([1, 2, 3])}
        nthr = 1 if inp["letter"] == "Z" else inp["nthr"]
        tcomms = [comm[:15]] + [[116, 41, 32, 40, 48 + k] for k in range(2, nthr + 1)]
        build_world(w, inp, tcomms, 1)
        try:
            g = query(ps, w)
        except Exception as ex:  # noqa: BLE001
            lines.append({"inp": inp, "error": repr(ex)})
            continue
        clk = w.clk_tck

        def ticks(x):
            t = round(x * clk)
            return t if functional.close(x, t, clk) else -1
        got = {"name": list(g["name"]), "ppid": g["ppid"], "status": g["status"],
               "cpu_times": [ticks(x) for x in g["cpu_times"]],
               "start": ticks(g["create_time"] - w.btime) if g["create_time"] < 2 ** 40 else -1,
               "cpu_num": g["cpu_num"], "terminal": g["terminal"] or "None",
               "num_threads": g["num_threads"], "ctx": g["ctx"], "uids": g["uids"], "gids": g["gids"],
               "threads": [[t[0] - PID + 1, ticks(t[1]), ticks(t[2])] for t in g["threads"]]}
        lines.append({"inp": inp, "got": got})
    return lines


def trace_validate(ctx, n):
    jobs = [(ctx.seed * 1000 + i, n // 16 + 1) for i in range(16)]
    res = forkpool.map_fork(rand_chunk, jobs)
    lines = []
    for st, val in res:
        if st != "ok":
            raise core.Machinery("trace driver failed: %s" % (val,))
        lines.extend(val)
    errs = [l for l in lines if "error" in l]
    for l in errs[:3]:
        ctx.disagree("trace:exception", "a C06 query raised on a kernel-formatted record: %s (input %r)"
                     % (l["error"], l["inp"]), l)
    lines = [l for l in lines if "got" in l]
    d = tlc.scratch()
    tf = os.path.join(d, "trace.ndjson")
    with open(tf, "w") as f:
        for l in lines:
            f.write(json.dumps(l) + "\n")
    cfg = os.path.join(d, "t.cfg")
    tlc.write_cfg(cfg, consts(0), init="TInit", next_="TNext", invariants=["Match"])
    r = tlc.run("ProcStatTrace", cfg, workers=4, env={"TRACE_FILE": tf}, timeout=900)
    ctx.tlc("trace-validation", r)
    ctx.cov["traces_validated_against_impl"] += len(lines)
    ctx.cov.setdefault("replay", {})["trace-validation"] = {"records": len(lines)}
    if r.violated:
        rej = [int(p[1].strip()) for p in r.printed if p[0] == "REJECTED"]
        for i in rej[:3]:
            l = lines[i - 1]
            ctx.disagree("trace:" + ",".join(k for k in l["got"]), "TLC rejects a recorded answer: input %r, code answered %r"
                         % (l["inp"], l["got"]), l)
        if not rej:
            raise core.Machinery("trace validation failed without naming a record: %s" % r.violated)
    import shutil
    shutil.rmtree(d, ignore_errors=True)
    if lines:
        ctx.sample({"kind": "recorded trace line", "line": lines[0]})


INVS = ["IndependentOfName", "NameIsKernelName", "OneRowPerThread"]


def calibrate(ctx):
    """Trusted base: the stat/status renderer.  A real child renames itself
    (PR_SET_NAME) to a hostile name; the real psutil on the live /proc and the
    real psutil over simkernel -- built from facts obtained independently of
    /proc (os.getpid, os.getuid, the name we set, the thread we started) --
    must give the same answers, and the live stat record must have the shape
    simkernel renders (52 fields, name between the first '(' and last ')')."""
    import ctypes
    import subprocess
    import time
    name = b"a) (b \xff"
    r, wfd = os.pipe()
    pid = os.fork()
    if pid == 0:
        os.close(r)
        ctypes.CDLL(None).prctl(15, name, 0, 0, 0)
        import threading
        threading.Thread(target=time.sleep, args=(30,), daemon=True).start()
        os.write(wfd, b"x")
        time.sleep(30)
        os._exit(0)
    os.close(wfd)
    os.read(r, 1)
    os.close(r)
    try:
        live_stat = open("/proc/%d/stat" % pid, "rb").read()
        code = ("import psutil, json, os; p = psutil.Process(%d); print(json.dumps({'name': list(os.fsencode(p.name())), "
                "'ppid': p.ppid(), 'status': p.status(), 'uids': list(p.uids()), 'gids': list(p.gids()), "
                "'num_threads': p.num_threads(), 'nthr': len(p.threads()), 'terminal': p.terminal()}))" % pid)
        env = dict(os.environ, PYTHONPATH=os.environ["VERIF_SNAPSHOT"])
        out = subprocess.run(["/venv/bin/python", "-c", code], env=env, capture_output=True, text=True, timeout=60)
    finally:
        os.kill(pid, 9)
        os.waitpid(pid, 0)
    if out.returncode != 0:
        ctx.notes.append("calibration skipped: live psutil failed: %s" % out.stderr[-200:])
        return
    live = json.loads(out.stdout.strip().splitlines()[-1])
    body = live_stat[live_stat.rfind(b")") + 2:].split()
    shape_ok = (len(body) == 50 and live_stat[live_stat.find(b"(") + 1:live_stat.rfind(b")")] == name)
    st, sim = forkpool.fork_call(_calib_sim, (list(name), os.getpid(), os.getuid(), os.getgid()))
    if st != "ok":
        raise core.Machinery("calibration worker failed: %s" % (sim,))
    live["status"] = "sleeping" if live["status"] in ("sleeping", "running") else live["status"]
    diff = {k: (live[k], sim[k]) for k in sim if live.get(k) != sim[k]}
    if diff or not shape_ok:
        raise core.Machinery("stat/status renderer disagrees with the live kernel: %r (stat shape ok: %s)" % (diff, shape_ok))
    ctx.cov["calibration"] = {"live_vs_sim_answers_compared": len(sim), "stat_fields_after_name": len(body)}


def _calib_sim(job):
    name, ppid, uid, gid = job
    w, ps = template()
    for p in list(w.procs):
        if p != w.caller_pid:
            del w.procs[p]
    p = w.spawn(PID, comm=bytes(name), state="S", ppid=ppid, start=100)
    p.uids, p.gids = (uid,) * 4, (gid,) * 4
    p.threads = {PID: Thread(bytes(name), 0, 0), PID + 1: Thread(bytes(name), 0, 0)}
    pr = ps.Process(PID)
    return {"name": list(os.fsencode(pr.name())), "ppid": pr.ppid(), "status": pr.status(), "uids": list(pr.uids()),
            "gids": list(pr.gids()), "num_threads": pr.num_threads(), "nthr": len(pr.threads()), "terminal": pr.terminal()}


def warm(ctx):
    c = consts(2)
    rd = tlc.dump_cached("ProcStat", c, view=None)
    functional.events_of(rd)


def check(ctx):
    forkpool.start(16, init=template)
    thorough = ctx.tier == "thorough"
    ctx.cov["rule"] = ("cases = abstract stat/status/task records (comm bytes x state letter x layout x tty x threads x "
                       "counter scale) rendered by simkernel and queried through the 12 public methods; distinct = distinct (record, scale)")
    ctx.assumptions += [
        "simkernel renders stat/status/task records as fs/proc/array.c does (52/44/41 fields); comm is at most 15 bytes",
        "floats are compared with the exact rational ticks/CLK_TCK up to 4 ulp",
        "the 41-field layout lacks delayacct_blkio_ticks (iowait reported as 0.0)",
    ]
    calibrate(ctx)
    c = consts(3 if thorough else 2)
    evs = functional.observe(ctx, "ProcStat", "inputs", c, invariants=INVS)
    rnd = random.Random(ctx.seed)
    cases = []
    for e in evs:
        if e.get("op") != "observe":
            continue
        cases.append((e, SCALES[0]))
        if thorough or rnd.random() < 0.25:
            cases.append((e, rnd.choice(SCALES[1:])))
    functional.run_cases(ctx, "enumerated-records", cases, run_chunk, sig_fn)
    trace_validate(ctx, 20000 if thorough else 3000)


def main(prop, argv):
    core.main_wrapper(check, prop, argv)

"""C07 -- CPU times and CPU percentages (spec/CpuPercent.tla, spec/CpuPercentTrace.tla).

The specification carries the kernel's per-CPU tick counters, the four
per-thread "last sample" maps, one process' ticks, the wall clock and the
per-object samples of Process.cpu_percent, and publishes for every call what
the STATEMENT of C07 demands as exact rationals.  TLC checks the structural
laws (range, shares add up to 100, clipping, guest/idle/iowait accounting,
thread independence) on every transition; the real psutil over simkernel is
bound to the published values by

  (a) transition tours of TLC's dumped state graphs,
  (b) `tlc -simulate` behaviours (3 threads, 10 fields, deeper),
      every model thread being a real threading.Thread,
  (c) a seeded random driver (larger deltas, counters scaled up to 2^53)
      whose recorded answers TLC judges with the same actions.

psutil fixes the /proc/stat layout, CLK_TCK and the importing thread's first
samples at import time, so there is one template process (and one fork pool)
per import-time configuration (ncpu, fields, CLK_TCK)."""
import json
import os
import queue
import random
import shutil
import threading
from fractions import Fraction

from harness import core, forkpool, functional, graph, tlc
from harness import replay as replay_mod
from harness.simkernel import World, import_psutil

# Repairs of /repo the specification depends on: none.  The specification is the
# statement; the one defect of the tree (cpu_times_percent's scale for totals
# below one CPU second) is reported by the signatures
#   conf:cpu_times_percent:subsecond-total / trace:cpu_times_percent:subsecond-total
# (signed in known_findings.json: its one-line repair contradicts an unedited
# test).  The probe run (Algo = "psutil700") shows that TLC's SharesSum law
# rejects that algorithm at model level too.
FIXES = set()

FIELDS = ["user", "nice", "system", "idle", "iowait", "irq", "softirq", "steal", "guest", "guest_nice"]
PID = 77
M0 = 1024.0            # virtual monotonic clock at the start of every replay (dyadic)
WALLDEN = 64           # wall unit of the model = 1/64 s (exact in binary floating point)
BLOCKWALL = 16         # a blocking system-wide call sleeps 16 units = 0.25 s
PBASE = (300, 200)     # utime/stime ticks of the process when the replay starts
TOL = Fraction(1, 20) + Fraction(1, 10 ** 9)
SCALES = [1, 2 ** 10, 2 ** 31 + 6, 2 ** 53 + 2]

PROPS = ["C07_Range", "C07_SharesSum", "C07_Clip", "C07_Busy", "C07_ThreadIndependence",
         "C07_OwnSample", "C07_SamplesOnlyByCalls", "C07_Proc"]

SIG_SUBSEC = "cpu_times_percent:subsecond-total"


def base(c, f):
    """kernel counter of CPU c, field f (0-based) when psutil is imported"""
    return 1000 + 100 * c + 7 * f


def consts(**kw):
    c = {"NCpuSet": {2}, "NFSet": {10}, "ClkSet": {100}, "Threads": {"main", "t2"},
         "Fns": {"cp", "ctp"}, "Forms": {"per", "tot"}, "Modes": {"nb", "block"},
         "DeltaMode": "pat", "DPos": {0, 1, 5}, "DNeg": {1}, "Patterns": {"mix", "back", "user"}, "BlockPats": None,
         "MaxAdv": 2, "MaxCalls": 2, "Objs": set(), "PModes": {"nb", "block", "neg"},
         "WallSteps": {0, 1, 64}, "ProcSteps": {0, 1, 5}, "MaxPCalls": 0, "MaxTicks": 0,
         "WallDen": WALLDEN, "BlockWall": BLOCKWALL, "Algo": "stated"}
    for k, v in kw.items():
        if k not in c:
            raise KeyError(k)
        c[k] = v
    if c["BlockPats"] is None:
        c["BlockPats"] = set(c["Patterns"])
    return c


def bounds_of(c):
    return {k: (sorted(v, key=str) if isinstance(v, (set, frozenset)) else v) for k, v in c.items()}


# ---------------------------------------------------------------------------
# templates: one psutil import per import-time configuration
# ---------------------------------------------------------------------------
_T = {}


def template(key):
    """World with the /proc/stat layout, CLK_TCK and CPU count of *key* built
    BEFORE psutil is imported over it."""
    if "ps" not in _T:
        ncpu, nf, clk = key
        w = World()
        w.ncpus, w.cpu_fields, w.clk_tck = ncpu, nf, clk
        w.cpu = [[base(c, f) for f in range(10)] for c in range(ncpu)]
        w.netdev, w.disks = {}, []
        ps = import_psutil(w)
        _T.update(w=w, ps=ps, key=tuple(key))
    return _T["w"], _T["ps"]


class Pools:
    def __init__(self, sizes):
        self.pools = {}
        for key, n in sizes.items():
            self.pools[key] = forkpool.Pool(n, init=(lambda k=key: template(k)))

    def map(self, fn, jobs, timeout=300):
        """jobs: dicts with a 'key'; results in job order."""
        by = {}
        for i, j in enumerate(jobs):
            by.setdefault(tuple(j["key"]), []).append(i)
        out = [None] * len(jobs)
        missing = [k for k in by if k not in self.pools]
        if missing:
            raise core.Machinery("no template for import-time configuration(s) %s" % missing)

        def run(k):
            res = self.pools[k].map(fn, [jobs[i] for i in by[k]], True, timeout)
            for i, r in zip(by[k], res):
                out[i] = r
        ths = [threading.Thread(target=run, args=(k,)) for k in by]
        for t in ths:
            t.start()
        for t in ths:
            t.join()
        return out

    def close(self):
        # a template process inherits the pipe ends of the pools forked before
        # it: the last pool must go first or the earlier ones never see EOF
        for p in reversed(list(self.pools.values())):
            p.close()
        self.pools = {}


# ---------------------------------------------------------------------------
# the real code under the events of a behaviour
# ---------------------------------------------------------------------------
class ModelThread:
    """One model thread = one real thread for the whole replay (a stable
    threading.current_thread().ident); runs one call at a time."""

    def __init__(self, name):
        self.q, self.r = queue.Queue(), queue.Queue()
        self.th = threading.Thread(target=self.loop, name=name, daemon=True)
        self.th.start()

    def loop(self):
        while True:
            fn = self.q.get()
            try:
                self.r.put(("ok", fn()))
            except BaseException as ex:  # noqa: BLE001
                self.r.put(("exc", ex))

    def call(self, fn):
        self.q.put(fn)
        return self.r.get()


def frac(q):
    return Fraction(q[0], q[1])


def tenths_ok(x):
    return isinstance(x, (int, float)) and not isinstance(x, bool) and x == x and abs(x * 10 - round(x * 10)) <= 1e-6 * max(1.0, abs(x * 10))


class Abandon(Exception):
    """The replay cannot be continued in step with the model (the code slept
    another amount of virtual time than the interval it was given): nothing is
    asserted about the rest of the behaviour."""


class Adapter:
    def __init__(self, w, ps, key, S=1, SP=1):
        self.w, self.ps = w, ps
        self.ncpu, self.nf, self.clk = key
        self.S, self.SP = S, SP
        self.cpu = [[0] * self.nf for _ in range(self.ncpu)]
        self.ptk = [0, 0]
        self.wall = 0
        self.threads = {}
        self.objs = {}
        self.tags = set()
        self.nstep = 0
        if w.mono < M0:
            w.advance(M0 - w.mono)
        self.mono0 = w.mono
        self.proc = w.spawn(PID, comm=b"burn", ppid=1, start=7)
        self.sync()
        # the model's threads exist from the start, so that no thread identifier of a
        # by-stander (below) is ever handed on to one of them
        for t in ("t2", "t3"):
            self.threads[t] = ModelThread(t)

    def bystander(self):
        """Another thread of the program samples all four forms and exits.  Each calling thread is
        measured against its own previous sample: nothing changes for the model's threads."""
        ps = self.ps

        def body():
            for per in (False, True):
                ps.cpu_percent(interval=None, percpu=per)
                ps.cpu_times_percent(interval=None, percpu=per)
        th = threading.Thread(target=body, name="bystander")
        th.start()
        th.join()

    # -- kernel ---------------------------------------------------------
    def sync(self):
        S = self.S
        self.w.cpu = [[base(c, f) + (S * self.cpu[c][f] if f < self.nf else 0) for f in range(10)]
                      for c in range(self.ncpu)]
        self.proc.utime = PBASE[0] + self.SP * self.ptk[0]
        self.proc.stime = PBASE[1] + self.SP * self.ptk[1]
        # what the process did not use itself: CPU time of reaped children (added
        # by the kernel at wait()) and block-I/O delay grow at every step too
        self.noise = getattr(self, "noise", 0) + 1
        self.proc.cutime = 7 + 13 * self.SP * self.noise
        self.proc.cstime = 5 + 11 * self.SP * self.noise
        self.proc.blkio = 3 * self.SP * self.noise

    def advance(self, dm):
        for c in range(self.ncpu):
            for f in range(self.nf):
                self.cpu[c][f] += dm[c][f]
                if self.cpu[c][f] < 0:
                    raise core.Machinery("behaviour drives a kernel counter below zero")
        self.sync()

    def unit(self):
        return self.SP / WALLDEN

    def set_wall(self, wall):
        """virtual clock := start + wall units (never backwards)"""
        self.wall = wall
        target = self.mono0 + wall * self.unit()
        if target > self.w.mono:
            self.w.advance(target - self.w.mono)

    def run_on(self, t, fn):
        if t == "main":
            try:
                return ("ok", fn())
            except Exception as ex:  # noqa: BLE001
                return ("exc", ex)
        th = self.threads.get(t)
        if th is None:
            th = self.threads[t] = ModelThread(t)
        return th.call(fn)

    def sleeping_call(self, t, fn, units, event):
        """fn sleeps *units* wall units on the virtual clock; *event* happens in
        the middle of the sleep.  Returns (status, value, notes)."""
        w = self.w
        notes = []
        fired = []
        start = w.mono
        dur = units * self.unit()

        def fire():
            fired.append(1)
            event()
        w.at(start + dur / 2, fire)
        st, val = self.run_on(t, fn)
        if not fired:
            # the code did not sleep through the interval: keep the kernel in step
            w.timeline[:] = [x for x in w.timeline if x[1] is not fire]
            fire()
            notes.append("the call returned before half of its interval had elapsed")
        self.set_wall(self.wall + units)
        if abs(w.mono - (start + dur)) > 1e-9:
            notes.append("the call slept %r s instead of %r s" % (w.mono - start, dur))
        return st, val, notes

    # -- events -----------------------------------------------------------
    def step(self, e):
        """Returns a list of (signature, text) disagreements."""
        self.nstep += 1
        op = e["op"]
        if op == "adv":
            self.advance(e["dm"] if "dm" in e else
                         [[e["cpu"][c][f] - self.cpu[c][f] for f in range(self.nf)] for c in range(self.ncpu)])
            return []
        if op == "tick":
            self.set_wall(self.wall + e["dt"])
            return []
        if op == "padv":
            self.ptk = list(e["ptk"])
            self.sync()
            return []
        if op == "times":
            return self.do_times(e)
        if op == "call":
            return self.do_call(e)
        if op == "pcall":
            return self.do_pcall(e)
        raise core.Machinery("unknown event %r" % (e,))

    def do_times(self, e):
        per = e["form"] == "per"
        try:
            got = self.ps.cpu_times(percpu=per)
        except Exception as ex:  # noqa: BLE001
            return [("cpu_times:exception", "cpu_times(percpu=%r) raised %r" % (per, ex))]
        rows = got if per else [got]
        exp = e["res"]
        bad = []
        if not isinstance(rows, list) or len(rows) != len(exp):
            return [("cpu_times:rows", "cpu_times(percpu=%r) -> %r, expected %d CPU rows" % (per, got, len(exp)))]
        for i, (r, x) in enumerate(zip(rows, exp)):
            c0 = i if per else None
            if tuple(getattr(r, "_fields", ())) != tuple(FIELDS[:self.nf]):
                bad.append(("cpu_times:fields", "cpu_times(percpu=%r) row %d has fields %r, the kernel shows %r"
                            % (per, i, getattr(r, "_fields", None), FIELDS[:self.nf])))
                continue
            for f in range(self.nf):
                if per:
                    ticks = base(i, f) + self.S * x[f]
                else:
                    ticks = sum(base(c, f) for c in range(self.ncpu)) + self.S * x[f]
                if not functional.close(r[f], ticks, self.clk):
                    bad.append(("cpu_times:value", "cpu_times(percpu=%r)[%s].%s -> %r, kernel counter %d ticks / CLK_TCK %d"
                                % (per, c0, FIELDS[f], r[f], ticks, self.clk)))
        self.tags.add("times:" + e["form"])
        return bad

    def do_call(self, e):
        ps = self.ps
        if self.nstep % 3 == 1:
            self.bystander()
        fn = ps.cpu_percent if e["fn"] == "cp" else ps.cpu_times_percent
        name = fn.__name__
        per = e["form"] == "per"
        mode = e["mode"]
        t = e["t"]
        tags = ["thread:" + ("main" if t == "main" else "other"), "mode:" + mode, "form:" + e["form"], "fn:" + e["fn"]]
        if mode == "neg":
            iv = [-1, -0.5, -1e-9][self.nstep % 3]
            st, val = self.run_on(t, lambda: fn(interval=iv, percpu=per))
            self.tags.update(tags)
            if st == "exc" and isinstance(val, ValueError):
                self.tags.add("res:ValueError")
                return []
            return [("%s:negative-interval" % name, "%s(interval=%r, percpu=%r) -> %r, expected ValueError"
                     % (name, iv, per, val))]
        notes = []
        if mode == "nb":
            iv = [None, 0.0, 0][self.nstep % 3]
            st, val = self.run_on(t, lambda: fn(interval=iv, percpu=per))
        else:
            iv = BLOCKWALL * self.unit()
            dm = e["dm"]
            moving = any(any(r) for r in dm)
            st, val, notes = self.sleeping_call(t, lambda: fn(interval=iv, percpu=per), BLOCKWALL,
                                                (lambda: self.advance(dm)) if moving else (lambda: None))
        call = "%s(interval=%r, percpu=%r) in thread %s" % (name, iv, per, t)
        if st == "exc":
            return [("%s:exception" % name, "%s raised %r" % (call, val))]
        if notes:
            raise Abandon("%s: %s" % (call, "; ".join(notes)))
        self.tags.update(tags)
        bad = []
        rows = val if per else [val]
        nrows = self.ncpu if per else 1
        if (per and not isinstance(val, list)) or len(rows) != nrows:
            return bad + [("%s:rows" % name, "%s -> %r, expected %d row(s)" % (call, val, nrows))]
        fresh = e.get("fresh", False)
        if fresh:
            self.tags.add("fresh")
        for i, r in enumerate(rows):
            bad += self.judge_row(e, i, r, call, fresh)
        return bad

    def judge_row(self, e, i, r, call, fresh):
        """Compare one CPU row with the statement / the specification's value."""
        name = "cpu_percent" if e["fn"] == "cp" else "cpu_times_percent"
        exp = e["res"][i]
        tot = exp["tot"]
        info = row_info(e, i)
        real = tot * self.S                      # ticks that really elapsed on this row
        cls = "tot=0" if tot == 0 else ("subsecond" if real < self.clk else "second+")
        self.tags.add("%s:%s" % (e["fn"], cls))
        for k in ("back", "guest"):
            if info.get(k):
                self.tags.add("%s:%s" % (e["fn"], k))
        where = "%s row %d (deltas class %s, total %d ticks at CLK_TCK %d)" % (call, i, cls, real, self.clk)
        if e["fn"] == "cp":
            vals, qs, names = [r], [exp["q"]], ["busy"]
        else:
            if tuple(getattr(r, "_fields", ())) != tuple(FIELDS[:self.nf]):
                return [("%s:fields" % name, "%s -> %r, expected fields %r" % (where, r, FIELDS[:self.nf]))]
            vals, qs, names = list(r), exp["q"], FIELDS[:self.nf]
        bad = []
        # --- what the statement says about any answer
        for v, n in zip(vals, names):
            if not tenths_ok(v):
                bad.append(("%s:not-one-decimal" % name, "%s: %s=%r is not a float rounded to one decimal" % (where, n, v)))
            elif not 0.0 <= v <= 100.0:
                bad.append(("%s:out-of-range" % name, "%s: %s=%r outside [0, 100]" % (where, n, v)))
        if bad:
            return bad
        if e["fn"] == "ctp":
            ng = vals[:min(self.nf, 8)]
            s = sum(Fraction(v) for v in ng)
            sum_ok = abs(s - 100) <= Fraction(len(ng), 20) + Fraction(1, 10 ** 6)
            zero = all(v == 0 for v in ng)
            must_sum = tot > 0 and not fresh
            if (must_sum and not sum_ok) or (not must_sum and not (sum_ok or zero)):
                sig = "%s:shares-sum" % name
                if self.subsecond_shape(vals, exp, tot):
                    sig = SIG_SUBSEC
                bad.append((sig, "%s: non-guest shares add up to %s instead of 100: %r" % (where, float(s), r)))
        if fresh:
            # no previous sample of this thread: the statement fixes no value
            return bad
        # --- the value the specification publishes
        wrong = []
        for v, q, n in zip(vals, qs, names):
            if q[1] == 0:
                continue                       # left open by the statement
            if abs(Fraction(v) - frac(q)) > TOL:
                wrong.append("%s=%r (exact %d/%d = %.4f)" % (n, v, q[0], q[1], q[0] / q[1]))
            else:
                x = frac(q)
                self.tags.add("res:" + ("0" if x == 0 else "100" if x == 100 else "between"))
        if wrong and not bad:
            sig = "%s:%s:%s:value" % (name, e["form"], e["mode"])
            if e["fn"] == "ctp" and self.subsecond_shape(vals, exp, tot):
                sig = SIG_SUBSEC
            bad.append((sig, "%s: %s" % (where, ", ".join(wrong))))
        return bad

    def subsecond_shape(self, vals, exp, tot):
        """the signed shape: fewer ticks than CLK_TCK elapsed and every share
        is 100 * delta_seconds instead of 100 * delta / total"""
        if not 0 < tot * self.S < self.clk or "d" not in exp:
            return False
        return all(abs(Fraction(v) - min(Fraction(100), Fraction(100 * d * self.S, self.clk))) <= TOL
                   for v, d in zip(vals, exp["d"]))

    def do_pcall(self, e):
        ps = self.ps
        o, mode = e["o"], e["mode"]
        try:
            p = self.objs.get(o)
            if p is None:
                p = self.objs[o] = ps.Process(PID)
        except Exception as ex:  # noqa: BLE001
            raise core.Machinery("Process(%d) failed: %r" % (PID, ex))
        notes = []
        if mode == "neg":
            iv = [-1, -0.25][self.nstep % 2]
            st, val = self.run_on("main", lambda: p.cpu_percent(interval=iv))
            self.tags.add("proc:neg")
            if st == "exc" and isinstance(val, ValueError):
                self.tags.add("proc:ValueError")
                return []
            return [("Process.cpu_percent:negative-interval",
                     "Process.cpu_percent(interval=%r) -> %r, expected ValueError" % (iv, val))]
        if mode == "nb":
            iv = [None, 0.0][self.nstep % 2]
            st, val = self.run_on("main", lambda: p.cpu_percent(interval=iv))
        else:
            iv = e["dt"] * self.unit()
            du, ds = e["du"], e["ds"]
            if self.nstep % 2:
                # the sleep returns late (a loaded machine): a quarter of the elapsed time was never asked
                # for -- the share is taken over the time that really went by
                self.w.oversleep = iv / 4
                iv = iv * 3 / 4

            def burn():
                self.ptk = [self.ptk[0] + du, self.ptk[1] + ds]
                self.sync()
            st, val, notes = self.sleeping_call("main", lambda: p.cpu_percent(interval=iv), e["dt"], burn)
        call = "Process.cpu_percent(interval=%r) on object %s" % (iv, o)
        if st == "exc":
            return [("Process.cpu_percent:exception", "%s raised %r" % (call, val))]
        if notes:
            raise Abandon("%s: %s" % (call, "; ".join(notes)))
        bad = []
        self.tags.add("proc:" + mode)
        q = e["res"]
        if not tenths_ok(val):
            return bad + [("Process.cpu_percent:not-one-decimal", "%s -> %r" % (call, val))]
        if q[1] == 0:
            self.tags.add("proc:no-time-elapsed")
            if val < 0:
                bad.append(("Process.cpu_percent:negative", "%s -> %r" % (call, val)))
            return bad
        if e.get("first"):
            self.tags.add("proc:first")
        x = frac(q)
        self.tags.add("proc:" + ("0" if x == 0 else ">100" if x > 100 else "between"))
        if abs(Fraction(val) - x) > TOL:
            sig = "Process.cpu_percent:%s:%s" % (mode, "first" if e.get("first") else "value")
            bad.append((sig, "%s -> %r, expected %d/%d = %.4f" % (call, val, q[0], q[1], q[0] / q[1])))
        return bad


def row_info(e, i):
    r = e["res"][i]
    if "back" in r:
        return r
    out = {}
    if "a" in e and "b" in e:
        out["back"] = any(y < x for x, y in zip(e["a"][i], e["b"][i]))
    if "d" in r:
        out["guest"] = any(v > 0 for v in r["d"][8:])
    return out


def run_events(job):
    """Forked from the template of job['key']: replay the events; every
    disagreement is collected (the model's state does not depend on answers)."""
    w, ps = template(tuple(job["key"]))
    ad = Adapter(w, ps, tuple(job["key"]), job.get("S", 1), job.get("SP", 1))
    bad = []
    abandoned = None
    n = 0
    for i, e in enumerate(job["events"]):
        try:
            for sig, text in ad.step(e):
                bad.append({"step": i, "sig": sig, "text": text})
        except Abandon as ex:
            abandoned = "step %d: %s" % (i, ex)
            break
        n += 1
    return {"steps": n, "bad": bad, "tags": sorted(ad.tags), "abandoned": abandoned}


def record(ctx, pools, name, jobs, kind, tags):
    res = pools.map(run_events, jobs)
    steps = nbad = 0
    for job, (st, val) in zip(jobs, res):
        if st != "ok":
            raise core.Machinery("replay worker failed (%s): %s" % (st, val))
        steps += val["steps"]
        tags.update(val["tags"])
        if val.get("abandoned"):
            ctx.cov["abandoned_replays"] = ctx.cov.get("abandoned_replays", 0) + 1
            if len(ctx.notes) < 5:
                ctx.notes.append("replay abandoned (nothing asserted beyond that point): " + val["abandoned"])
        for b in val["bad"]:
            nbad += 1
            ctx.disagree("conf:" + b["sig"],
                         "code and specification disagree at step %d of a %s behaviour "
                         "(ncpu=%d, %d fields, CLK_TCK=%d, counter scale %d): %s"
                         % ((b["step"], kind) + tuple(job["key"]) + (job.get("S", 1), b["text"])),
                         dict(job, events=job["events"][:b["step"] + 1]))
        for e in job["events"]:
            if e["op"] in ("call", "pcall", "times"):
                ctx.case(json.dumps([job["key"], job.get("S", 1), e], sort_keys=True))
    ctx.cov["replayed_transitions"] += steps
    ctx.cov["traces_validated_against_impl"] += len(jobs)
    ctx.cov.setdefault("replay", {})[name] = {"behaviours": len(jobs), "steps": steps, "disagreements": nbad}
    if jobs and name in ("dump-pairs", "dump-threads", "simulate-3threads", "replay-file"):
        j = jobs[len(jobs) // 2]
        ctx.sample({"kind": kind + " " + name, "import_time_cfg(ncpu,fields,CLK_TCK)": j["key"], "scale": j.get("S", 1),
                    "events": [{k: v for k, v in e.items() if k not in ("a", "b")} for e in j["events"][:4]]})


# ---------------------------------------------------------------------------
# (a) dumps + tours, (b) simulation
# ---------------------------------------------------------------------------
PROC = dict(Objs={"o1", "o2"}, Fns=set(), MaxAdv=0, MaxCalls=0)

DUMPS = [
    # every delta vector over {user, system, idle, iowait, guest} x {-1, 0, 1, 5}
    ("dump-pairs", lambda: consts(Threads={"main"}, Forms={"per"}, DeltaMode="full", MaxAdv=2, MaxCalls=2)),
    # two threads x two functions, kernel moving between and during the calls
    ("dump-threads", lambda: consts(Forms={"per"}, MaxAdv=2, MaxCalls=2)),
    ("dump-threads-tot", lambda: consts(Forms={"tot"}, Fns={"ctp"}, Patterns={"guest", "gonly", "big"},
                                        MaxAdv=2, MaxCalls=3)),
    # percpu / not, negative intervals, cpu_times; one thread
    ("dump-forms", lambda: consts(Threads={"main"}, Modes={"nb", "block", "neg", "times"},
                                  Patterns={"idle", "steal", "backall", "all"}, MaxAdv=2, MaxCalls=2)),
    # the other import-time configurations
    ("dump-layouts", lambda: consts(NCpuSet={1, 2}, NFSet={7, 8, 9}, Threads={"main"},
                                    Modes={"nb", "block", "times"}, Patterns={"mix", "guest", "steal"},
                                    MaxAdv=1, MaxCalls=2)),
    ("dump-clk1", lambda: consts(NFSet={8, 10}, ClkSet={1}, Forms={"per"}, Modes={"nb", "block", "times"},
                                 Patterns={"mix", "user", "back"}, MaxAdv=2, MaxCalls=1)),
    ("dump-process", lambda: consts(WallSteps={1, 64}, ProcSteps={0, 5}, MaxPCalls=3, MaxTicks=1, **PROC)),
]


def job_keys(tier):
    """import-time configuration -> number of template processes"""
    keys = {(2, 10, 100): 16, (3, 10, 100): 8, (1, 10, 100): 2, (2, 10, 1): 4, (2, 8, 1): 4}
    for n in (1, 2):
        for nf in (7, 8, 9):
            keys[(n, nf, 100)] = 2
    keys[(12, 10, 100)] = 1
    keys[(12, 8, 100)] = 1
    return keys


def dump(ctx, name, c):
    r = tlc.dump_cached("CpuPercent", c)
    ctx.tlc(name, r)
    return r


def warm(ctx):
    out = []
    for name, c in DUMPS:
        r = dump(ctx, name, c())
        for tier in ("quick", "thorough"):
            tour_of(ctx, name, r, per_class_of(tier, name, len(r.tr)))
        out.append((name, r))
    return out


def edge_class(g, ei):
    s, e, t = g.edges[ei]
    st = g.states[s]
    cfg = tuple(st[0:3])
    if e["op"] == "call" and e["mode"] != "neg":
        rows = tuple((("0" if r["tot"] == 0 else "sub" if r["tot"] < st[2] else "sec"), r["back"], r["guest"],
                      r["idle"] == r["tot"], r["idle"] == 0) for r in e["res"])
        # (with the clipped deltas: in the all-vectors dump every vector is its own class)
        return (cfg, "call", e["t"], e["fn"], e["form"], e["mode"], e["fresh"], rows,
                json.dumps([r["d"] for r in e["res"]]))
    if e["op"] == "pcall":
        q = e["res"]
        return (cfg, "pcall", e["o"], e["mode"], e.get("first"), (q[0] == 0, q[1] == 0, q[0] > 100 * q[1]))
    return (cfg, e["op"], e.get("t"), e.get("fn"), e.get("form"), e.get("mode"))


def tour_of(ctx, name, r, per_class):
    """Replay jobs covering the dump (all transitions, or per_class of every
    class); cached next to the dump: they depend on the dump and the seed only."""
    path = getattr(r, "cache_path", None)
    jp = path[:-len(".txt.gz")] + ".jobs-%s-%d.json" % (per_class, ctx.seed) if path else None
    if jp and os.path.exists(jp):
        return json.load(open(jp))
    g = graph.from_dump(r)
    rnd = random.Random("%s/%d" % (name, ctx.seed))
    jobs = []
    for init, events in replay_mod.tour_jobs(ctx, g, per_class=per_class, edge_class=edge_class, maxlen=40):
        key = tuple(g.states[init][0:3])
        S = 1 if not jobs or rnd.random() < 0.5 else rnd.choice(SCALES[1:])
        jobs.append({"key": list(key), "S": S, "events": events})
    if jp:
        tmp = jp + ".tmp%d" % os.getpid()
        json.dump(jobs, open(tmp, "w"))
        os.replace(tmp, jp)
    return jobs


def per_class_of(tier, name, n):
    """thorough: complete tours; quick: complete tours of the small dumps, of
    the large ones every class of transition (in dump-pairs every delta vector
    is a class of its own)"""
    if name == "dump-process":          # 58k transitions of a two-object arithmetic: classes only
        return 10 if tier == "thorough" else 3
    if tier == "thorough" or n <= 5000:
        return None
    return 1 if name == "dump-pairs" else 3


def replay_dump(ctx, pools, name, r, tags):
    jobs = tour_of(ctx, name, r, per_class_of(ctx.tier, name, len(r.tr)))
    record(ctx, pools, name, jobs, "replayed (transition tour)", tags)


def simulate(name, c, num, depth, seed, workers=4):
    """`tlc -simulate`: (TLC result, [(init_state, [ev...])]); runs in a helper thread"""
    d = tlc.scratch()
    cfg = os.path.join(d, name + ".cfg")
    tlc.write_cfg(cfg, c)
    r = tlc.run("CpuPercent", cfg, workers=workers, timeout=900,
                simulate="file=%s/b,num=%d" % (d, max(1, num // workers)), depth=depth, seed=seed)
    out = []
    for f in sorted(os.listdir(d)):
        if f.startswith("b_"):
            beh = tlc.parse_sim_file(os.path.join(d, f))
            if len(beh) >= 2:
                # (TLC breaks the line after `|->` in long records; tlc.parse_sim_file
                # then hands the text back unparsed)
                evs = [st["ev"] for _, st in beh[1:]]
                evs = [tlc.parse_value(" ".join(e.split())) if isinstance(e, str) else e for e in evs]
                out.append((beh[0][1], evs))
    shutil.rmtree(d, ignore_errors=True)
    return r, out


def replay_sim(ctx, pools, name, fut, tags, rnd):
    r, behs = fut.result()
    ctx.tlc(name, r)
    if not behs:
        raise core.Machinery("simulation %s produced no behaviours" % name)
    jobs = []
    for init, events in behs:
        key = (init["ncpu"], init["nf"], init["clk"])
        jobs.append({"key": list(key), "S": rnd.choice(SCALES), "events": events})
    record(ctx, pools, name, jobs, "simulated", tags)


def model_violation(ctx, pools, r, name):
    """The published values ARE the statement: a structural law that fails on
    them is a defect of the specification, not of psutil."""
    evs = tlc.trace_events(r.trace)
    raise core.Machinery("TLC (%s): %s does not hold for the values the specification itself demands\n%s"
                         % (name, r.violated, "\n".join("%s %s" % x for x in evs)))


# ---------------------------------------------------------------------------
# (c) seeded random driver, judged by TLC (CpuPercentTrace)
# ---------------------------------------------------------------------------
def rand_delta(rnd, cur, clk, big):
    """one field's delta: zero, a few ticks, sub-second, seconds, backwards"""
    k = rnd.random()
    if k < 0.35:
        return 0
    if k < 0.55:
        return rnd.randint(1, 5)
    if k < 0.70:
        return rnd.randint(1, max(1, min(big, clk - 1)))
    if k < 0.90:
        return rnd.randint(1, big)
    return -rnd.randint(0, min(cur, big))


def rand_matrix(rnd, ad, big):
    kind = rnd.random()
    dm = [[0] * ad.nf for _ in range(ad.ncpu)]
    cpus = range(ad.ncpu) if kind < 0.6 else [rnd.randrange(ad.ncpu)]
    for c in cpus:
        fields = range(ad.nf) if rnd.random() < 0.5 else rnd.sample(range(ad.nf), rnd.randint(1, 3))
        for f in fields:
            dm[c][f] = rand_delta(rnd, ad.cpu[c][f], ad.clk, big)
        if ad.nf >= 9 and rnd.random() < 0.5:      # what a kernel does: guest is part of user
            g = rnd.randint(0, max(0, dm[c][0]))
            dm[c][8] = g
    if not any(any(r) for r in dm):
        dm[rnd.randrange(ad.ncpu)][3] = rnd.randint(1, big)
    return dm


def t10(x, limit=10 ** 5):
    return int(round(x * 10)) if tenths_ok(x) and abs(x) < limit else -1


def rand_trace(job):
    """Forked from the template: one random run of the real code, logged."""
    key, seed = tuple(job["key"]), job["seed"]
    rnd = random.Random(seed)
    w, ps = template(key)
    S, big = rnd.choice([(1, 20000), (1, 300), (2 ** 10, 20000), (2 ** 31 + 6, 20000), (2 ** 53 + 2, 10)])
    SP = rnd.choice([1, 1, 2 ** 10])
    ad = Adapter(w, ps, key, S, SP)
    ncpu, nf, clk = key
    evs = []
    for step in range(job["n"]):
        k = rnd.random()
        ad.nstep += 1
        if k < 0.30:
            dm = rand_matrix(rnd, ad, big)
            ad.advance(dm)
            evs.append({"op": "adv", "cpu": [list(r) for r in ad.cpu]})
        elif k < 0.72:
            t = rnd.choice(["main", "main", "t2", "t3"])
            fnn = rnd.choice(["cp", "ctp"])
            form = rnd.choice(["per", "tot"])
            mode = rnd.choice(["nb", "nb", "nb", "block", "block", "neg"])
            fn = ps.cpu_percent if fnn == "cp" else ps.cpu_times_percent
            per = form == "per"
            e = {"op": "call", "t": t, "fn": fnn, "form": form, "mode": mode, "err": "", "x": []}
            if mode == "neg":
                st, val = ad.run_on(t, lambda: fn(interval=-rnd.choice([1, 0.5, 3]), percpu=per))
            elif mode == "nb":
                st, val = ad.run_on(t, lambda: fn(interval=rnd.choice([None, 0.0]), percpu=per))
            else:
                dm = rand_matrix(rnd, ad, big) if rnd.random() < 0.8 else None
                st, val, notes = ad.sleeping_call(
                    t, lambda: fn(interval=BLOCKWALL * ad.unit(), percpu=per), BLOCKWALL,
                    (lambda: ad.advance(dm)) if dm else (lambda: None))
                if notes:
                    break            # out of step with the model: the run ends here
            e["mid"] = [list(r) for r in ad.cpu]
            if st == "exc":
                e["err"] = type(val).__name__
            elif not e["err"]:
                rows = val if per else [val]
                ok = isinstance(rows, list) and len(rows) == (ncpu if per else 1)
                if ok and fnn == "ctp":
                    ok = all(tuple(getattr(r, "_fields", ())) == tuple(FIELDS[:nf]) for r in rows)
                if not ok:
                    e["err"] = "shape: %r" % (val,)
                elif fnn == "cp":
                    e["x"] = [t10(r) for r in rows]
                else:
                    e["x"] = [[t10(v) for v in r] for r in rows]
                e["raw"] = repr(val)
            evs.append(e)
        elif k < 0.77:
            form = rnd.choice(["per", "tot"])
            e = {"op": "times", "form": form, "err": "", "x": []}
            try:
                got = ps.cpu_times(percpu=form == "per")
                rows = got if form == "per" else [got]
                x = []
                for i, r in enumerate(rows):
                    row = []
                    for f in range(nf):
                        b = base(i, f) if form == "per" else sum(base(c, f) for c in range(ncpu))
                        v = round((Fraction(r[f]) * clk - b) / S)
                        row.append(v if 0 <= v < 2 ** 30 and functional.close(r[f], b + S * v, clk) else -1)
                    x.append(row)
                if any(tuple(r._fields) != tuple(FIELDS[:nf]) for r in rows):
                    e["err"] = "fields"
                e["x"] = x
            except Exception as ex:  # noqa: BLE001
                e["err"] = type(ex).__name__
            evs.append(e)
        elif k < 0.84:
            dt = rnd.choice([1, 2, 7, 64, 640, rnd.randint(1, 5000)])
            ad.set_wall(ad.wall + dt)
            evs.append({"op": "tick", "dt": dt})
        elif k < 0.90:
            du, ds = rnd.choice([0, 1, 3, 100, rnd.randint(0, 300)]), rnd.choice([0, 1, 50, rnd.randint(0, 200)])
            if du + ds == 0:
                du = 1
            ad.ptk = [ad.ptk[0] + du, ad.ptk[1] + ds]
            ad.sync()
            evs.append({"op": "padv", "du": du, "ds": ds})
        else:
            o = rnd.choice(["o1", "o2"])
            mode = rnd.choice(["nb", "nb", "block", "neg"])
            p = ad.objs.get(o)
            if p is None:
                p = ad.objs[o] = ps.Process(PID)
            e = {"op": "pcall", "o": o, "mode": mode, "err": "", "x": 0}
            if mode == "neg":
                st, val = ad.run_on("main", lambda: p.cpu_percent(interval=-2))
            elif mode == "nb":
                st, val = ad.run_on("main", lambda: p.cpu_percent(interval=rnd.choice([None, 0.0])))
            else:
                dt = rnd.choice([1, 6, 64, rnd.randint(1, 2000)])
                du, ds = rnd.choice([0, 1, 64, rnd.randint(0, 300)]), rnd.choice([0, 2, rnd.randint(0, 100)])

                def burn(du=du, ds=ds):
                    ad.ptk = [ad.ptk[0] + du, ad.ptk[1] + ds]
                    ad.sync()
                st, val, notes = ad.sleeping_call("main", lambda: p.cpu_percent(interval=dt * ad.unit()), dt, burn)
                e.update(dt=dt, du=du, ds=ds)
                if notes:
                    break
            if st == "exc":
                e["err"] = type(val).__name__
            elif not e["err"]:
                e["x"] = t10(val, 10 ** 8)
                e["raw"] = repr(val)
            evs.append(e)
    return {"cfg": list(key), "S": S, "SP": SP, "seed": seed, "ev": evs}


TRACE_CONSTS = dict(Threads={"main", "t2", "t3"}, Objs={"o1", "o2"}, MaxAdv=10 ** 6, MaxCalls=10 ** 6,
                    MaxPCalls=10 ** 6, MaxTicks=10 ** 6)


def trace_sig(line, l, why):
    """signature of a rejected answer (why = text or [text, row, tot, deltas])"""
    e = line["ev"][l - 1]
    fn = {"cp": "cpu_percent", "ctp": "cpu_times_percent"}.get(e.get("fn"), "Process.cpu_percent"
                                                               if e["op"] == "pcall" else "cpu_times")
    clk, S = line["cfg"][2], line["S"]
    if isinstance(why, list) and e.get("fn") == "ctp" and e["err"] == "":
        _, i, tot, d = why
        x = e["x"][i - 1]
        if 0 < tot * S < clk and all(abs(Fraction(xv, 10) - min(Fraction(100), Fraction(100 * dv * S, clk))) <= TOL
                                     for xv, dv in zip(x, d)):
            return SIG_SUBSEC
    text = why[0] if isinstance(why, list) else why
    return "%s:%s:%s:%s" % (fn, e.get("form", "obj"), e.get("mode", ""), text.split(" ")[0])


def trace_validate(ctx, pools, n_traces, length, tags, only=None):
    rnd = random.Random(ctx.seed + 77)
    keys = [(2, 10, 100)] * 5 + [(3, 10, 100)] * 2 + [(1, 10, 100), (2, 10, 1), (2, 7, 100), (2, 8, 100),
                                                    (2, 9, 100), (1, 9, 100), (2, 8, 1), (1, 7, 100),
                                                    (12, 10, 100), (12, 8, 100)]     # cpu10 sorts before cpu2 as text
    jobs = only or [{"key": list(rnd.choice(keys)), "seed": ctx.seed * 100003 + i, "n": length}
                    for i in range(n_traces)]
    res = pools.map(rand_trace, jobs)
    lines = []
    for j, (st, val) in zip(jobs, res):
        if st != "ok":
            raise core.Machinery("trace driver failed (%s): %s" % (st, val))
        lines.append(val)
    d = tlc.scratch()
    tf = os.path.join(d, "trace.ndjson")
    with open(tf, "w") as f:
        for ln in lines:
            slim = {"cfg": ln["cfg"], "ev": [{k: v for k, v in e.items() if k != "raw"} for e in ln["ev"]]}
            f.write(json.dumps(slim) + "\n")
    cfg = os.path.join(d, "t.cfg")
    tlc.write_cfg(cfg, consts(**TRACE_CONSTS), init="TInit", next_="TNext")
    r = tlc.run("CpuPercentTrace", cfg, workers=1, env={"TRACE_FILE": tf}, timeout=1500)
    ctx.tlc("trace-validation", r)
    shutil.rmtree(d, ignore_errors=True)
    nev = sum(len(ln["ev"]) for ln in lines)
    if r.violated or r.distinct != nev + len(lines):
        raise core.Machinery("trace validation consumed %d of %d logged events (%s)"
                             % (r.distinct - len(lines), nev, r.violated))
    seen = set()
    rejected = 0
    for kind, payload in r.printed:
        if kind != "REJECTED":
            continue
        tid, l, why = tlc.parse_value("<<" + payload + ">>")
        if (tid, l) in seen:
            continue
        seen.add((tid, l))
        rejected += 1
        line = lines[tid - 1]
        e = line["ev"][l - 1]
        ctx.disagree("trace:" + trace_sig(line, l, why),
                     "TLC rejects a recorded answer (%s): event %d of the run with seed %d (ncpu=%d, %d fields, "
                     "CLK_TCK=%d, counter scale %d): %s answered %s%s; kernel counters (model units) before the "
                     "event: see replay" % ((why if isinstance(why, str) else why[0], l, line["seed"]) + tuple(line["cfg"])
                                            + (line["S"], {k: e[k] for k in e if k in ("op", "t", "fn", "form", "mode", "o", "dt", "du", "ds")},
                                               e.get("raw", e.get("x")), (" [%s]" % e["err"]) if e.get("err") else "")),
                     {"trace": {"key": line["cfg"], "seed": line["seed"], "n": len(line["ev"])},
                      "events": line["ev"][:l]})
    for ln in lines:
        for e in ln["ev"]:
            if e["op"] in ("call", "pcall", "times"):
                ctx.case(json.dumps([ln["cfg"], ln["S"], ln["seed"], e.get("raw", e.get("x")), e["op"], e.get("mode")]))
                tags.add("trace:%s:%s" % (e["op"], e.get("mode", "")))
    ctx.cov["traces_validated_against_impl"] += len(lines)
    ctx.cov.setdefault("replay", {})["trace-validation"] = {"runs": len(lines), "events": nev, "rejected_answers": rejected}
    if lines:
        ctx.sample({"kind": "recorded run (first events)", "cfg": lines[0]["cfg"], "scale": lines[0]["S"],
                    "events": lines[0]["ev"][:5]})


# ---------------------------------------------------------------------------
REQUIRED_TAGS = [
    "fn:cp", "fn:ctp", "form:per", "form:tot", "mode:nb", "mode:block", "mode:neg", "thread:main", "thread:other",
    "fresh", "cp:tot=0", "cp:subsecond", "cp:second+", "ctp:tot=0", "ctp:subsecond", "ctp:second+",
    "cp:back", "ctp:back", "cp:guest", "ctp:guest", "res:0", "res:100", "res:between", "res:ValueError",
    "times:per", "times:tot", "proc:nb", "proc:block", "proc:neg", "proc:first", "proc:0", "proc:between",
    "proc:>100", "proc:ValueError", "proc:no-time-elapsed",
    "trace:call:nb", "trace:call:block", "trace:call:neg", "trace:pcall:nb", "trace:pcall:block", "trace:times:",
]


def replay(ctx, data):
    """./check C07 --replay f : re-run one stored case (a conformance behaviour
    or a seeded run of the random driver); True if it still disagrees."""
    rep = data["replay"]
    tags = set()
    pools = Pools({tuple(rep["trace"]["key"] if "trace" in rep else rep["key"]): 1})
    try:
        if "trace" in rep:
            trace_validate(ctx, pools, 1, rep["trace"]["n"], tags, only=[rep["trace"]])
        elif "events" in rep and "key" in rep:
            record(ctx, pools, "replay-file", [rep], "stored", tags)
        else:
            raise core.Machinery("nothing to replay")
    finally:
        pools.close()
    for sig, desc, _ in ctx.violations:
        print("  still disagrees [%s]: %s" % (sig, desc[:600]))
    for sig, n in ctx.known_hits.items():
        print("  still disagrees (signed finding) [%s] x%d" % (sig, n))
    return bool(ctx.violations or ctx.known_hits)


def check(ctx):
    pools = Pools(job_keys(ctx.tier))
    try:
        _check(ctx, pools)
    finally:
        pools.close()


def _check(ctx, pools):
    thorough = ctx.tier == "thorough"
    rnd = random.Random(ctx.seed)
    ctx.cov["rule"] = ("cases = public calls (cpu_times / cpu_percent / cpu_times_percent / Process.cpu_percent with their "
                       "thread, form, interval class, previous sample and kernel counters) replayed into or recorded from the "
                       "real code; distinct = distinct (import-time configuration, counter scale, call event) records")
    ctx.assumptions += [
        "the first non-blocking call of a thread that has no previous sample (any thread but the importing one) is left "
        "open by the statement: only range, one-decimal rounding and 'shares add up to 100 or are all zero' are checked, "
        "no kernel event is placed inside such a call; the importing thread's first call is measured against the "
        "import-time sample, as documented",
        "when no non-guest time elapsed (total 0) while a guest column advanced (user went backwards and was clipped) "
        "100*busy/total is undefined: cpu_percent and the guest shares of cpu_times_percent are left open there (range only); "
        "Process.cpu_percent with zero wall time elapsed since the previous call is left open (any value >= 0)",
        "values are compared with the exact rational q as |x - q| <= 0.05 + 1e-9 and 10x integral (never stricter than "
        "round-to-one-decimal); cpu_times() values with ticks/CLK_TCK up to 4 ulp",
        "kernel counters are base + S * model value with one scale S per behaviour, S up to 2^53+2 (every formula is "
        "positively homogeneous); per-CPU 'cpu' line = sum of the per-CPU lines, as the kernel prints it",
        "Process tick counters never decrease; the virtual clock advances in units of 1/64 s so that wall-clock "
        "differences are exact in binary floating point",
        "a blocking form is replayed as: sample, kernel event in the middle of the virtual sleep, sample",
    ]
    tags = set()
    import time
    phases = ctx.cov.setdefault("phase_wall_s", {})
    t0 = [time.time()]

    def phase(name):
        phases[name] = round(time.time() - t0[0], 1)
        t0[0] = time.time()

    # (1) exhaustive: the structural laws on every transition (TLC runs in the
    # background while the replays use the template processes)
    ex = [("exhaustive-" + name[5:], c()) for name, c in DUMPS]
    if thorough:
        ex += [("exhaustive-pairs-tot", consts(Threads={"main"}, Forms={"tot"}, DeltaMode="full", MaxAdv=2, MaxCalls=2)),
               ("exhaustive-pairs-2threads", consts(Forms={"per"}, Fns={"ctp"}, DeltaMode="full", MaxAdv=2, MaxCalls=1)),
               ("exhaustive-threads-deep", consts(Forms={"per"}, Fns={"ctp"}, Patterns={"mix", "back", "user", "guest"},
                                                  MaxAdv=3, MaxCalls=3)),
               ("exhaustive-3threads", consts(Threads={"main", "t2", "t3"}, Forms={"per"}, Fns={"cp"},
                                              Patterns={"mix", "back"}, MaxAdv=2, MaxCalls=2)),
               ("exhaustive-process-deep", consts(WallSteps={1, 64}, ProcSteps={0, 5}, MaxPCalls=4, MaxTicks=2, **PROC))]

    def exhaustive(item):
        name, c = item
        d = tlc.scratch()
        cfg = os.path.join(d, name + ".cfg")
        tlc.write_cfg(cfg, c, view="view", properties=PROPS, invariants=["TypeOK"])
        r = tlc.run("CpuPercent", cfg, workers=4, timeout=3000)
        shutil.rmtree(d, ignore_errors=True)
        return r
    pats = {"idle", "user", "mix", "guest", "back", "backall", "all", "steal", "big", "gonly"}
    sims = [
        ("simulate-3threads", consts(NCpuSet={3}, Threads={"main", "t2", "t3"}, Modes={"nb", "block", "neg", "times"},
                                     Patterns=pats if thorough else {"user", "mix", "guest", "back", "big"},
                                     BlockPats={"mix", "back"} if thorough else {"back"},
                                     MaxAdv=8, MaxCalls=4, Objs={"o1", "o2"}, WallSteps={1, 7, 64},
                                     ProcSteps={0, 1, 100} if thorough else {0, 100}, MaxPCalls=5, MaxTicks=4),
         1000 if thorough else 240, 30),
        ("simulate-layouts", consts(NCpuSet={1, 2}, NFSet={7, 8, 9, 10}, Modes={"nb", "block", "times"},
                                    Patterns={"user", "mix", "guest", "back", "steal", "big"}, BlockPats={"guest", "back"},
                                    MaxAdv=6, MaxCalls=4), 1000 if thorough else 240, 24),
        ("simulate-clk1", consts(NFSet={8, 10}, ClkSet={1}, Modes={"nb", "block", "times"},
                                 Patterns={"user", "mix", "guest", "back", "steal", "big"}, BlockPats={"mix", "back"},
                                 MaxAdv=6, MaxCalls=4), 400 if thorough else 80, 24),
    ]
    from concurrent.futures import ThreadPoolExecutor
    exe = ThreadPoolExecutor(max_workers=4)
    sims = [(name, c, n, dp, exe.submit(simulate, name, c, n, dp, ctx.seed)) for name, c, n, dp in sims]
    futs = [(name, c, exe.submit(exhaustive, (name, c))) for name, c in ex]

    # the SharesSum law is not vacuous: the transcription of psutil 7.0.0's
    # cpu_times_percent scale violates it
    c = consts(Threads={"main"}, Fns={"ctp"}, Forms={"per"}, Patterns={"mix"}, MaxAdv=1, MaxCalls=1, Algo="psutil700")
    cfg = os.path.join(tlc.scratch(), "probe.cfg")
    tlc.write_cfg(cfg, c, view="view", properties=["C07_SharesSum"])
    r = tlc.run("CpuPercent", cfg, workers=2, timeout=600)
    ctx.tlc("probe-psutil700-scale", r)
    shutil.rmtree(os.path.dirname(cfg), ignore_errors=True)
    if r.violated != "C07_SharesSum":
        core.vacuity("C07_SharesSum does not reject the max(1, seconds) scale of psutil 7.0.0")

    phase("probe")
    # (a) transition tours
    for name, c in DUMPS:
        r = dump(ctx, name, c())
        phase("load " + name)
        replay_dump(ctx, pools, name, r, tags)
        phase("tour " + name)

    # (b) simulation: 3 threads, 10 fields, 3 CPUs, deeper
    for name, c, n, dp, fut in sims:
        replay_sim(ctx, pools, name, fut, tags, rnd)
    phase("simulation")

    # (c) random driver judged by TLC
    trace_validate(ctx, pools, 6000 if thorough else 800, 24, tags)
    phase("trace validation")

    for name, c, fut in futs:
        r = fut.result()
        ctx.tlc(name, r, bounds_of(c))
        if r.violated:
            model_violation(ctx, pools, r, name)
    exe.shutdown()
    phase("waiting for exhaustive runs")

    missing = [t for t in REQUIRED_TAGS if t not in tags]
    if missing:
        core.vacuity("input/result classes never exercised: %s" % missing)
    ctx.cov["classes_exercised"] = sorted(tags)


def main(prop, argv):
    core.main_wrapper(check, prop, argv)

"""C18 -- nice / ionice / cpu_affinity / rlimit (spec/Settings.tla, spec/SettingsTrace.tla).

Settings.tla is a finite-domain state machine over the kernel's per-process
settings.  TLC (1) checks the statement-level action properties on every
transition of every family, (2) checks that psutil's validation algorithm
followed by the kernel's rules only ever produces an outcome the statement
allows (and that the 7.0.0 way of finding the eligible CPUs does not), (3)
dumps the transition graphs, which are replayed edge by edge into the real
public API on TWO targets -- the unmodified psutil over simkernel, and the
real psutil (separate interpreter, working-tree build, ASan/UBSan when
VERIF_ASAN=1) acting on two live children of the check, with the kernel read
back through os.getpriority / raw ioprio_get / os.sched_getaffinity /
resource.prlimit + /proc/<pid>/limits after every call --, (4) produces
random mixed behaviours (tlc -simulate) replayed the same way, and (5) judges
histories recorded from a seeded random driver with larger inputs
(SettingsTrace.tla)."""
import json
import os
import random
import shutil
import sys
import threading
import time

from harness import core, forkpool, graph, replay, tlc
from harness import live_c18, sim_c18
from harness.tmpl import template

FIXES = set()          # the specification is the statement; no repaired algorithm is assumed
NOARG = 99
INFM = 1000000         # Settings!Inf
NCPU = 4
NOFILE = 7
NRES = 16
# RLIMIT_CPU: the kernel stores a soft limit of 0 as 1 second and acts on small values (SIGXCPU /
# SIGKILL to the live child): symbolic limits are offset so that neither happens
BASE = {0: 100000}
SIM_PIDS = [4101, 4102, 4103]
IOCLS = ["IOPRIO_CLASS_NONE", "IOPRIO_CLASS_RT", "IOPRIO_CLASS_BE", "IOPRIO_CLASS_IDLE"]
PROPS = ["C18_SetThenGet", "C18_ValidSucceeds", "C18_GetReadsKernel", "C18_OthersUnchanged",
         "C18_InvalidChangesNothing", "C18_ClassesDisjoint"]
SCALES = [1, 1000, 2 ** 31 + 6, 2 ** 53 + 2, (2 ** 62) // 8]


def consts(active, **kw):
    c = {"NP": 2, "Wide": {1}, "Active": set(active), "NCPU": NCPU,
         "EligSets": "@{{0, 1, 2, 3}}", "DeniedSets": "@{{}}", "SysRes": "@{TRUE}",
         "Flavors": {"stored"}, "Resources": {1}, "Capped": "@{}", "CapVal": 1, "FiniteInit": "@{}",
         "RVals": {0, 1, 2}, "OpenArgs": True, "Follow": "statement", "Algorithm": "statement"}
    c.update(kw)
    return c


ELIG4 = "@{{0, 1, 2, 3}, {0, 1, 3}, {0, 2, 3}, {2}}"
DUMPS = [
    ("nice", lambda: consts(["nice"], DeniedSets="@{{}, {1}, {1, 2}}")),
    ("ionice", lambda: consts(["ionice"], DeniedSets="@{{}, {1}, {1, 2}}", Flavors={"stored", "derived"})),
    ("affinity", lambda: consts(["affinity"], EligSets=ELIG4, DeniedSets="@{{}, {1, 2}}")),
    ("rlimit-inf", lambda: consts(["rlimit"], SysRes="@{TRUE, FALSE}", DeniedSets="@{{}, {1, 2}}")),
    ("rlimit-fin", lambda: consts(["rlimit"], SysRes="@{TRUE, FALSE}", FiniteInit="@{1}")),
    ("rlimit-cap", lambda: consts(["rlimit"], SysRes="@{TRUE, FALSE}", Resources={1, 2}, Capped="@{2}")),
]
ELIG6 = ELIG4[:-1] + ", {0, 2}, {1, 2, 3}}"
# thorough tier only: both processes range over every CPU list, six cpusets
DUMPS_THOROUGH = [
    ("affinity-wide", lambda: consts(["affinity"], Wide={1, 2}, EligSets=ELIG6, DeniedSets="@{{}, {2}}")),
]


def exhaustive(thorough):
    wide = {1, 2} if thorough else {1}
    return [
        ("nice", consts(["nice"], Wide=wide, DeniedSets="@{{}, {1}, {1, 2}}")),
        ("ionice", consts(["ionice"], Wide=wide, DeniedSets="@{{}, {1}}", Flavors={"stored", "derived"})),
        ("affinity", consts(["affinity"], Wide=wide, EligSets=ELIG6 if thorough else ELIG4, DeniedSets="@{{}, {2}}")),
        ("rlimit", consts(["rlimit"], Wide=wide, SysRes="@{TRUE, FALSE}", Resources={1, 2}, Capped="@{2}",
                          FiniteInit="@{1}", DeniedSets="@{{}, {1}}", RVals={0, 1, 2, 3} if thorough else {0, 1, 2})),
    ]


# ---------------------------------------------------------------------------
# model <-> real
# ---------------------------------------------------------------------------

class Mapper:
    def __init__(self, pids, blocks, nonexist, resmap, units, cap, ncpu_model=NCPU):
        self.pids = pids              # slot (model process - 1) -> pid
        self.blocks = blocks          # model CPU -> sorted real CPUs
        self.nonexist = nonexist      # (first nonexistent CPU, a CPU beyond cpu_set_t)
        self.resmap = resmap          # model resource (1-based) -> RLIMIT number
        self.units = units            # RLIMIT number -> multiplier
        self.cap = cap                # None | (RLIMIT number, CapVal, nr_open)
        self.ncpu_model = ncpu_model

    def cpu_list(self, seq):
        out = []
        for c in seq:
            if c < self.ncpu_model:
                out.extend(self.blocks[c])
            elif c == self.ncpu_model:
                out.append(self.nonexist[0])
            else:
                out.append(self.nonexist[1])
        return out

    def cpu_set(self, seq):
        return frozenset(self.cpu_list(seq))

    def lim(self, rr, v):
        if v == INFM:
            return -1
        if self.cap and rr == self.cap[0]:
            _, capval, nro = self.cap
            return v * (nro // capval) if v <= capval else nro + (v - capval) * 3
        if self.units[rr] == "top":
            # the largest finite limits: model value 2 is 2^63-1 (sys.maxsize), 1 and 0 lie just below
            return 2 ** 63 - 1 - 1000 * (2 - v) if v <= 2 else 2 ** 63 - 1
        return BASE.get(rr, 0) + v * self.units[rr]

    def kexp(self, post, base_rl):
        rl = []
        for i in range(len(self.pids)):
            row = list(base_rl[i])
            for j, pair in enumerate(post["rl"][i]):
                rr = self.resmap[j + 1]
                row[rr] = (self.lim(rr, pair[0]), self.lim(rr, pair[1]))
            rl.append(tuple(row))
        return {"nice": list(post["nice"]), "io": [tuple(x) for x in post["io"]],
                "ior": [tuple(x) for x in post["io"]],
                "aff": [self.cpu_set(a) for a in post["aff"]], "rl": rl}

    def with_value(self, k, fam, slot, rr, nv):
        """Copy of kernel state *k* with the model value *nv* for one setting."""
        c = {"nice": list(k["nice"]), "io": list(k["io"]), "ior": list(k["ior"]),
             "aff": list(k["aff"]), "rl": list(k["rl"])}
        if fam == "nice":
            c["nice"][slot] = nv
        elif fam == "ionice":
            c["io"][slot] = tuple(nv)
        elif fam == "affinity":
            c["aff"][slot] = self.cpu_set(nv)
        else:
            row = list(c["rl"][slot])
            row[rr] = (self.lim(rr, nv[0]), self.lim(rr, nv[1]))
            c["rl"][slot] = tuple(row)
        return c


def derive_ior(k, flavor):
    """Fill k['ior'] (what ioprio_get reports) from stored class/data and nice."""
    out = []
    for io, n in zip(k["io"], k["nice"]):
        if io[0] == 0 and flavor == "derived":
            out.append((2, (n + 20) // 5))
        elif io[0] == 0 and flavor not in ("stored", "derived"):
            out.append(None)          # unknown kernel flavour: whatever the syscall reports
        else:
            out.append(tuple(io))
    k["ior"] = out
    return k


def kdiff(k, exp, stored=True):
    """Differences between observed and expected kernel state (texts)."""
    out = []
    for s in range(len(exp["nice"])):
        if k["nice"][s] != exp["nice"][s]:
            out.append(("nice", s, "nice of process %d is %r, expected %r" % (s + 1, k["nice"][s], exp["nice"][s])))
        if exp["ior"][s] is not None and tuple(k["ior"][s]) != tuple(exp["ior"][s]):
            out.append(("ionice", s, "I/O priority of process %d reads (class, data) = %r, expected %r"
                        % (s + 1, tuple(k["ior"][s]), tuple(exp["ior"][s]))))
        elif stored and tuple(k["io"][s]) != tuple(exp["io"][s]):
            out.append(("ionice", s, "stored I/O priority of process %d is %r, expected %r"
                        % (s + 1, tuple(k["io"][s]), tuple(exp["io"][s]))))
        if k["aff"][s] != exp["aff"][s]:
            out.append(("affinity", s, "affinity of process %d is %r, expected %r"
                        % (s + 1, sorted(k["aff"][s]), sorted(exp["aff"][s]))))
        if k["rl"][s] != exp["rl"][s]:
            for r in range(NRES):
                if tuple(k["rl"][s][r]) != tuple(exp["rl"][s][r]):
                    out.append(("rlimit", s, "limits of resource %d of process %d are %r, expected %r"
                                % (r, s + 1, tuple(k["rl"][s][r]), tuple(exp["rl"][s][r]))))
    return out


def match(allowed, cls):
    if allowed == "error":
        return cls != "ok"
    return allowed == cls


def argclass(e, elig):
    """Input class of a request (for signatures and vacuity)."""
    fam, kind = e["op"].rsplit("_", 1)
    if kind == "get":
        return "get"
    a = e["arg"]
    if fam == "nice":
        return "valid" if -20 <= a <= 19 else "out-of-range"
    if fam == "ionice":
        c, l = a
        if c == NOARG:
            return "level-without-class"
        if l == NOARG:
            return "class-only:" + ("idle-or-none" if c in (0, 3) else "rt-or-be")
        if not 0 <= l <= 7:
            return "level-outside-0-7"
        if c in (0, 3):
            return "level-for-idle-or-none" if l else "level-0-for-idle-or-none"
        return "class+level"
    if fam == "affinity":
        if not a:
            return "empty-list"
        s = set(a)
        e_ = set(elig)
        ncpu = e.get("ncpu", NCPU)
        if s <= e_:
            return "subset-with-duplicates" if len(a) != len(s) else "subset"
        if s & e_:
            return "mixed"
        if all(c >= ncpu for c in s):
            return "only-nonexistent"
        if all(c < ncpu for c in s):
            return "only-ineligible"
        return "nonexistent+ineligible"
    if len(a) != 2:
        return "non-pair:len%d" % len(a)
    if a[0] > a[1]:
        return "soft>hard"
    return "pair-with-infinity" if INFM in a else "pair"


def as_700(mask_texts, elig_real, observed):
    """Is *observed* what psutil 7.0.0's way of finding "all eligible CPUs" yields for one of the
    masks the process had (the signed finding): the first 'a-b' of a Cpus_allowed_list that STARTS
    with a range, narrowed by the kernel to the cpuset?  A list that does not start with a range
    makes 7.0.0 ask for every CPU, which is right."""
    import re as _re
    for t in mask_texts:
        m = _re.match(r"(\d+)-(\d+)", t)
        if m and (set(range(int(m.group(1)), int(m.group(2)) + 1)) & set(elig_real)) == set(observed):
            return True
    return False


def rangey(cpus):
    """shape of a mask as Cpus_allowed_list prints it"""
    txt = sim_c18.rangelist(cpus)
    first = txt.split(",")[0]
    if "," not in txt:
        return "range" if "-" in txt else "single"
    return "range+more" if "-" in first else "single+more"


# ---------------------------------------------------------------------------
# targets
# ---------------------------------------------------------------------------

def _cls_of(ps, ex):
    if isinstance(ex, ps.AccessDenied) or isinstance(ex, PermissionError):
        return "denied"
    if isinstance(ex, ValueError):
        return "ValueError"
    if isinstance(ex, ps.Error):
        return type(ex).__name__
    if isinstance(ex, OSError):
        return "OSError(%s)" % ex.errno
    return type(ex).__name__


class SimTarget:
    name = "sim"
    stored = True

    def __init__(self):
        self.w, self.ps = template()
        self.flavor = "stored"

    def plan(self, boot, meta, rnd):
        self.oneshot = bool(meta.get("oneshot"))
        n = len(boot["elig"])
        pids = SIM_PIDS[:n]
        rnd.shuffle(pids)
        if meta.get("wide_cpus"):
            # model CPU i -> a block of simulated CPUs
            sizes = [rnd.randint(1, 3) for _ in range(NCPU)]
            order = list(range(sum(sizes)))
            if rnd.random() < 0.5:
                rnd.shuffle(order)
            blocks, k = [], 0
            for s in sizes:
                blocks.append(sorted(order[k:k + s]))
                k += s
            ncpus = sum(sizes)
        else:
            blocks, ncpus = [[i] for i in range(NCPU)], NCPU
        resmap = dict((int(k), v) for k, v in meta.get("resmap", {1: 0, 2: NOFILE}).items())
        units = {r: rnd.choice(SCALES + ["top"]) for r in range(NRES)}      # (simulated target only)
        cap = None
        if meta.get("capped"):
            cap = (resmap[2], meta["capval"], sim_c18.NR_OPEN)
        mp = Mapper(pids, blocks, (ncpus, 5000), resmap, units, cap)
        mp.ncpus_real = ncpus
        return mp

    def boot(self, boot, mp):
        w, ps = self.w, self.ps
        for pid in list(w.procs):
            if pid != w.caller_pid:
                del w.procs[pid]
        w.ncpus = mp.ncpus_real
        self.flavor = boot["flavor"]
        sim_c18.install(w, ps, flavor=boot["flavor"], sysres=boot["sysres"])
        self.pids = mp.pids
        base = [tuple((-1, -1) for _ in range(NRES)) for _ in mp.pids]
        k0 = mp.kexp(boot["post"], base)
        for s, pid in enumerate(mp.pids):
            p = sim_c18.spawn(w, pid, mp.cpu_set(boot["elig"][s]), denied=(s + 1) in boot["denied"])
            for r in range(NRES):
                if k0["rl"][s][r] != (-1, -1):
                    p.rlimits[r] = k0["rl"][s][r]
        self.objs = [ps.Process(pid) for pid in mp.pids]
        self._leave_oneshot()
        if getattr(self, "oneshot", False):
            # the whole behaviour runs inside one oneshot() block per object: a get
            # after a set must still be what the kernel reports now
            import contextlib
            self._stack = contextlib.ExitStack()
            for p in self.objs:
                self._stack.enter_context(p.oneshot())
                p.name()      # the shared per-process records are read (and memoised) before any set
                p.uids()
        w.set_log[:] = []
        return self.kstate()

    def _leave_oneshot(self):
        st, self._stack = getattr(self, "_stack", None), None
        if st is not None:
            st.close()

    def calls(self, calls):
        ps = self.ps
        out = []
        for op, slot, args, hint in calls:
            p = self.objs[slot]
            try:
                if op == "nice":
                    v = p.nice(*args)
                elif op == "ionice":
                    a = list(args)
                    if hint and a and a[0] is not None:
                        a[0] = getattr(ps, IOCLS[a[0]])
                    v = p.ionice(*a)
                    if v is not None:
                        v = (int(v.ioclass), v.value)
                elif op == "cpu_affinity":
                    v = p.cpu_affinity(*[list(x) for x in args])
                else:
                    a = list(args)
                    if len(a) > 1:
                        a[1] = tuple(a[1]) if hint else list(a[1])
                    if a and isinstance(a[0], int) and 0 <= a[0] < len(live_c18.RLIMIT_ABI):
                        a[0] = getattr(ps, "RLIMIT_" + live_c18.RLIMIT_ABI[a[0]], a[0])    # as a caller names it
                    v = p.rlimit(*a)
                out.append(("ok", v))
            except Exception as ex:  # noqa: BLE001
                out.append((_cls_of(ps, ex), "%s: %s" % (type(ex).__name__, ex)))
        return out

    def kstate(self, deep=False):
        return sim_c18.kstate(self.w, self.pids)

    def force(self, exp, resmap):
        for s, pid in enumerate(self.pids):
            p = self.w.procs[pid]
            p.nice = exp["nice"][s]
            p.ioprio = tuple(exp["io"][s])
            p.affinity = set(exp["aff"][s])
            for r in range(NRES):
                if exp["rl"][s][r] != (-1, -1) or r in p.rlimits:
                    p.rlimits[r] = tuple(exp["rl"][s][r])

    def setlog(self):
        log = list(self.w.set_log)
        self.w.set_log[:] = []
        return log

    def end(self):
        self._leave_oneshot()

    def close(self):
        self._leave_oneshot()


class LiveTarget:
    name = "live"
    stored = False

    def __init__(self):
        self.workers = {}
        self.kids = []
        self.cpusets = live_c18.Cpusets()
        self.cpusets.probe()
        self.allowed = sorted(os.sched_getaffinity(0))
        self.sysres = live_c18.has_cap_sys_resource()
        self.nr_open = live_c18.nr_open()
        self.flavor = self._detect_flavor()
        self.ncpu = None

    def _detect_flavor(self):
        return detect_flavor()

    def worker(self, unpriv):
        wk = self.workers.get(unpriv)
        if wk is None:
            wk = self.workers[unpriv] = live_c18.Worker(unprivileged=unpriv)
            self.ncpu = wk.info["ncpu"]
        return wk

    def facts(self):
        return {"cpus": len(self.allowed), "cpusets_with_holes": self.cpusets.ok,
                "cap_sys_resource": self.sysres, "ioprio_none_reads_as": self.flavor,
                "nr_open": self.nr_open, "asan": os.environ.get("VERIF_ASAN") == "1"}

    def plan(self, boot, meta, rnd):
        n = len(boot["elig"])
        den = sorted(boot["denied"])
        if den and den != list(range(1, n + 1)):
            return "only all-or-nothing permission can be arranged on the live kernel"
        active = meta.get("active", [])
        if "rlimit" in active and boot["sysres"] != self.sysres:
            return "CAP_SYS_RESOURCE differs from the host's"
        if "ionice" in active and boot["flavor"] != self.flavor:
            return "kernel flavour differs from the host's"
        if len(self.allowed) < NCPU:
            return "fewer than %d CPUs" % NCPU
        full = all(sorted(e) == list(range(NCPU)) for e in boot["elig"])
        if not full and not self.cpusets.ok:
            return "cpusets with holes cannot be arranged on this host"
        # model CPU i -> block of real CPUs; the blocks cover all allowed CPUs
        cpus = list(self.allowed)
        if rnd.random() < 0.5:
            rnd.shuffle(cpus)
        cuts = sorted(rnd.sample(range(1, len(cpus)), NCPU - 1))
        blocks = [sorted(cpus[a:b]) for a, b in zip([0] + cuts, cuts + [len(cpus)])]
        self.worker(bool(den))
        resmap = dict((int(k), v) for k, v in meta.get("resmap", {1: 0, 2: NOFILE}).items())
        units = {r: rnd.choice(SCALES) for r in range(NRES)}
        cap = None
        if "rlimit" in active:
            mine = live_c18.kstate([os.getpid()])["rl"][0]
            hi = meta.get("hi", 2)
            for j, rr in resmap.items():
                hard = mine[rr][1]
                if meta.get("capped") and j == 2:
                    if self.sysres:
                        cap = (rr, meta["capval"], self.nr_open)
                    elif hard != -1 and hard < hi:
                        return "inherited hard limit too small"
                    elif hard != -1:
                        units[rr] = hard // hi
                    continue
                if self.sysres or hard == -1:
                    continue
                if j in meta.get("finite", []):
                    if hard < hi:
                        return "inherited hard limit of resource %d is %d" % (rr, hard)
                    units[rr] = hard // hi
                else:
                    return "resource %d cannot be unlimited without CAP_SYS_RESOURCE" % rr
        mp = Mapper([None] * n, blocks, (max(self.ncpu, self.allowed[-1] + 1), 5000), resmap, units, cap)
        mp.unpriv = bool(den)
        return mp

    def boot(self, boot, mp):
        self.end()
        self.wk = self.worker(mp.unpriv)
        self.kids = [live_c18.Child() for _ in mp.pids]
        mp.pids[:] = [k.pid for k in self.kids]
        self.pids = mp.pids
        for s, pid in enumerate(mp.pids):
            e = mp.cpu_set(boot["elig"][s])
            if e != frozenset(self.allowed):
                self.cpusets.place(pid, e, "s%d" % s)
        mine = live_c18.kstate(mp.pids)
        k0 = derive_ior(mp.kexp(boot["post"], mine["rl"]), self.flavor)
        self.force(k0, mp.resmap, initial=True)
        self.keys = []
        for s, pid in enumerate(mp.pids):
            key = "%d" % pid
            rep = self.wk.req({"c": "new", "k": key, "pid": pid})
            if rep.get("r") != "ok":
                raise core.Machinery("live: psutil.Process(%d) failed: %r" % (pid, rep))
            self.keys.append(key)
        return self.kstate()

    def calls(self, calls):
        req = []
        for op, slot, args, hint in calls:
            c = {"k": self.keys[slot], "op": op, "a": args}
            if op == "ionice":
                c["enum"] = bool(hint)
            if op == "rlimit":
                c["tuple"] = bool(hint)
            req.append(c)
        out = []
        for op_, rep in zip(calls, self.wk.calls(req)):
            r = rep["r"]
            if r == "ok":
                v = rep["v"]
                if isinstance(v, list):
                    v = tuple(v) if op_[0] in ("ionice", "rlimit") else v
                out.append(("ok", v))
            else:
                cls = {"AccessDenied": "denied", "PermissionError": "denied", "ValueError": "ValueError"}.get(r)
                if cls is None:
                    cls = "OSError(%s)" % rep.get("errno") if r == "OSError" else r
                out.append((cls, "%s: %s" % (r, rep.get("m"))))
        return out

    def kstate(self, deep=False):
        return live_c18.kstate(self.pids, with_limits_file=deep)

    def force(self, exp, resmap, initial=False):
        import resource
        cur = live_c18.kstate(self.pids)
        for s, pid in enumerate(self.pids):
            if cur["nice"][s] != exp["nice"][s]:
                os.setpriority(os.PRIO_PROCESS, pid, exp["nice"][s])
            if tuple(cur["io"][s]) != tuple(exp["io"][s]):
                live_c18.raw_ioprio_set(pid, *exp["io"][s])
            if cur["aff"][s] != exp["aff"][s]:
                os.sched_setaffinity(pid, exp["aff"][s])
            for r in range(NRES):
                if tuple(cur["rl"][s][r]) != tuple(exp["rl"][s][r]):
                    resource.prlimit(pid, r, tuple(exp["rl"][s][r]))

    def setlog(self):
        return None

    def end(self):
        dead = [k.pid for k in self.kids if not k.alive()]
        self._end()
        if dead:
            raise core.Machinery("live target: child %s died during a behaviour" % dead)

    def _end(self):
        if getattr(self, "keys", None):
            try:
                self.wk.req({"c": "drop", "ks": self.keys})
            except live_c18.SanitizerReport:
                pass
            self.keys = []
        for k in self.kids:
            k.kill()
        self.kids = []

    def close(self):
        """Kill children, remove cgroups, stop the interpreters (raises
        SanitizerReport if one of them complained)."""
        err = None
        try:
            self._end()
        finally:
            self.cpusets.close()
            for wk in self.workers.values():
                try:
                    wk.close()
                except live_c18.SanitizerReport as ex:
                    err = ex
            self.workers = {}
        if err is not None:
            raise err


# ---------------------------------------------------------------------------
# executor: one behaviour (boot + calls) against one target
# ---------------------------------------------------------------------------

def _call_of(e, fam, kind, slot, mp, rnd, rr):
    if kind == "get":
        return {"nice": ("nice", slot, [], 0), "ionice": ("ionice", slot, [], 0),
                "affinity": ("cpu_affinity", slot, [], 0), "rlimit": ("rlimit", slot, [rr], 0)}[fam]
    a = e["arg"]
    hint = rnd.getrandbits(1)
    if fam == "nice":
        return ("nice", slot, [a], 0)
    if fam == "ionice":
        c = None if a[0] == NOARG else a[0]
        l = None if a[1] == NOARG else a[1]
        return ("ionice", slot, [c] if (l is None and c is not None and hint) else [c, l], rnd.getrandbits(1))
    if fam == "affinity":
        return ("cpu_affinity", slot, [mp.cpu_list(a)], 0)
    return ("rlimit", slot, [rr, [mp.lim(rr, x) for x in a]], hint)


def _kval(k, fam, s, rr):
    return {"nice": lambda: k["nice"][s], "ionice": lambda: tuple(k["ior"][s]),
            "affinity": lambda: k["aff"][s], "rlimit": lambda: tuple(k["rl"][s][rr])}[fam]()


def _same(fam, got, kv):
    if fam == "affinity":
        return isinstance(got, (list, tuple)) and frozenset(got) == kv and len(got) == len(kv)
    if fam in ("ionice", "rlimit"):
        return isinstance(got, (list, tuple)) and tuple(got) == tuple(kv)
    return got == kv


def run_behaviour(target, meta, events):
    """Returns {'steps', 'tags'} | {'skipped'} | {..., 'step', 'mismatch', 'sig', 'event'}."""
    rnd = random.Random(meta.get("seed", 0))
    boot = events[0]
    if boot.get("op") != "boot":
        raise core.Machinery("behaviour does not start with the boot event: %r" % (boot,))
    mp = target.plan(boot, meta, rnd)
    if isinstance(mp, str):
        return {"skipped": mp, "steps": 0, "tags": {}}
    k0 = target.boot(boot, mp)
    base_rl = k0["rl"]
    flavor = target.flavor
    exp = derive_ior(mp.kexp(boot["post"], base_rl), flavor)
    d = kdiff(k0, exp, target.stored)
    if d:
        raise core.Machinery("%s: could not establish the initial state: %s" % (target.name, d[0][2]))
    tags = {}
    n = len(mp.pids)

    bad = []

    def fail(i, e, symptom, text):
        ac = argclass(e, boot["elig"][e["p"] - 1])
        if ac == "empty-list" and e.get("_as700"):
            ac += "/first-range-of-a-current-mask"
        return {"step": i, "event": _strip(e),
                "sig": "%s:%s:%s" % (e["op"], ac, symptom),
                "mismatch": "[%s target] %s  (request %s, class '%s', eligible CPUs %s, mask before %s, real arguments %s)"
                            % (target.name, text, json.dumps({k: e[k] for k in ("op", "p", "r", "arg") if k in e}),
                               ac, boot["elig"][e["p"] - 1], e.get("_masktxt"), e.get("_real"))}

    for i, e in enumerate(events[1:], 1):
        if len(bad) >= 6:
            return {"steps": i - 1, "tags": tags, "mismatches": bad}
        m = _step(target, mp, boot, base_rl, flavor, rnd, tags, fail, exp, i, e, n)
        exp = m[1]
        if m[0] is not None:
            bad.append(m[0])
            # continue from the model's successor state
            try:
                target.force(exp, mp.resmap)
            except OSError:
                return {"steps": i, "tags": tags, "mismatches": bad}
            if kdiff(target.kstate(), exp, target.stored):
                return {"steps": i, "tags": tags, "mismatches": bad}
            target.setlog()
    return {"steps": len(events) - 1, "tags": tags, "mismatches": bad}


def _step(target, mp, boot, base_rl, flavor, rnd, tags, fail, exp, i, e, n):
    """One call of a behaviour.  Returns (mismatch | None, expected kernel state after)."""
    fam, kind = e["op"].rsplit("_", 1)
    slot = e["p"] - 1
    rr = mp.resmap.get(e.get("r") or 1, 0)
    ac = argclass(e, boot["elig"][slot])
    tag = "%s:%s:%s" % (e["op"], ac, e["res"])
    tags[tag] = tags.get(tag, 0) + 1
    if fam == "affinity" and kind == "set":
        t2 = "affinity-mask-shape:" + rangey(exp["aff"][slot]) + (":empty-list" if ac == "empty-list" else "")
        e["_masktxt"] = sim_c18.rangelist(exp["aff"][slot])
        mp.__dict__.setdefault("maskhist", {}).setdefault(slot, []).append(e["_masktxt"])
        tags[t2] = tags.get(t2, 0) + 1
        if sorted(boot["elig"][slot]) != list(range(NCPU)):
            tags["cpuset-with-holes-or-partial"] = tags.get("cpuset-with-holes-or-partial", 0) + 1
    call = _call_of(e, fam, kind, slot, mp, rnd, rr)
    e["_real"] = json.dumps(call[2])[:200]
    raised = lambda c: ("raised-" + c.split("(")[0]) if c != "ok" else "did-not-raise"  # noqa: E731
    if kind == "get":
        (cls, val), = target.calls([call])
        k = target.kstate()
        d = kdiff(k, exp, target.stored)
        if d:
            m = fail(i, e, "kernel-state", "the get form changed kernel state: " + "; ".join(x[2] for x in d[:3]))
            return (m, exp)
        if not match(e["res"], cls):
            m = fail(i, e, raised(cls), "get returned class %s (%r), the specification predicts %s"
                     % (cls, val, e["res"]))
            return (m, exp)
        if cls == "ok" and not _same(fam, val, _kval(k, fam, slot, rr)):
            m = fail(i, e, "get-vs-kernel", "get returned %r but the kernel reports %r"
                     % (val, _kval(k, fam, slot, rr)))
            return (m, exp)
        return (None, exp)
    # ---- set: the call, then the get form for every process, then the kernel
    gets = [_call_of(e, fam, "get", s, mp, rnd, rr) for s in range(n)]
    res = target.calls([call] + gets)
    k = target.kstate(deep=(fam == "rlimit"))
    log = target.setlog()
    cls, val = res[0]
    nexp = derive_ior(mp.kexp(e["post"], base_rl), flavor)
    if e["open"]:
        took = None
        for alt in e["alts"]:
            if not match(alt["res"], cls):
                continue
            cand = derive_ior(mp.with_value(exp, fam, slot, rr, alt["nv"]), flavor)
            if not kdiff(k, cand, target.stored):
                took = cand
                break
        if took is None:
            d = kdiff(k, exp, target.stored)
            m = fail(i, e, raised(cls) if cls != "ok" else "kernel-state",
                     "open request ended with class %s (%s) and kernel changes [%s]; allowed outcomes: %s"
                     % (cls, val, "; ".join(x[2] for x in d[:3]), json.dumps(e["alts"])))
            return (m, nexp)
    else:
        if not match(e["res"], cls):
            m = fail(i, e, raised(cls), "the call ended with class %s (%s), the specification predicts %s"
                     % (cls, val, e["res"]))
            return (m, nexp)
        d = kdiff(k, nexp, target.stored)
        if d:
            if ac == "empty-list":
                # (inside one oneshot() block the status record is the one first read there: any mask
                # the process had during this behaviour may be the one 7.0.0 looked at)
                e["_as700"] = as_700(mp.__dict__.get("maskhist", {}).get(slot, []), mp.cpu_set(boot["elig"][slot]), k["aff"][slot])
            others = [x for x in d if x[1] != slot or x[0] != fam]
            m = fail(i, e, "others-changed" if others else "kernel-state",
                     "after the call (class %s): %s" % (cls, "; ".join(x[2] for x in d[:3])))
            return (m, nexp)
        took = nexp
    # the get form agrees with the kernel for every process
    for s, (gcls, gval) in enumerate(res[1:]):
        if fam == "rlimit" and (s + 1) in boot["denied"]:
            if gcls != "denied":
                m = fail(i, e, "get-after-set", "rlimit get on a process the caller may not inspect "
                         "returned %s (%r)" % (gcls, gval))
                return (m, nexp)
            continue
        if gcls != "ok":
            return (fail(i, e, "get-after-set", "the get form for process %d raised %s" % (s + 1, gval)), nexp)
        if not _same(fam, gval, _kval(k, fam, s, rr)):
            m = fail(i, e, "get-vs-kernel", "after the set the get form for process %d returns %r but the "
                     "kernel reports %r" % (s + 1, gval, _kval(k, fam, s, rr)))
            return (m, nexp)
    # simulated kernel: which set syscalls were accepted
    if log is not None:
        for entry in log:
            if cls != "ok" or entry[0] != fam or entry[1] != mp.pids[slot]:
                m = fail(i, e, "stray-kernel-set", "the kernel accepted %r during a call that ended with "
                         "class %s on process %d" % (entry, cls, mp.pids[slot]))
                return (m, nexp)
    if kdiff(took, nexp, target.stored):
        target.force(nexp, mp.resmap)        # an allowed alternative was taken: follow the model's edge
        k2 = target.kstate()
        if kdiff(k2, nexp, target.stored):
            raise core.Machinery("%s: could not re-synchronise after an open request" % target.name)
    return (None, nexp)


def _brief_ev(e):
    keep = {k: e[k] for k in ("op", "p", "r", "arg", "res", "open", "elig", "denied", "sysres", "flavor", "val") if k in e}
    if "post" in e:
        keep["post"] = {k: v for k, v in e["post"].items() if k != "io"}
    return keep


def _strip(e):
    return {k: v for k, v in e.items() if not k.startswith("_")}


def live_batch(batch):
    """Forked: one LiveTarget (one psutil interpreter per privilege level) for a
    list of behaviours."""
    out = []
    t = None
    try:
        t = LiveTarget()
        facts = t.facts()
        for meta, events in batch:
            try:
                out.append(run_behaviour(t, meta, events))
            except live_c18.LimitsFileMismatch as ex:
                raise core.Machinery("independent channels disagree: %s" % ex)
            finally:
                t.end()
    except live_c18.SanitizerReport as ex:
        out.append({"steps": 0, "tags": {}, "sig": "live:abnormal-exit-or-sanitizer",
                    "mismatch": str(ex), "batch": len(out)})
        facts = t.facts() if t else {}
    finally:
        if t is not None:
            try:
                t.close()
            except live_c18.SanitizerReport as ex:
                out.append({"steps": 0, "tags": {}, "sig": "live:abnormal-exit-or-sanitizer",
                            "mismatch": str(ex), "batch": len(out)})
    return {"results": out, "facts": facts}


# ---------------------------------------------------------------------------
# recording results
# ---------------------------------------------------------------------------

def _sig_fn(e):
    return e.get("op", "?")


class Stats:
    def __init__(self):
        self.tags = {"sim": {}, "live": {}}
        self.steps = {"sim": 0, "live": 0}
        self.skipped = {}
        self.deferred = []       # disagreements found by a background thread, reported by the main one
        self.sigs = {}

    def seen(self, sig, target):
        d = self.sigs.setdefault(sig, {})
        d[target] = d.get(target, 0) + 1

    def add(self, target, res):
        for k, v in res.get("tags", {}).items():
            self.tags[target][k] = self.tags[target].get(k, 0) + v
        self.steps[target] += res.get("steps", 0)
        if "skipped" in res:
            self.skipped[res["skipped"]] = self.skipped.get(res["skipped"], 0) + 1


def record(ctx, stats, name, target, jobs, results, kind):
    steps = 0
    for (meta, events), res in zip(jobs, results):
        stats.add(target, res)
        steps += res.get("steps", 0)
        for mm in res.get("mismatches", ()):
            stats.seen("conf:" + mm["sig"], target)
            evs = [_strip(e) for e in events[:mm["step"] + 1]]
            ctx.disagree("conf:" + mm["sig"],
                         "code and specification disagree at step %d of a %s behaviour: %s"
                         % (mm["step"], kind, mm["mismatch"]),
                         {"target": target, "meta": meta, "events": evs})
        if "skipped" in res:
            continue
        rm = str(meta.get("resmap"))
        for e in events[1:res.get("steps", 0) + 1]:
            ctx.case((target, rm, e["op"], e["p"], e.get("r"), str(e.get("arg")), e["res"], str(e["post"])))
    ctx.cov["replayed_transitions"] += steps
    ctx.cov["traces_validated_against_impl"] += len(jobs)
    ent = ctx.cov.setdefault("replay", {}).setdefault("%s@%s" % (name, target),
                                                      {"behaviours": 0, "steps": 0, "not_runnable_here": 0})
    ent["behaviours"] += len(jobs)
    ent["steps"] += steps
    ent["not_runnable_here"] += sum(1 for r in results if "skipped" in r)
    return steps


def sim_batch(jobs):
    """Forked: several behaviours on the simulated-kernel target."""
    t = SimTarget()
    return [run_behaviour(t, meta, events) for meta, events in jobs]


def dispatch(item):
    """Forked: one work item of the big map (see _check)."""
    kind, payload = item
    if kind == "sim":
        return sim_batch(payload)
    if kind == "live":
        return live_batch(payload)
    if kind == "rsim":
        return rand_sim(payload)
    if kind == "rlive":
        return rand_live(payload)
    raise core.Machinery("unknown work item %r" % (kind,))


def take_sim(ctx, stats, name, kind, jobs, results):
    record(ctx, stats, name, "sim", jobs, results, kind)


def take_live(ctx, stats, name, kind, jobs, val):
    ctx.cov["live_host"] = val["facts"] or ctx.cov.get("live_host")
    results = val["results"]
    extra = [r for r in results if r.get("sig", "").startswith("live:")]
    results = [r for r in results if not r.get("sig", "").startswith("live:")]
    for r in extra:
        ctx.disagree("conf:" + r["sig"], "live target: " + r["mismatch"], {"target": "live", "batch": r.get("batch")})
    while len(results) < len(jobs):
        results.append({"skipped": "interpreter died earlier in this batch", "steps": 0, "tags": {}})
    record(ctx, stats, name, "live", jobs, results, kind)


def run_items(items, timeout):
    """items: list of (kind, payload).  One map over the fork pool; heavy
    (live) items first so that they spread over the lieutenants."""
    order = sorted(range(len(items)), key=lambda i: (0 if items[i][0] in ("live", "rlive") else 1, i))
    res = forkpool.map_fork(dispatch, [items[i] for i in order], timeout=timeout)
    out = [None] * len(items)
    for i, (st, val) in zip(order, res):
        if st != "ok":
            raise core.Machinery("%s worker failed (%s): %s" % (items[i][0], st, val))
        out[i] = val
    return out


def run_sim(ctx, stats, name, jobs, kind):
    res = run_items([("sim", jobs[i:i + 24]) for i in range(0, len(jobs), 24)], 600)
    take_sim(ctx, stats, name, kind, jobs, [r for chunk in res for r in chunk])


def run_live(ctx, stats, name, jobs, kind, nbatch=16):
    if not jobs:
        return
    batches = [b for b in (jobs[i::nbatch] for i in range(nbatch)) if b]
    for b, val in zip(batches, run_items([("live", b) for b in batches], 1500)):
        take_live(ctx, stats, name, kind, b, val)


def edge_class(g, ei):
    s, e, t = g.edges[ei]
    if e["op"] == "boot":
        return ("boot", json.dumps(e["elig"]), json.dumps(e["denied"]), e["sysres"], e["flavor"])
    st = g.states[s]
    elig = [i for i, b in sorted((int(k), v) for k, v in st[1][e["p"] - 1].items()) if b] \
        if isinstance(st[1][e["p"] - 1], dict) else [i for i, b in enumerate(st[1][e["p"] - 1]) if b]
    ac = argclass(e, elig)
    shape = ""
    if e["op"].startswith("affinity"):
        a = st[7][e["p"] - 1]
        cur = [i for i, b in (sorted((int(k), v) for k, v in a.items()) if isinstance(a, dict) else enumerate(a)) if b]
        shape = rangey(cur) + "/" + json.dumps(elig)
    return (e["op"], e["p"], ac, e["res"], e.get("open"), shape, st[2][e["p"] - 1], st[3])


def meta_for(name, k, seed, rnd):
    m = {"dump": name, "seed": seed * 100003 + k, "active": [name.split("-")[0]]}
    name = "affinity" if name == "affinity-wide" else name
    if name.startswith("rlimit"):
        m["hi"] = 2
        others = [r for r in range(NRES) if r != NOFILE]
        if name == "rlimit-cap":
            m.update(capped=True, capval=1, resmap={1: others[k % len(others)], 2: NOFILE})
        else:
            m["resmap"] = {1: others[k % len(others)]}
            if name == "rlimit-fin":
                m["finite"] = [1]
    if name == "affinity":
        m["wide_cpus"] = bool(k % 2)
    m["oneshot"] = k % 3 == 2        # simulated target only
    return m


def _tour_path(name, c, seed, per_class, maxlen):
    import hashlib
    h = hashlib.sha256()
    for f in ("Settings.tla",):
        h.update(open(os.path.join(tlc.SPEC, f), "rb").read())
    h.update(repr((name, sorted(c.items(), key=str), seed, per_class, maxlen)).encode())
    import inspect
    h.update(inspect.getsource(meta_for).encode())      # the metadata are part of the cached jobs
    return os.path.join(core.VERIF, ".cache", "dumps", "SettingsTour-%s-%s.pkl" % (name, h.hexdigest()[:20]))


def dump_jobs(ctx, name, c, per_class, maxlen=60):
    """Behaviours (boot + calls) covering every transition of the dumped graph
    of Settings under constants *c* (or per_class transitions of every class
    when the graph is large); cached: they depend on the specification and the
    seed only.  Returns (#transitions, #states, jobs)."""
    import pickle
    tp = _tour_path(name, c, ctx.seed, per_class, maxlen)
    if os.path.exists(tp):
        with open(tp, "rb") as f:
            return pickle.load(f)
    r = tlc.dump_cached("Settings", c)
    ctx.tlc("dump-" + name, r)
    g = graph.Graph(r.tr)         # (no graph pickle: the tour itself is what is cached)
    big = len(g.edges) > 40000
    segs = replay.tour_jobs(ctx, g, per_class=per_class if big else None,
                            edge_class=edge_class if (per_class and big) else None, maxlen=maxlen)
    rnd = random.Random(ctx.seed)
    jobs = []
    for k, (s0, events) in enumerate(segs):
        jobs.append((meta_for(name, k, ctx.seed, rnd), [dict(e) for e in events]))
    out = (len(g.edges), len(g.states), jobs)
    os.makedirs(os.path.dirname(tp), exist_ok=True)
    tmp = tp + ".tmp%d" % os.getpid()
    with open(tmp, "wb") as f:
        pickle.dump(out, f, protocol=pickle.HIGHEST_PROTOCOL)
    os.replace(tmp, tp)
    return out


_HOST = {}


def detect_flavor():
    """How this kernel's ioprio_get reports a task left in class NONE."""
    kid = live_c18.Child()
    try:
        live_c18.raw_ioprio_set(kid.pid, 0, 0)
        os.setpriority(os.PRIO_PROCESS, kid.pid, 0)
        a = live_c18.raw_ioprio_get(kid.pid)
        os.setpriority(os.PRIO_PROCESS, kid.pid, 10)
        b = live_c18.raw_ioprio_get(kid.pid)
        if a == (0, 0) and b == (0, 0):
            return "stored"
        if a == (2, 4) and b == (2, 6):
            return "derived"
        return "other:%r/%r" % (a, b)
    finally:
        kid.kill()


def live_subset(jobs, name, rnd, limit):
    """Behaviours worth sending to the live kernel: boots it can arrange, with
    the model's resource bound to RLIMIT numbers this host lets us steer."""
    import resource
    sysres = live_c18.has_cap_sys_resource()
    if "flavor" not in _HOST:
        _HOST["flavor"] = detect_flavor()
    hard = [resource.getrlimit(r)[1] for r in range(NRES)]
    unlimited = [r for r in range(NRES) if r != NOFILE and (sysres or hard[r] == -1)]
    finite = [r for r in range(NRES) if r != NOFILE and (sysres or hard[r] == -1 or hard[r] >= 2)]
    ok = []
    for meta, events in jobs:
        b = events[0]
        den = sorted(b["denied"])
        if den and den != list(range(1, len(b["elig"]) + 1)):
            continue
        if "rlimit" in meta["active"] and b["sysres"] != sysres:
            continue
        if "ionice" in meta["active"] and b["flavor"] != _HOST["flavor"]:
            continue
        ok.append((meta, events))
    if limit is not None and len(ok) > limit:
        # stratified by boot (permission, cpusets, capability, flavour): every kind of boot is kept
        groups = {}
        for j in ok:
            b = j[1][0]
            groups.setdefault(json.dumps([b["denied"], b["elig"], b["sysres"], b["flavor"]]), []).append(j)
        for v in groups.values():
            rnd.shuffle(v)
        ok = []
        while len(ok) < limit and any(groups.values()):
            for key in sorted(groups):
                if groups[key] and len(ok) < limit:
                    ok.append(groups[key].pop())
    out = []
    for k, (m, ev) in enumerate(ok):
        m = dict(m)
        if "rlimit" in m["active"]:
            pool = finite if m.get("finite") else unlimited
            if not pool:
                continue
            m["resmap"] = dict(m["resmap"])
            m["resmap"][1] = pool[k % len(pool)]
        out.append((m, [dict(e) for e in ev]))
    return out


def warm(ctx, thorough=True):
    """Pre-compute the dumps and the tours built from them (seed 0)."""
    for name, c in DUMPS + (DUMPS_THOROUGH if thorough else []):
        for pc in ((None,) if name.endswith("-wide") else (None, 4)):
            dump_jobs(ctx, name, c(), pc)


# ---------------------------------------------------------------------------
# mode 1: exhaustive checks, impl refinement, regression probe
# ---------------------------------------------------------------------------

def _tlc_parallel(tasks):
    """tasks: list of (name, module, write_cfg kwargs, run kwargs) -> {name: result}"""
    out = {}

    def one(t):
        name, consts_, wkw, rkw = t
        d = tlc.scratch()
        cfg = os.path.join(d, name + ".cfg")
        tlc.write_cfg(cfg, consts_, **wkw)
        out[name] = tlc.run("Settings", cfg, **rkw)
        shutil.rmtree(d, ignore_errors=True)
    ths = [threading.Thread(target=one, args=(t,)) for t in tasks]
    for t in ths:
        t.start()
    for t in ths:
        t.join()
    return out


def trace_evs(out):
    """ev records of a TLC counterexample (action labels of this module carry
    tuple arguments, which harness.tlc.parse_trace does not expect)."""
    import re
    evs = []
    for chunk in re.split(r"\nState \d+: <", out)[1:]:
        body = re.split(r"\n\n|\n\d+ states generated", chunk)[0]
        m = re.search(r"/\\ ev = (.*?)(?=\n/\\ |\Z)", body, re.S)
        if m:
            evs.append(tlc.parse_value(" ".join(m.group(1).split())))
    return evs


def model_checks(ctx):
    tasks = []
    ex = exhaustive(ctx.tier == "thorough")
    for name, c in ex:
        tasks.append(("exhaustive-" + name, c, dict(view="view", properties=PROPS, invariants=["TypeOK"]),
                      dict(workers=2, coverage=True, timeout=1500)))
        ci = dict(c)
        ci["Follow"] = "impl"
        tasks.append(("impl-refines-" + name, ci, dict(view="view", properties=["C18_ImplAllowed"], invariants=["TypeOK"]),
                      dict(workers=2, timeout=1500)))
    cp = dict(ex[2][1])
    cp.update(Follow="impl", Algorithm="psutil700")
    tasks.append(("regression-psutil700-eligible", cp, dict(view="view", properties=["C18_ImplAllowed"]),
                  dict(workers=1, timeout=600)))
    res = _tlc_parallel(tasks)
    for name, c_, wkw, rkw in tasks:
        r = res[name]
        ctx.tlc(name, r, {k: (sorted(v, key=str) if isinstance(v, (set, frozenset)) else v) for k, v in c_.items()})
        if name.startswith("regression"):
            continue
        if r.violated:
            evs = trace_evs(r.out)
            ctx.disagree("model:%s:%s" % (name, r.violated),
                         "TLC: %s is violated in %s:\n%s" % (r.violated, name, "\n".join(json.dumps(x) for x in evs)),
                         {"trace": evs})
        if name.startswith("exhaustive"):
            fam = name.split("-")[1]
            want = {"nice": "SetNice", "ionice": "SetIo", "affinity": "SetAff", "rlimit": "SetRlim"}[fam]
            if not r.violated and not r.coverage.get(want, (0, 0))[1]:
                core.vacuity("action %s never taken in %s" % (want, name))
    rp = res["regression-psutil700-eligible"]
    if rp.violated != "C18_ImplAllowed":
        raise core.Machinery("the specification no longer exposes psutil 7.0.0's _get_eligible_cpus "
                             "(first range of the current mask) as a violation of the statement: %s"
                             % (rp.violated or rp.error or "no violation"))
    evs = trace_evs(rp.out)[1:]
    ctx.cov["regression_probe"] = {"violated": rp.violated, "steps": len(evs),
                                   "last": {k: evs[-1].get(k) for k in ("op", "p", "arg", "res")} if evs else None}
    return evs


# ---------------------------------------------------------------------------
# mode 3: random mixed behaviours from tlc -simulate
# ---------------------------------------------------------------------------

def mixed_jobs(ctx, num, depth):
    """tlc -simulate: random behaviours over all four families on both processes."""
    c = consts(["nice", "ionice", "affinity", "rlimit"], Wide={1, 2}, EligSets=ELIG4,
               DeniedSets="@{{}, {1}, {1, 2}}", SysRes="@{TRUE, FALSE}", Flavors={"stored", "derived"},
               Resources={1, 2}, Capped="@{2}", FiniteInit="@{}")
    behs = replay.sim_behaviours(ctx, "Settings", "simulate-mixed", c, num, depth)
    jobs = []
    others = [r for r in range(NRES) if r != NOFILE]
    for k, (init, events) in enumerate(behs):
        # multi-line records: tlc.parse_sim_file leaves them as text
        events = [tlc.parse_value(" ".join(e.split())) if isinstance(e, str) else e for e in events]
        meta = {"dump": "mixed", "seed": ctx.seed * 7919 + k, "active": ["nice", "ionice", "affinity", "rlimit"],
                "capped": True, "capval": 1, "hi": 2, "resmap": {1: others[k % len(others)], 2: NOFILE},
                "wide_cpus": bool(k % 2)}
        jobs.append((meta, events))
    return jobs


# ---------------------------------------------------------------------------
# mode 4: seeded random driver, judged by TLC (SettingsTrace)
# ---------------------------------------------------------------------------

CAPV = 4          # symbolic fs.nr_open in recorded histories
HIV = 7           # largest finite symbolic limit


class Recorder:
    """Random calls against a booted target; logs model-level events."""

    def __init__(self, target, rnd, np_, ncpu, elig, denied, sysres, unit, capped):
        self.t, self.rnd, self.np, self.ncpu = target, rnd, np_, ncpu
        self.elig, self.denied, self.sysres, self.unit, self.capped = elig, denied, sysres, unit, capped

    def sym(self, r, x):
        if x == -1:
            return INFM
        u = self.unit[r]
        if self.capped and r == NOFILE:
            nro = self.capped
            if x <= nro:
                return x // (nro // CAPV) if x % (nro // CAPV) == 0 else -7
            return CAPV + (x - nro) // 3 if (x - nro) % 3 == 0 else -7
        x -= BASE.get(r, 0)
        return x // u if x >= 0 and x % u == 0 else -7

    def real(self, r, v):
        if v == INFM:
            return -1
        if self.capped and r == NOFILE:
            nro = self.capped
            return v * (nro // CAPV) if v <= CAPV else nro + (v - CAPV) * 3
        return BASE.get(r, 0) + v * self.unit[r]

    def report(self, k):
        return {"nice": list(k["nice"]), "ior": [list(x) for x in k["ior"]], "io": [list(x) for x in k["io"]],
                "aff": [sorted(a) for a in k["aff"]],
                "rl": [[[self.sym(r, x) for x in k["rl"][s][r]] for r in range(NRES)] for s in range(self.np)]}

    def step(self):
        rnd, t = self.rnd, self.t
        p = rnd.randrange(self.np)
        fam = rnd.choice(["nice", "ionice", "affinity", "rlimit"])
        r = rnd.randrange(NRES)
        ev = {"p": p + 1, "r": r + 1}
        if rnd.random() < 0.2:
            ev["op"] = fam + "_get"
            call = {"nice": ("nice", p, [], 0), "ionice": ("ionice", p, [], 0),
                    "affinity": ("cpu_affinity", p, [], 0), "rlimit": ("rlimit", p, [r], 0)}[fam]
        else:
            ev["op"] = fam + "_set"
            if fam == "nice":
                v = rnd.choice([rnd.randint(-20, 19), rnd.randint(-25, 25), -20, 19, 20, -21])
                ev["arg"] = v
                call = ("nice", p, [v], 0)
            elif fam == "ionice":
                c = rnd.choice([NOARG, 0, 1, 2, 3, 1, 2])
                l = rnd.choice([NOARG, NOARG, -3, -1, 0, 1, 4, 7, 8, 10, rnd.randint(0, 7)])
                if c == NOARG and l == NOARG:
                    l = 0
                ev["arg"] = [c, l]
                cc, ll = (None if c == NOARG else c), (None if l == NOARG else l)
                call = ("ionice", p, [cc] if (ll is None and cc is not None and rnd.random() < 0.5) else [cc, ll],
                        rnd.getrandbits(1))
            elif fam == "affinity":
                kind = rnd.random()
                el = sorted(self.elig[p])
                allc = list(range(self.ncpu))
                inel = [c for c in allc if c not in self.elig[p]]
                if kind < 0.12:
                    cpus = []
                elif kind < 0.55:
                    cpus = rnd.sample(el, rnd.randint(1, len(el)))
                    if rnd.random() < 0.3:
                        cpus = cpus + cpus[:rnd.randint(1, len(cpus))]
                elif kind < 0.7 and inel:
                    cpus = rnd.sample(inel, rnd.randint(1, min(3, len(inel))))
                elif kind < 0.85:
                    cpus = [rnd.choice([self.ncpu, self.ncpu + 1, self.ncpu + 7, 1023, 1024, 5000])
                            for _ in range(rnd.randint(1, 2))]
                    if rnd.random() < 0.4 and inel:
                        cpus.append(rnd.choice(inel))
                else:
                    cpus = rnd.sample(el, rnd.randint(1, len(el))) + \
                        [rnd.choice(inel + [self.ncpu, 5000])]
                    rnd.shuffle(cpus)
                ev["arg"] = list(cpus)
                call = ("cpu_affinity", p, [list(cpus)], 0)
            else:
                kind = rnd.random()
                vals = list(range(HIV + 1)) + [INFM, INFM]
                if kind < 0.15:
                    lim = [rnd.choice(vals) for _ in range(rnd.choice([0, 1, 3, 4]))]
                else:
                    lim = [rnd.choice(vals), rnd.choice(vals)]
                    if kind < 0.75 and lim[0] > lim[1]:
                        lim.reverse()
                ev["arg"] = list(lim)
                call = ("rlimit", p, [r, [self.real(r, x) for x in lim]], rnd.getrandbits(1))
        (cls, val), = t.calls([call])
        k = t.kstate()
        ev["res"] = cls if cls in ("ok", "ValueError", "denied") else "error"
        ev["raised"] = cls
        if ev["op"].endswith("_get") and cls == "ok":
            if fam == "affinity":
                ev["val"] = sorted(set(val)) if len(set(val)) == len(val) else list(val)
            elif fam == "ionice":
                ev["val"] = list(val)
            elif fam == "rlimit":
                ev["val"] = [self.sym(r, x) for x in val]
            else:
                ev["val"] = val
        else:
            ev["val"] = 0
        if "arg" not in ev:
            ev["arg"] = 0
        ev["k"] = self.report(k)
        return ev


def rand_sim(job):
    seed, ntr, nsteps = job
    rnd = random.Random(seed)
    t = SimTarget()
    w, ps = t.w, t.ps
    out = []
    for _ in range(ntr):
        np_ = 3
        ncpu = rnd.choice([2, 3, 4, 6, 8, 12, 16, 24])
        for pid in list(w.procs):
            if pid != w.caller_pid:
                del w.procs[pid]
        w.ncpus = ncpu
        flavor = rnd.choice(["stored", "derived"])
        sysres = rnd.random() < 0.5
        sim_c18.install(w, ps, flavor=flavor, sysres=sysres)
        t.flavor = flavor
        denied = [s + 1 for s in range(np_) if rnd.random() < 0.15]
        elig, pids = [], SIM_PIDS[:np_]
        unit = {r: rnd.choice(SCALES) for r in range(NRES)}
        for s, pid in enumerate(pids):
            e = set(rnd.sample(range(ncpu), rnd.randint(1, ncpu))) if rnd.random() < 0.8 else set(range(ncpu))
            elig.append(e)
            p = sim_c18.spawn(w, pid, e, denied=(s + 1) in denied)
            p.nice = rnd.randint(-20, 19)
            p.ioprio = rnd.choice([(0, 0), (1, rnd.randint(0, 7)), (2, rnd.randint(0, 7)), (3, 0), (3, rnd.randint(1, 7))])
            p.affinity = set(rnd.sample(sorted(e), rnd.randint(1, len(e))))
        rec = Recorder(t, rnd, np_, ncpu, elig, denied, sysres, unit, sim_c18.NR_OPEN)
        for s, pid in enumerate(pids):
            for r in range(NRES):
                if rnd.random() < 0.5:
                    a, b = sorted([rnd.randint(0, CAPV if r == NOFILE else HIV) for _ in range(2)])
                    if rnd.random() < 0.3 and r != NOFILE:
                        b = INFM
                    w.procs[pid].rlimits[r] = (rec.real(r, a), rec.real(r, b))
                elif r == NOFILE:
                    w.procs[pid].rlimits[r] = (rec.real(r, 1), rec.real(r, CAPV))
        t.pids = pids
        t.objs = [ps.Process(pid) for pid in pids]
        k0 = t.kstate()
        tr = {"np": np_, "ncpu": ncpu, "elig": [sorted(e) for e in elig], "denied": denied, "sysres": sysres,
              "flavor": flavor, "target": "sim",
              "k0": {"nice": k0["nice"], "io": [list(x) for x in k0["io"]], "aff": [sorted(a) for a in k0["aff"]],
                     "rl": rec.report(k0)["rl"]},
              "steps": [rec.step() for _ in range(nsteps)]}
        out.append(tr)
    return out


def rand_live(job):
    import resource
    seed, ntr, nsteps = job
    rnd = random.Random(seed)
    out = []
    t = None
    san = None
    try:
        t = LiveTarget()
        mine = live_c18.kstate([os.getpid()])["rl"][0]
        for _ in range(ntr):
            unpriv = rnd.random() < 0.15
            wk = t.worker(unpriv)
            t.wk = wk
            ncpu = t.ncpu
            allowed = t.allowed
            t.kids = [live_c18.Child(), live_c18.Child()]
            pids = [k.pid for k in t.kids]
            t.pids = pids
            elig = []
            for s, pid in enumerate(pids):
                if t.cpusets.ok and rnd.random() < 0.7 and len(allowed) > 1:
                    e = set(rnd.sample(allowed, rnd.randint(1, len(allowed))))
                    t.cpusets.place(pid, e, "s%d" % s)
                else:
                    e = set(allowed)
                elig.append(e)
            unit, _k0rl = {}, []
            for r in range(NRES):
                hard = mine[r][1]
                if t.sysres or hard == -1:
                    unit[r] = rnd.choice(SCALES)
                else:
                    unit[r] = max(hard // HIV, 1) if hard >= HIV else 1
            capped = t.nr_open if t.sysres else None
            rec = Recorder(t, rnd, 2, ncpu, elig, [1, 2] if unpriv else [], t.sysres, unit, capped)
            for s, pid in enumerate(pids):
                os.setpriority(os.PRIO_PROCESS, pid, rnd.randint(-20, 19))
                live_c18.raw_ioprio_set(pid, *rnd.choice([(0, 0), (1, rnd.randint(0, 7)), (2, rnd.randint(0, 7)), (3, 0), (3, rnd.randint(1, 7))]))
                os.sched_setaffinity(pid, set(rnd.sample(sorted(elig[s]), rnd.randint(1, len(elig[s])))))
                for r in range(NRES):
                    hard = mine[r][1]
                    top = HIV
                    if capped and r == NOFILE:
                        top = CAPV
                    if not t.sysres and hard != -1:
                        top = min(HIV, hard // unit[r])
                    a, b = sorted([rnd.randint(0, top) for _ in range(2)])
                    if (t.sysres or hard == -1) and r != NOFILE and rnd.random() < 0.4:
                        b = INFM
                    resource.prlimit(pid, r, (rec.real(r, a), rec.real(r, b)))
            t.keys = []
            for pid in pids:
                rep = wk.req({"c": "new", "k": str(pid), "pid": pid})
                if rep.get("r") != "ok":
                    raise core.Machinery("live: psutil.Process(%d) failed: %r" % (pid, rep))
                t.keys.append(str(pid))
            k0 = t.kstate(deep=True)
            flavor = t.flavor if t.flavor in ("stored", "derived") else "stored"
            tr = {"np": 2, "ncpu": ncpu, "elig": [sorted(e) for e in elig], "denied": [1, 2] if unpriv else [],
                  "sysres": t.sysres, "flavor": flavor, "target": "live", "capped": bool(capped),
                  "k0": {"nice": k0["nice"], "io": [list(x) for x in k0["io"]],
                         "aff": [sorted(a) for a in k0["aff"]], "rl": rec.report(k0)["rl"]},
                  "steps": [rec.step() for _ in range(nsteps)]}
            out.append(tr)
            t.end()
    except live_c18.SanitizerReport as ex:
        san = str(ex)
    finally:
        if t is not None:
            try:
                t.close()
            except live_c18.SanitizerReport as ex:
                san = str(ex)
    return {"traces": out, "sanitizer": san, "facts": t.facts() if t else {}}


def judge(ctx, stats, name, traces, np_, capped):
    """TLC validates recorded histories; rejected ones become disagreements."""
    if not traces:
        return
    d = tlc.scratch()
    tf = os.path.join(d, "traces.ndjson")
    with open(tf, "w") as f:
        for tr in traces:
            f.write(json.dumps({"elig": tr["elig"], "denied": tr["denied"], "sysres": tr["sysres"],
                                "flavor": tr["flavor"], "k0": tr["k0"],
                                "steps": [{k: v for k, v in s.items() if k != "raised"} for s in tr["steps"]]}) + "\n")
    c = consts([], NP=np_, Wide="@{}", Resources=set(range(1, NRES + 1)),
               Capped=("@{%d}" % (NOFILE + 1)) if capped else "@{}", CapVal=CAPV, RVals={0, HIV})
    cfg = os.path.join(d, "t.cfg")
    tlc.write_cfg(cfg, c, init="TInit", next_="TNext")
    r = tlc.run("SettingsTrace", cfg, workers=1, env={"TRACE_FILE": tf}, timeout=1500)
    ctx.tlc(name, r)
    shutil.rmtree(d, ignore_errors=True)
    if r.violated:
        raise core.Machinery("trace monitor failed: %s\n%s" % (r.violated, r.out[-1500:]))
    done, rej = set(), {}
    for tag, body in r.printed:
        vals = tlc.parse_value("<<" + body + ">>")
        if tag == "DONE":
            done.add(vals[0])
        elif tag == "REJECTED":
            rej.setdefault(vals[0], []).append((vals[1], vals[2]))
    missing = [i for i in range(1, len(traces) + 1) if i not in done]
    if missing:
        raise core.Machinery("trace validation gave no verdict for %d histories (first: %d)" % (len(missing), missing[0]))
    nev = 0
    for i, tr in enumerate(traces, 1):
        tgt = tr["target"]
        nev += len(tr["steps"])
        for s in tr["steps"]:
            e = dict(s, ncpu=tr["ncpu"])
            ac = argclass(e, tr["elig"][s["p"] - 1])
            tag = "%s:%s:%s" % (s["op"], ac, s["res"])
            stats.tags[tgt][tag] = stats.tags[tgt].get(tag, 0) + 1
            stats.tags[tgt]["recorded"] = stats.tags[tgt].get("recorded", 0) + 1
            ctx.case((tgt, json.dumps({k: s[k] for k in ("op", "p", "r", "arg", "res", "val")}, sort_keys=True),
                      json.dumps(s["k"], sort_keys=True)))
        for l, why in rej.get(i, ()):
            s = tr["steps"][l - 1]
            e = dict(s, ncpu=tr["ncpu"])
            ac = argclass(e, tr["elig"][s["p"] - 1])
            symptom = why
            if why == "result-class":
                symptom = ("raised-" + s["raised"].split("(")[0]) if s["raised"] != "ok" else "did-not-raise"
            prev = tr["steps"][l - 2]["k"] if l > 1 else tr["k0"]
            if ac == "empty-list" and why == "kernel-state":
                befores = [tr["k0"]] + [x["k"] for x in tr["steps"][:l - 1]]
                texts = [sim_c18.rangelist(b["aff"][s["p"] - 1]) for b in befores if "aff" in b]
                if as_700(texts, tr["elig"][s["p"] - 1], s["k"]["aff"][s["p"] - 1]):
                    ac += "/first-range-of-a-current-mask"
            stats.deferred.append(("conf:%s:%s:%s" % (s["op"], ac, symptom),
                         "TLC rejects step %d of a history recorded on the %s target (%s): request %s ended with "
                         "class %s (%s), value %r; kernel before: %s; kernel after: %s; eligible CPUs %s, denied %s, "
                         "CAP_SYS_RESOURCE %s"
                         % (l, tgt, why, json.dumps({k: s[k] for k in ("op", "p", "r", "arg")}), s["res"], s["raised"],
                            s["val"], json.dumps(_brief(prev, s)), json.dumps(_brief(s["k"], s)), tr["elig"], tr["denied"], tr["sysres"]),
                         {"trace": dict(tr, steps=tr["steps"][:l])}))
    ctx.cov["traces_validated_against_impl"] += len(traces)
    ctx.cov.setdefault("replay", {})[name] = {"histories": len(traces), "events": nev,
                                              "rejected_steps": sum(len(v) for v in rej.values())}
    t0 = traces[0]
    ctx.sample({"kind": name, "history": {"elig": t0["elig"], "denied": t0["denied"], "sysres": t0["sysres"],
                                          "flavor": t0["flavor"], "target": t0["target"],
                                          "steps": [{k: (v if k != "k" else {x: y for x, y in v.items() if x != "rl"})
                                                     for k, v in s.items()} for s in t0["steps"][:4]]}})


def _brief(k, s):
    s["p"] - 1
    fam = s["op"].split("_")[0]
    if fam == "nice":
        return {"nice": k["nice"]}
    if fam == "ionice":
        return {"ionice": k.get("ior", k.get("io"))}
    if fam == "affinity":
        return {"affinity": k["aff"]}
    return {"limits[r]": [k["rl"][q][s["r"] - 1] for q in range(len(k["rl"]))]}


def judge_all(ctx, stats, rsim, rlive):
    """rsim / rlive: results of the rand_sim / rand_live work items."""
    straces = [t for val in rsim for t in val]
    ltraces = []
    for val in rlive:
        if val["sanitizer"]:
            ctx.disagree("conf:live:abnormal-exit-or-sanitizer", "live target (random driver): " + val["sanitizer"],
                         {"target": "live", "seed": ctx.seed})
        ltraces.extend(val["traces"])
        ctx.cov["live_host"] = val["facts"] or ctx.cov.get("live_host")
    capped = any(t.get("capped") for t in ltraces)
    errs = []

    def guard(fn, *a):
        try:
            fn(*a)
        except BaseException as ex:  # noqa: BLE001
            errs.append(ex)
    parts = [("trace-validation-sim", straces, 3, True), ("trace-validation-live", ltraces, 2, capped)]
    th = []
    for name, trs, np_, cap in parts:
        nsplit = max(1, min(6, len(trs) // 400))
        for j in range(nsplit):
            th.append(threading.Thread(target=guard, args=(judge, ctx, stats, "%s-%d" % (name, j), trs[j::nsplit], np_, cap)))
    for x in th:
        x.start()
    for x in th:
        x.join()
    if errs:
        raise errs[0]


# ---------------------------------------------------------------------------
# calibration of the simulated status line against the live kernel
# ---------------------------------------------------------------------------

def calibrate(ctx):
    """Cpus_allowed_list of the live kernel is the task's current mask printed
    as a range list: compare with sim_c18.rangelist on a live child."""
    allowed = sorted(os.sched_getaffinity(0))
    n, bad = 0, []
    kid = live_c18.Child()
    try:
        rnd = random.Random(ctx.seed)
        masks = [set(allowed), {allowed[0]}, {allowed[-1]}]
        for _ in range(12):
            masks.append(set(rnd.sample(allowed, rnd.randint(1, len(allowed)))))
        for m in masks:
            os.sched_setaffinity(kid.pid, m)
            live = live_c18.status_cpus_allowed_list(kid.pid)
            n += 1
            if live != sim_c18.rangelist(m):
                bad.append("mask %s: live kernel prints %r, simkernel renders %r" % (sorted(m), live, sim_c18.rangelist(m)))
    finally:
        kid.kill()
    ctx.cov["calibration"] = {"status_lines_compared_with_live_kernel": n}
    if bad:
        raise core.Machinery("calibration mismatch (Cpus_allowed_list): " + "; ".join(bad[:3]))


# ---------------------------------------------------------------------------
# vacuity
# ---------------------------------------------------------------------------

def need(ctx, what, tags, req):
    missing = []
    for r in req:
        if not any(k.startswith(r) for k in tags):
            missing.append(r)
    if missing:
        if ctx.violations:
            ctx.notes.append("%s never exercised %s" % (what, missing))
            return
        core.vacuity("%s never exercised %s" % (what, missing))


REQ_SIM = ["nice_get:get:ok", "nice_set:valid:ok", "nice_set:valid:denied", "nice_set:out-of-range:",
           "ionice_get:get:ok", "ionice_set:class+level:ok", "ionice_set:class+level:denied",
           "ionice_set:class-only:idle-or-none:ok", "ionice_set:class-only:rt-or-be:ok",
           "ionice_set:level-without-class:ValueError", "ionice_set:level-for-idle-or-none:ValueError",
           "ionice_set:level-outside-0-7:ValueError", "ionice_set:level-0-for-idle-or-none:",
           "affinity_get:get:ok", "affinity_set:empty-list:ok", "affinity_set:subset:ok",
           "affinity_set:subset-with-duplicates:ok", "affinity_set:only-nonexistent:ValueError",
           "affinity_set:only-ineligible:ValueError", "affinity_set:mixed:", "affinity_set:subset:denied",
           "cpuset-with-holes-or-partial", "affinity-mask-shape:range+more:empty-list",
           "affinity-mask-shape:single:empty-list", "affinity-mask-shape:range:empty-list",
           "rlimit_get:get:ok", "rlimit_get:get:denied", "rlimit_set:pair:ok", "rlimit_set:pair-with-infinity:ok",
           "rlimit_set:pair:denied", "rlimit_set:soft>hard:error", "rlimit_set:non-pair:len0:ValueError",
           "rlimit_set:non-pair:len1:ValueError", "rlimit_set:non-pair:len3:ValueError"]
REQ_LIVE = ["nice_get:get:ok", "nice_set:valid:ok", "ionice_get:get:ok", "ionice_set:class+level:ok",
            "ionice_set:class-only:idle-or-none:ok", "ionice_set:level-without-class:ValueError",
            "ionice_set:level-for-idle-or-none:ValueError", "ionice_set:level-outside-0-7:ValueError",
            "affinity_get:get:ok", "affinity_set:empty-list:ok", "affinity_set:subset:ok",
            "affinity_set:subset-with-duplicates:ok", "affinity_set:only-nonexistent:ValueError",
            "rlimit_get:get:ok", "rlimit_set:pair:ok", "rlimit_set:soft>hard:error",
            "rlimit_set:non-pair:len1:ValueError"]
REQ_LIVE_DENIED = ["nice_set:valid:denied", "ionice_set:class+level:denied", "affinity_set:subset:denied",
                   "rlimit_set:pair:denied", "rlimit_get:get:denied"]
REQ_LIVE_CPUSET = ["cpuset-with-holes-or-partial", "affinity_set:only-ineligible:ValueError", "affinity_set:mixed:"]
REQ_TRACE = ["recorded", "nice_set:valid:ok", "ionice_set:class+level:ok", "affinity_set:subset:ok",
             "affinity_set:empty-list:ok", "rlimit_set:pair:ok", "rlimit_set:non-pair", "nice_get:get:ok"]


# ---------------------------------------------------------------------------
# replay of a stored counterexample
# ---------------------------------------------------------------------------

def replay_one(ctx, stats, path):
    rep = json.load(open(path))["replay"]
    if "events" in rep and rep.get("target") in ("sim", "live"):
        job = (rep["meta"], rep["events"])
        if rep["target"] == "sim":
            run_sim(ctx, stats, "replay", [job], "stored")
        else:
            run_live(ctx, stats, "replay", [job], "stored", nbatch=1)
    elif "bigcpu" in rep:
        bad, _ = bigcpu_run([rep["bigcpu"]] if "kind" in rep["bigcpu"] else bigcpu_cases(ctx.seed, False))
        for sig, text, c in bad:
            ctx.disagree("conf:" + sig, text, {"bigcpu": c})
    elif "trace" in rep:
        tr = rep["trace"]
        judge(ctx, stats, "replay-trace", [tr], tr["np"], bool(tr.get("capped", tr["target"] == "sim")))
        for sig, desc, rep2 in stats.deferred:
            ctx.disagree(sig, desc, rep2)
    else:
        raise core.Machinery("this replay file holds a model-level trace; rerun the check to reproduce it")
    print("replayed %s: %d disagreement(s)" % (path, len(ctx.violations) + sum(ctx.known_hits.values())))


# ---------------------------------------------------------------------------

def check(ctx):
    snap2 = None
    if os.environ.get("VERIF_ASAN") == "1":
        # the simulated-kernel target imports psutil into this process: give it
        # the plain build (its C layer is replaced by simkernel anyway); the
        # ASan/UBSan build is the one the live target's interpreter loads
        from harness import build
        snap2 = build.snapshot(asan=False)
        sys.path.insert(0, snap2)
    try:
        _check(ctx)
    finally:
        if snap2:
            shutil.rmtree(snap2, ignore_errors=True)


class Background:
    def __init__(self):
        self.th, self.res, self.err = {}, {}, {}

    def start(self, name, fn, *a):
        def run():
            try:
                self.res[name] = fn(*a)
            except BaseException as ex:  # noqa: BLE001
                self.err[name] = ex
        t = self.th[name] = threading.Thread(target=run)
        t.start()

    def join(self, name):
        self.th[name].join()
        if name in self.err:
            raise self.err[name]
        return self.res[name]


def _check(ctx):
    forkpool.start(16, init=template)
    thorough = ctx.tier == "thorough"
    stats = Stats()
    ctx.cov["rule"] = ("cases = public calls nice()/ionice()/cpu_affinity()/rlimit() (get and set forms) made on the "
                       "simulated-kernel target and on the live target, each with the full kernel state of all "
                       "processes read back; distinct = distinct (target, resource binding, request, predicted result "
                       "and successor kernel state) resp. distinct recorded (request, result, kernel state)")
    ctx.assumptions += [
        "the kernel shows the task's CURRENT affinity mask in Cpus_allowed_list of /proc/<pid>/status (fs/proc/array.c; "
        "compared with the live kernel before every run); the eligible CPUs are the process's cpuset and "
        "sched_setaffinity installs request & cpuset, failing with EINVAL when that is empty",
        "requests whose outcome the statement leaves open are accepted either way and the run continues from the "
        "model's successor: nice outside -20..19 (clamped by Linux, or refused), ionice(class) without a level for "
        "RT/BE (any level 0-7), ionice(IDLE|NONE, 0) (accepted or ValueError), CPU lists mixing eligible with "
        "ineligible/nonexistent CPUs (the eligible part is set, or the call is refused unchanged)",
        "soft > hard must fail with some exception and change nothing (the class is not stated); a limits "
        "argument that is not a pair = a tuple/list of length 0, 1, 3 or 4 (non-sequences are not exercised)",
        "EPERM cases (another user's process for every set and for rlimit get; raising a hard limit without "
        "CAP_SYS_RESOURCE; RLIMIT_NOFILE above fs.nr_open) must fail as AccessDenied/PermissionError and change "
        "nothing; on a process the caller may not modify an invalid request may end as ValueError or as EPERM",
        "I/O class NONE: expected read-back is what the kernel flavour reports (this kernel: see live_host; the "
        "simulated kernel is run in both flavours 'stored' and 'derived from nice')",
        "cpu_affinity() is compared as a set without duplicates; ionice()/rlimit() as pairs",
        "RLIMIT_CPU limits are offset by 100000 s on both targets: the kernel stores a soft limit of 0 as 1 and "
        "signals a process whose CPU time exceeds a small limit, so exactly-0 CPU limits are not exercised",
        "live rlimit values are bounded by the inherited hard limits when the sandbox lacks CAP_SYS_RESOURCE",
        "PID reuse between calls is property C01's subject and not injected here",
    ]
    if ctx.replay_file:
        return replay_one(ctx, stats, ctx.replay_file)
    t0 = time.time()
    ph = ctx.cov["phase_s"] = {}

    def mark(name):
        ph[name] = round(time.time() - t0, 1)
    bg = Background()
    bg.start("mixed", mixed_jobs, ctx, 1500 if thorough else 250, 40)
    calibrate(ctx)
    # (4) seeded random drivers first: TLC judges their histories in the background
    nsim, nlive, nsteps = (4000, 800, 40) if thorough else (640, 160, 40)
    ditems = [("rsim", (ctx.seed * 1000 + i, max(1, nsim // 16), nsteps)) for i in range(16)]
    ditems += [("rlive", (ctx.seed * 1000 + 500 + i, max(1, nlive // 8), nsteps)) for i in range(8)]
    dres = run_items(ditems, 1800)
    tstats = Stats()
    bg.start("judge", judge_all, ctx, tstats, dres[:16], dres[16:])
    mark("histories-recorded")
    rnd = random.Random(ctx.seed)
    live_budget = {"nice": 60, "ionice": 120, "affinity": 160, "rlimit-inf": 48, "rlimit-fin": 32, "rlimit-cap": 24}
    items, owners = [], []          # work items and what to do with their results

    def add(name, kind, jobs, live_limit):
        for i in range(0, len(jobs), 24):
            items.append(("sim", jobs[i:i + 24]))
            owners.append(("sim", name, kind, jobs[i:i + 24]))
        lj = live_subset(jobs, name, rnd, live_limit)
        nb = 16 if thorough else 6
        for b in (lj[i::nb] for i in range(nb)):
            if b:
                items.append(("live", b))
                owners.append(("live", name, kind, b))
    # (2) transition tours of the dumped graphs, on both targets
    live_budget["affinity-wide"] = None
    for name, c in DUMPS + (DUMPS_THOROUGH if thorough else []):
        nedges, nstates, jobs = dump_jobs(ctx, name, c(), None if thorough else 4)
        ctx.cov.setdefault("graphs", {})[name] = {"transitions": nedges, "states": nstates, "behaviours": len(jobs)}
        add("tour-" + name, "replayed (transition tour)", jobs, None if thorough else live_budget[name])
        ctx.sample({"kind": "tour-" + name, "events": [_brief_ev(e) for e in jobs[len(jobs) // 2][1][:5]]}, limit=3)
    # (3) random mixed behaviours from tlc -simulate
    mark("tours-built")
    add("simulate-mixed", "simulated (mixed families)", bg.join("mixed"), None if thorough else 60)
    mark("mixed-generated")
    bg.start("model", model_checks, ctx)        # TLC on the model while the code is exercised
    results = run_items(items, 2400)
    mark("work-items-done")
    for own, val in zip(owners, results):
        if own[0] == "sim":
            take_sim(ctx, stats, own[1], own[2], own[3], val)
        else:
            take_live(ctx, stats, own[1], own[2], own[3], val)
    need(ctx, "the replay on the simulated kernel", stats.tags["sim"], REQ_SIM)
    host = ctx.cov.get("live_host") or {}
    need(ctx, "the replay on the live kernel", stats.tags["live"], REQ_LIVE + REQ_LIVE_DENIED
         + (REQ_LIVE_CPUSET if host.get("cpusets_with_holes") else []))
    if not host.get("cpusets_with_holes"):
        ctx.notes.append("live target: cpusets with holes could not be arranged on this host")
    mark("results-recorded")
    bg.join("judge")
    for sig, desc, rep in sorted(tstats.deferred, key=lambda x: (x[0], len(x[2]["trace"]["steps"]), x[1])):
        stats.seen(sig, rep["trace"]["target"] + "-recorded")
        ctx.disagree(sig, desc, rep)
    mark("histories-judged")
    for tgt in ("sim", "live"):
        need(ctx, "the random driver (%s)" % tgt, tstats.tags[tgt], REQ_TRACE)
        for k, v in tstats.tags[tgt].items():
            stats.tags[tgt][k] = stats.tags[tgt].get(k, 0) + v
    # (1) model-level results; the probe's counterexample on the real code (a note only:
    # the conformance above reports the defect by signature)
    probe = bg.join("model")
    mark("model-checks-joined")
    if probe:
        res = run_items([("sim", [({"dump": "probe", "seed": 1, "active": ["affinity"]},
                                   [dict(e, alts=[], open=False) for e in probe])])], 300)[0][0]
        ctx.cov["regression_probe"]["real_code_follows_psutil700_model"] = not res.get("mismatches")
    ctx.cov["disagreements_by_signature_and_target"] = stats.sigs
    ctx.cov["classes_exercised"] = {t: len(v) for t, v in stats.tags.items()}
    ctx.cov["steps_by_target"] = stats.steps
    ctx.cov["not_runnable_on_live"] = stats.skipped
    check_bigcpu(ctx, thorough)
    mark("bigcpu")


# ---------------------------------------------------------------------------
# the real extension on a machine with 256 possible CPUs
# ---------------------------------------------------------------------------

BIG = [0, 3, 63, 64, 70, 127, 128, 130, 255]


def bigcpu_cases(seed, thorough):
    import itertools
    rnd = random.Random(seed)
    sets = [list(c) for r in (1, 2, 3) for c in itertools.combinations(BIG, r)]
    sets += [list(range(256)), list(range(64)), list(range(64, 128)), list(range(1, 256, 2)), [64, 64, 3, 64], BIG]
    for _ in range(300 if thorough else 60):
        sets.append(rnd.sample(range(256), rnd.randint(1, 40)))
    cases = [{"kind": "set", "cpus": s} for s in sets]
    cases += [{"kind": "kset", "cpus": sorted(set(s))} for s in sets[::3]]
    cases += [{"kind": "invalid", "cpus": s} for s in ([256], [300, 1023], [256, 257, 1000])]
    # numbers whose low 32 bits are a real CPU: no such CPU exists all the same
    cases += [{"kind": "invalid", "cpus": s, "overflow_ok": True}
              for s in ([2 ** 32 + 3], [2 ** 33 + 70], [2 ** 40 + 64, 2 ** 32], [2 ** 63 - 1])]
    rnd.shuffle(cases)
    return cases


def bigcpu_run(cases):
    """Returns (disagreements [(sig, text, case)], #calls) | raises Machinery."""
    import subprocess
    import tempfile
    src = os.path.join(core.VERIF, "harness", "bigcpu_shim.c")
    d = tempfile.mkdtemp(prefix="c18-shim-")
    wk = kid = None
    bad, ncalls = [], 0
    try:
        so = os.path.join(d, "bigcpu_shim.so")
        r = subprocess.run(["gcc", "-shared", "-fPIC", "-O1", "-o", so, src], stdout=subprocess.PIPE, stderr=subprocess.STDOUT)
        if r.returncode:
            raise core.Machinery("cannot build the 256-CPU shim: %s" % r.stdout.decode()[-500:])
        wk = live_c18.Worker(preload=so)
        kid = live_c18.Child()
        for key, pid in (("self", wk.info["pid"]), ("kid", kid.pid)):
            if wk.req({"c": "new", "k": key, "pid": pid}).get("r") != "ok":
                raise core.Machinery("bigcpu: psutil.Process(%d) failed" % pid)
        first = wk.req({"c": "kaff", "pid": kid.pid})
        if first.get("v") != list(range(256)):
            raise core.Machinery("the 256-CPU shim is not in effect: %r" % (first,))
        other = {"self": "kid", "kid": "self"}
        pids = {"self": wk.info["pid"], "kid": kid.pid}
        for i, c in enumerate(cases):
            key = ("self", "kid")[i % 2]
            pid = pids[key]
            want = sorted(set(c["cpus"]))
            before = wk.req({"c": "kaff", "pid": pid})["v"]
            obefore = wk.req({"c": "kaff", "pid": pids[other[key]]})["v"]
            if c["kind"] == "kset":
                wk.req({"c": "kaff", "pid": pid, "set": want})
                res = {"r": "ok"}
            else:
                res = wk.calls([{"k": key, "op": "cpu_affinity", "a": [c["cpus"]]}])[0]
            got = wk.calls([{"k": key, "op": "cpu_affinity", "a": []}])[0]
            kern = wk.req({"c": "kaff", "pid": pid})["v"]
            oafter = wk.req({"c": "kaff", "pid": pids[other[key]]})["v"]
            ncalls += 2
            what = "cpu_affinity(%r) on a 256-CPU machine" % (c["cpus"],)
            if got.get("r") != "ok" or got.get("v") != kern:
                bad.append(("bigcpu:get-vs-kernel", "%s: the get form -> %r, the kernel reports %r" % (what, got.get("v", got), kern), c))
            if c["kind"] == "invalid":
                if res.get("r") != "ValueError" and not (c.get("overflow_ok") and res.get("r") == "OverflowError"):
                    bad.append(("bigcpu:invalid:not-ValueError", "%s -> %r, expected ValueError" % (what, res), c))
                if kern != before:
                    bad.append(("bigcpu:invalid:changed", "%s changed the mask from %r to %r" % (what, before, kern), c))
            elif c["kind"] == "set":
                if res.get("r") != "ok":
                    bad.append(("bigcpu:set:refused", "%s -> %r" % (what, res), c))
                elif kern != want:
                    bad.append(("bigcpu:set:kernel-state", "%s: the kernel now reports %r" % (what, kern), c))
            if oafter != obefore:
                bad.append(("bigcpu:other-process", "%s changed the other process's mask %r -> %r" % (what, obefore, oafter), c))
        wk.close()
        wk = None
    except live_c18.SanitizerReport as ex:
        bad.append(("bigcpu:crash", str(ex)[-1500:], {"cases": len(cases)}))
        wk = None
    finally:
        if wk is not None:
            try:
                wk.close()
            except live_c18.SanitizerReport:
                pass
        if kid is not None:
            kid.kill()
        shutil.rmtree(d, ignore_errors=True)
    return bad, ncalls


def check_bigcpu(ctx, thorough):
    """SetThenGet / GetReadsKernel / InvalidChangesNothing / OthersUnchanged of Settings.tla for CPU
    numbers beyond the first word of the mask: the real extension behind an LD_PRELOAD shim that
    answers the affinity system calls as a 256-CPU kernel does (EINVAL for a short buffer)."""
    if not shutil.which("gcc"):
        ctx.notes.append("bigcpu: no C compiler, stage skipped")
        return
    cases = bigcpu_cases(ctx.seed, thorough)
    bad, ncalls = bigcpu_run(cases)
    for c in cases:
        ctx.case(("bigcpu", c["kind"], tuple(c["cpus"])))
    ctx.cov["bigcpu"] = {"cases": len(cases), "public_calls": ncalls, "possible_cpus": 256}
    for sig, text, c in bad:
        ctx.disagree("conf:" + sig, text, {"bigcpu": c})


def main(prop, argv):
    core.main_wrapper(check, prop, argv)

"""C14 -- open_files(), num_fds(), io_counters() reflect the descriptor table
(spec/ProcFds.tla, spec/ProcFdsTrace.tla)."""
import collections
import json
import os
import random
import shutil
import subprocess
import sys

from harness import core, forkpool, functional, graph, sim_c14, tlc
from harness.simkernel import Fd
from harness.tmpl import template

FIXES = set()          # no repaired defect is assumed by the specification
PID = 77
IO_ORDER = ["rchar", "wchar", "syscr", "syscw", "read_bytes", "write_bytes", "cancelled_write_bytes"]
IO_FIELDS = ["read_count", "write_count", "read_bytes", "write_bytes", "read_chars", "write_chars"]
JUNK = {"blank": b"", "spaces": b"  \t ", "nocolon": b"garbage", "nospace": b"key:5",
        "twopairs": b"(cgroup) read_bytes: 0 write_bytes: 0", "hashname": b"# rchar: 0", "slashname": b"prev/syscw: 9"}
# symbolic offsets of the specification -> real offsets (loff_t: 0 .. 2^63-1)
POSVALS = {0: 0, 1: 1, 2: 4096, 3: 2 ** 31 - 1, 4: 2 ** 31, 5: 2 ** 32 + 5, 6: 10 ** 9, 7: 2 ** 53 + 1,
           8: 2 ** 62, 9: 12345678901234, 10: 2 ** 63 - 2, 11: 2 ** 63 - 1, 12: 2 ** 32, 13: 2 ** 53 + 1,
           14: 2 ** 31}
# io counters are u64: symbolic value v is presented as v * S
SCALES = [1, 2 ** 10, 2 ** 31 + 6, 2 ** 53 + 2, (2 ** 64 - 1) // 107]
INVS = ["WellFormed", "Counts", "ExactlyRegular", "Local", "ModeFromFlags", "FlagsFaithful",
        "IoTolerant", "Total"]
KINDS = ["reg", "socket", "pipe", "anon", "dev", "dir", "rel"]
DELS = ["no", "stale", "literal", "both", "gone"]
TAG_ORDER = ["open_files:mode3", "open_files:raised", "num_fds:raised", "io_counters:raised",
             "open_files:type", "open_files:closing-listed", "open_files:not-regular-listed",
             "open_files:missing", "open_files:duplicate", "open_files:path", "open_files:position",
             "open_files:flags", "open_files:mode", "open_files:extra", "num_fds:value",
             "io_counters:value"]


def consts(tier):
    c = {"O_" + k: v for k, v in sim_c14.BITS.items()}
    if tier == "thorough":
        c.update({"Positions": {0, 11, 12, 13, 14}, "PalA": {1, 2, 3, 5, 6, 7}, "LenA": 6,
                  "PalB": set(range(1, 17)), "LenB": 3, "FullSingles": True, "IoJunk": 2})
    else:
        c.update({"Positions": {0, 11, 12}, "PalA": {1, 2, 3, 5, 6, 7, 8, 10, 13, 14}, "LenA": 4,
                  "PalB": {1, 4, 9, 11, 12, 15, 16}, "LenB": 2, "FullSingles": False, "IoJunk": 1})
    return c


# ---- rendering an abstract input into the simulated kernel -------------------

def path_of(file, dl, sfx):
    # (every other file lives on the tmpfs under /dev: a regular file is one wherever it is)
    base = ("/dev/shm/f%d_%s" if file % 2 else "/v/f%d_%s") % (file, dl)
    return base + " (deleted)" if sfx else base


def build_world(w, tab, io_lines, posval, ioval):
    for p in list(w.procs):
        if p != w.caller_pid:
            del w.procs[p]
    for k in [k for k in w.files if k.startswith(("/v/", "/dev/shm/"))]:
        del w.files[k]
    w.devs = {"/dev/null": 0x103}
    w.dirs.add("/v/dir")
    w.deny = {}
    # decoys in the CALLER's current directory, named like the link targets that are not absolute
    # paths: whatever the caller's directory holds, such descriptors are no regular files
    for t in sim_c14.TARGETS.values():
        if not t.startswith("/"):
            w.files[w.caller_cwd + "/" + t] = b"decoy"
    p = w.spawn(PID, comm=b"holder", ppid=1, start=500)
    st = sim_c14.reset(w, PID)
    p.fds = {}
    for d in sorted(tab, key=lambda d: d["fd"]):       # the kernel lists descriptors in ascending order
        if d["kind"] == "reg":
            dl = d["del"]
            target = path_of(d["file"], dl, dl != "no")
            if dl in ("no", "stale", "both"):
                w.files[path_of(d["file"], dl, False)] = b"data"
            if dl in ("literal", "both"):
                w.files[path_of(d["file"], dl, True)] = b"data"
            elif dl in ("stale", "gone") and (d["fd"] + d["file"]) % 3:
                # nothing of the literal name: the look at it may fail in other ways than ENOENT (a
                # parent replaced by a file, a name too long with the suffix, a symlink loop)
                import errno as _e
                w.deny[target] = (_e.ENOTDIR, _e.ENAMETOOLONG, _e.ELOOP)[(d["fd"] + d["file"]) % 3]
                if dl == "gone":        # (a replaced parent directory fails both spellings alike)
                    w.deny[path_of(d["file"], dl, False)] = w.deny[target]
        else:
            target = sim_c14.TARGETS[d["kind"]]
        p.fds[d["fd"]] = Fd(target, posval(d["pos"]), sim_c14.kernel_word(d["acc"], d["fl"]), d["kind"])
        if d["close"] != "no":
            st.plan[d["fd"]] = int(d["close"][1])
    lines = []
    for l in io_lines:
        if l["t"] == "kv":
            lines.append(b"%s: %d" % (l["k"].encode(), ioval(l["v"])))
        else:
            lines.append(JUNK[l["t"]])
    p.io_raw = b"\n".join(lines) + b"\n"
    return p, st


def _call(fn):
    try:
        return fn()
    except BaseException as ex:  # noqa: BLE001
        return {"raised": repr(ex), "type": type(ex).__name__}


def query(ps, st, pr=None):
    """The three answers of the real code for PID (each call judged separately)."""
    pr = pr or ps.Process(PID)
    got = {"num_fds": _call(pr.num_fds)}
    of = _call(pr.open_files)
    if isinstance(of, list):
        of = [{"path": r.path, "fd": r.fd, "position": r.position, "mode": r.mode, "flags": r.flags}
              for r in of]
    got["open_files"] = of
    io = _call(pr.io_counters)
    if not isinstance(io, dict):
        io = {n: getattr(io, n, None) for n in IO_FIELDS}
    got["io"] = io
    got["fired"] = {str(k): v[0] for k, v in st.fired.items()}
    return got


# ---- the judge (mode 5): code's answers against the specification's out ------

def judge(tab, out, got, posval, ioval):
    """-> list of (tag, message).  Compares only what the statement states:
    rows as a set keyed by descriptor number, counters by documented name."""
    bad = []
    fired = got["fired"]
    must = {r["fd"]: r for r in out["rows"]}
    opt = {r["fd"]: r for r in out["opt"]}
    for r in out["ifopen"]:
        if str(r["fd"]) not in fired:      # the scan never reached that access: it stayed open
            (opt if r["del"] == "gone" else must)[r["fd"]] = r
    bydesc = {d["fd"]: d for d in tab}
    of = got["open_files"]
    if isinstance(of, dict):
        mode3 = any(d["kind"] == "reg" and d["acc"] == 3 and (d["fd"] in must or d["fd"] in opt) for d in tab)
        if mode3 and of["type"] == "KeyError":
            bad.append(("open_files:mode3", "open_files() raised %s for a live process holding a regular file "
                        "opened with access mode 3" % of["raised"]))
        else:
            bad.append(("open_files:raised", "open_files() raised %s for a live process" % of["raised"]))
    else:
        seen = set()
        for g in of:
            if not (type(g["fd"]) is int and type(g["position"]) is int and type(g["flags"]) is int
                    and isinstance(g["mode"], str) and isinstance(g["path"], str)):
                bad.append(("open_files:type", "row %r has a field of the wrong type" % (g,)))
                continue
            if g["fd"] in seen:
                bad.append(("open_files:duplicate", "descriptor %d listed twice" % g["fd"]))
            seen.add(g["fd"])
            e = must.get(g["fd"]) or opt.get(g["fd"])
            d = bydesc.get(g["fd"])
            if e is None:
                if d is None:
                    bad.append(("open_files:extra", "row %r: the process has no such descriptor" % (g,)))
                elif str(g["fd"]) in fired:
                    bad.append(("open_files:closing-listed", "row %r for a descriptor that closed before access %s of the scan"
                                % (g, fired[str(g["fd"])])))
                else:
                    bad.append(("open_files:not-regular-listed", "row %r for a %s descriptor (target %r)"
                                % (g, d["kind"], sim_c14.TARGETS.get(d["kind"]))))
                continue
            paths = [path_of(e["file"], e["del"], e["sfx"])]
            if g["fd"] in opt:
                paths = [path_of(e["file"], e["del"], False), path_of(e["file"], e["del"], True)]
            if g["path"] not in paths:
                bad.append(("open_files:path", "fd %d: path %r, expected %s" % (g["fd"], g["path"], " or ".join(map(repr, paths)))))
            if g["position"] != posval(e["pos"]):
                bad.append(("open_files:position", "fd %d: position %r, expected %d" % (g["fd"], g["position"], posval(e["pos"]))))
            if g["flags"] != e["flags"]:
                bad.append(("open_files:flags", "fd %d: flags %r (0o%o), the kernel reports 0o%o"
                            % (g["fd"], g["flags"], g["flags"], e["flags"])))
            if e["mode"] != "any" and g["mode"] != e["mode"]:
                bad.append(("open_files:mode", "fd %d: mode %r for flags 0o%o, expected %r" % (g["fd"], g["mode"], e["flags"], e["mode"])))
        for fd, e in must.items():
            if fd not in seen:
                bad.append(("open_files:missing", "fd %d (regular file %r, still open) is not listed"
                            % (fd, path_of(e["file"], e["del"], e["sfx"]))))
    n = got["num_fds"]
    if isinstance(n, dict):
        bad.append(("num_fds:raised", "num_fds() raised %s" % n["raised"]))
    elif type(n) is not int or n != out["num_fds"]:
        bad.append(("num_fds:value", "num_fds() -> %r, the table has %d descriptors" % (n, out["num_fds"])))
    io = got["io"]
    if "raised" in io:
        bad.append(("io_counters:raised", "io_counters() raised %s" % io["raised"]))
    else:
        for name in IO_FIELDS:
            if type(io.get(name)) is not int or io[name] != ioval(out["io"][name]):
                bad.append(("io_counters:value", "io_counters().%s -> %r, expected %d" % (name, io.get(name), ioval(out["io"][name]))))
    bad.sort(key=lambda b: TAG_ORDER.index(b[0]))
    return bad


def stats_of(tab, io_lines, out, got, st):
    s = collections.Counter()
    s["tables:n=%d" % len(tab)] += 1
    for d in tab:
        s["kind:" + d["kind"]] += 1
        if d["kind"] == "reg":
            s["del:" + d["del"]] += 1
            s["flags:acc%d%s" % (d["acc"], "+APPEND" if "APPEND" in d["fl"] else "")] += 1
            for f in d["fl"]:
                s["flag:" + f] += 1
    for fd, j in got["fired"].items():
        s["fired:c%d" % j] += 1
    for l in io_lines:
        if l["t"] != "kv":
            s["junk:" + l["t"]] += 1
    if len([l for l in io_lines if l["t"] == "kv"]) == 6:
        s["io:6-lines"] += 1
    of = got["open_files"]
    if isinstance(of, list):
        s["result:ok"] += 1
        for g in of:
            s["mode:%s" % g["mode"]] += 1
            if g["path"].endswith(" (deleted)"):
                s["path:suffixed"] += 1
        optfds = {r["fd"] for r in out["opt"]} if out else set()
        for fd in optfds:
            s["optional:" + ("listed" if any(g["fd"] == fd for g in of) else "omitted")] += 1
        if not of:
            s["result:empty"] += 1
    else:
        s["result:raised"] += 1
    return s


def run_chunk(cases):
    """Forked: cases = [(event, scale)]; returns mismatches + class statistics."""
    w, ps = template()
    sim_c14.install(w)
    bad, stats = [], collections.Counter()
    for i, (ev, S) in enumerate(cases):
        inp, out = ev["inp"], ev["out"]
        posval = POSVALS.__getitem__
        ioval = lambda v: v * S  # noqa: E731
        p, st = build_world(w, inp["tab"], inp["io"], posval, ioval)
        # cases 4j+2 and 4j+3 are asked of one Process object inside one oneshot() block:
        # the descriptor table changed in between and the answers must follow it
        if i % 4 == 2:
            held = ps.Process(PID)
            block = held.oneshot()
            block.__enter__()
            held.name()
        got = query(ps, st, held if i % 4 in (2, 3) else None)
        if i % 4 == 3 or (i % 4 == 2 and i == len(cases) - 1):
            block.__exit__(None, None, None)
        res = judge(inp["tab"], out, got, posval, ioval)
        stats.update(stats_of(inp["tab"], inp["io"], out, got, st))
        if res:
            bad.append((i, res[0][0], "; ".join(m for _, m in res[:4]) + "  [table %s, io scale %d]"
                        % (json.dumps(inp["tab"], sort_keys=True), S)))
    return {"bad": bad, "stats": stats}


def run_cases(ctx, name, cases, chunk=60):
    chunks = [cases[i:i + chunk] for i in range(0, len(cases), chunk)]
    res = forkpool.map_fork(run_chunk, chunks)
    nbad, stats = 0, collections.Counter()
    for ch, (st, val) in zip(chunks, res):
        if st != "ok":
            raise core.Machinery("case runner failed (%s): %s" % (st, val))
        stats.update(val["stats"])
        for idx, tag, text in val["bad"]:
            nbad += 1
            ctx.disagree("conf:" + tag, "code and specification disagree: %s" % text, {"case": ch[idx]})
        for c in ch:
            ctx.case(json.dumps(c, sort_keys=True, default=str))
    ctx.cov["traces_validated_against_impl"] += len(cases)
    ctx.cov.setdefault("replay", {})[name] = {"cases": len(cases), "disagreements": nbad,
                                              "classes": dict(sorted(stats.items()))}
    if cases:
        ctx.sample({"kind": name, "case": cases[len(cases) // 3]})
    return stats


# ---- mode 4: random larger tables through the code, judged by TLC -----------

FD_POOL = list(range(0, 40)) + [63, 64, 255, 256, 1023, 1024, 4095, 65535, 99999, 1048575]
FLAG9 = ["APPEND", "CREAT", "TRUNC", "CLOEXEC", "LARGEFILE", "NONBLOCK", "DSYNC", "NOATIME", "DIRECT"]


def rand_input(rnd):
    n = rnd.choice([0, 1, 2, 3, 5, 8, 11, 14])
    mode3_table = rnd.random() < 0.03
    tab = []
    for fd in sorted(rnd.sample(FD_POOL, n)):
        kind = rnd.choices(KINDS, [10, 2, 2, 1, 2, 1, 1])[0]
        acc = rnd.choice([0, 1, 2])
        if mode3_table and rnd.random() < 0.5:
            acc = 3
        fl = [f for f in FLAG9 if rnd.random() < (0.8 if f == "LARGEFILE" else 0.35)]
        pos = rnd.choice([0, 1, rnd.randrange(2 ** 12), 2 ** 31 - 1, 2 ** 31, 2 ** 32, rnd.randrange(2 ** 31, 2 ** 33),
                          rnd.randrange(2 ** 53, 2 ** 63), 2 ** 63 - 1])
        tab.append({"fd": fd, "kind": kind, "acc": acc, "fl": fl, "pos": str(pos), "file": rnd.randint(1, 4),
                    "del": rnd.choices(DELS, [6, 1, 1, 1, 1])[0] if kind == "reg" else "no",
                    "close": rnd.choices(["no", "c1", "c2", "c3"], [8, 1, 1, 1])[0]})
    names = IO_ORDER if rnd.random() < 0.85 else IO_ORDER[:6]
    io = [{"t": "kv", "k": k, "v": str(rnd.choice([0, rnd.randrange(2 ** 20), rnd.randrange(2 ** 31, 2 ** 33),
                                                    rnd.randrange(2 ** 53, 2 ** 64), 2 ** 64 - 1]))} for k in names]
    for _ in range(rnd.choice([0, 0, 1, 2, 4])):
        io.insert(rnd.randint(0, len(io)), {"t": rnd.choice(sorted(JUNK))})
    return {"tab": tab, "io": io}


def row_typed(g):
    return (type(g["fd"]) is int and type(g["position"]) is int and type(g["flags"]) is int
            and 0 <= g["flags"] < 2 ** 30 and 0 <= g["fd"] < 2 ** 31 and isinstance(g["mode"], str)
            and isinstance(g["path"], str))


def to_line(inp, got):
    """Recorded <effective input, answers> in the shape ProcFdsTrace expects, or
    a dict with 'problem' when an answer cannot be expressed (raised / bad type)."""
    eff = []
    for d in inp["tab"]:
        d = dict(d)
        if d["close"] != "no" and str(d["fd"]) not in got["fired"]:
            d["close"] = "no"          # never closed during the scan
        eff.append(d)
    line = {"inp": {"tab": eff, "io": inp["io"]}}
    of, n, io = got["open_files"], got["num_fds"], got["io"]
    if isinstance(of, dict) or isinstance(n, dict) or "raised" in io:
        line["problem"] = "raised"
        return line
    rev = {}
    for d in eff:
        if d["kind"] == "reg":
            for sfx in (False, True):
                rev[path_of(d["file"], d["del"], sfx)] = (d["file"], d["del"], sfx)
    rows = []
    for g in of:
        if not row_typed(g):
            line["problem"] = "type"
            return line
        file, dl, sfx = rev.get(g["path"], (0, "?", False))
        rows.append({"fd": g["fd"], "file": file, "del": dl, "sfx": sfx, "pos": str(g["position"]),
                     "mode": g["mode"], "flags": g["flags"]})
    if type(n) is not int or any(type(io.get(f)) is not int for f in IO_FIELDS):
        line["problem"] = "type"
        return line
    line["got"] = {"num_fds": n, "rows": rows, "io": {f: str(io[f]) for f in IO_FIELDS}}
    return line


def rand_chunk(job):
    seed, n = job
    w, ps = template()
    sim_c14.install(w)
    rnd = random.Random(seed)
    lines, stats = [], collections.Counter()
    for _ in range(n):
        inp = rand_input(rnd)
        p, st = build_world(w, inp["tab"], inp["io"], int, int)
        got = query(ps, st)
        stats.update(stats_of(inp["tab"], inp["io"], None, got, st))
        line = to_line(inp, got)
        line["raw"] = got
        lines.append(line)
    return lines, stats


def py_judge_line(line, out):
    """Classify a recorded line with the Python judge, given TLC's F(inp)."""
    got = dict(line["raw"])
    # the line's input is the effective one: whatever is still marked closing did close
    got["fired"] = {str(d["fd"]): int(d["close"][1]) for d in line["inp"]["tab"] if d["close"] != "no"}
    return judge(line["inp"]["tab"], out, got, int, int)


def trace_validate(ctx, n, live_lines):
    jobs = [(ctx.seed * 1000 + i, n // 16 + 1) for i in range(16)] if n else []
    res = forkpool.map_fork(rand_chunk, jobs, timeout=600)
    lines, stats = [], collections.Counter()
    for st, val in res:
        if st != "ok":
            raise core.Machinery("trace driver failed: %s" % (val,))
        lines.extend(val[0])
        stats.update(val[1])
    lines.extend(live_lines)
    good = []
    for l in lines:
        if "problem" in l:
            # an exception (or an ill-typed answer) needs no oracle: the statement excludes it
            out0 = {"rows": [], "opt": [{"fd": d["fd"]} for d in l["inp"]["tab"] if d["kind"] == "reg" and d["acc"] == 3
                                        and d["close"] == "no"],
                    "ifopen": [], "num_fds": len(l["inp"]["tab"]), "io": {}}
            raw = l["raw"]
            bad = []
            if isinstance(raw["open_files"], dict):
                m3 = bool(out0["opt"]) and raw["open_files"]["type"] == "KeyError"
                bad.append(("open_files:mode3" if m3 else "open_files:raised",
                            "open_files() raised %s for a live process" % raw["open_files"]["raised"]))
            if isinstance(raw["num_fds"], dict):
                bad.append(("num_fds:raised", "num_fds() raised %s" % raw["num_fds"]["raised"]))
            if "raised" in raw["io"]:
                bad.append(("io_counters:raised", "io_counters() raised %s" % raw["io"]["raised"]))
            if not bad:
                bad.append(("open_files:type", "an answer has a field of the wrong type: %r" % (raw,)))
            for tag, msg in bad:
                ctx.disagree("conf:" + tag, "recorded answer (%s): %s  [table %s]"
                             % ("live kernel" if l.get("live") else "random world", msg,
                                json.dumps(l["inp"]["tab"], sort_keys=True)),
                             {"trace_line": {k: v for k, v in l.items()}})
        else:
            good.append(l)
        ctx.case(json.dumps(l["inp"], sort_keys=True))
    d = tlc.scratch()
    tf = os.path.join(d, "trace.ndjson")
    with open(tf, "w") as f:
        for l in good:
            f.write(json.dumps({"inp": l["inp"], "got": l["got"]}) + "\n")
    cfg = os.path.join(d, "t.cfg")
    tlc.write_cfg(cfg, consts("quick"), init="TInit", next_="TNext", invariants=["TWellFormed", "Match"])
    r = tlc.run("ProcFdsTrace", cfg, workers=4, env={"TRACE_FILE": tf}, timeout=900)
    shutil.rmtree(d, ignore_errors=True)
    ctx.tlc("trace-validation", r)
    if r.violated:
        raise core.Machinery("trace validation: %s violated (a logged input is not a descriptor table)\n%s"
                             % (r.violated, r.out[-1500:]))
    if r.distinct != 2 * len(good):
        raise core.Machinery("trace validation judged %d states for %d records" % (r.distinct, len(good)))
    rej = {}
    for tag, rest in r.printed:
        if tag == "REJECTED":
            i = int(rest.split(",")[0])
            raw = graph._STR.findall(rest)[0]
            rej[i] = json.loads(json.loads('"' + raw + '"'))
    for i, out in sorted(rej.items()):
        l = good[i - 1]
        res = py_judge_line(l, out)
        tag = res[0][0] if res else "rejected-by-TLC-only"
        ctx.disagree("conf:" + tag, "TLC rejects a recorded answer (%s): %s\n  table %s\n  code answered %s"
                     % ("live kernel" if l.get("live") else "random world",
                        "; ".join(m for _, m in res[:4]) or "ProcFds!Accept is false",
                        json.dumps(l["inp"]["tab"], sort_keys=True), json.dumps(l["got"], sort_keys=True)),
                     {"trace_line": l})
    ctx.cov["traces_validated_against_impl"] += len(good)
    ctx.cov.setdefault("replay", {})["trace-validation"] = {
        "records": len(lines), "judged_by_TLC": len(good), "rejected": len(rej),
        "live_records": len(live_lines), "classes": dict(sorted(stats.items()))}
    if good:
        l = good[len(good) // 2]
        ctx.sample({"kind": "recorded trace line", "line": {"inp": l["inp"], "got": l["got"]}})
    for l in [l for l in live_lines if l.get("live")][:1]:
        ctx.sample({"kind": "live kernel record (real child process, no simkernel): " + l["label"],
                    "descriptors": len(l["inp"]["tab"]), "answers": l.get("got", l["raw"])})
    return stats


# ---- live kernel: the real code about a real child process -------------------

LIVE_SCRIPT = r'''
import json, os, sys, stat, socket, tempfile, shutil
import psutil
BITS = json.loads(sys.argv[1]); FORCE_LF = sys.argv[2] == "1"
out = {"records": [], "skipped": []}
d = tempfile.mkdtemp(prefix="c14live-", dir="/dev/shm" if os.path.isdir("/dev/shm") else None)

def classify(fd):
    m = os.fstat(fd).st_mode
    return ("pipe" if stat.S_ISFIFO(m) else "socket" if stat.S_ISSOCK(m) else
            "dev" if stat.S_ISCHR(m) or stat.S_ISBLK(m) else "dir" if stat.S_ISDIR(m) else
            "reg" if stat.S_ISREG(m) else "anon")

tab, paths = {}, {}
def other(fd, kind):
    tab[fd] = {"fd": fd, "kind": kind, "acc": 0, "fl": [], "pos": "0", "file": 1, "del": "no", "close": "no"}
for name in os.listdir("/proc/self/fd"):
    try:
        other(int(name), classify(int(name)))
    except OSError:
        pass                       # the descriptor of the listing itself
if any(v["kind"] == "reg" for v in tab.values()):
    out["skipped"].append("an inherited descriptor is a regular file of unknown origin")
    print(json.dumps(out)); sys.exit(0)

def mk(name):
    p = os.path.join(d, name)
    with open(p, "wb") as f:
        f.write(b"x" * 64)
    return p

def opn(path, file, dl, acc, fl, pos):
    word = acc
    for x in fl:
        if x != "CLOEXEC":
            word |= BITS[x]
    fd = os.open(path, word)
    os.set_inheritable(fd, "CLOEXEC" not in fl)
    if acc != 3:
        try:
            pos = os.lseek(fd, pos, os.SEEK_SET)
        except OSError:
            pos = os.lseek(fd, 5, os.SEEK_SET)
    else:
        pos = 0
    fl = sorted(set(fl) | ({"LARGEFILE"} if FORCE_LF else set()))
    tab[fd] = {"fd": fd, "kind": "reg", "acc": acc, "fl": fl, "pos": str(pos), "file": file, "del": dl, "close": "no"}
    return fd

f1 = mk("plain"); paths[f1] = (1, "no")
k = 0
for acc in (0, 1, 2):
    for fl in ([], ["APPEND"], ["CREAT"], ["APPEND", "CLOEXEC"], ["NONBLOCK", "CLOEXEC"], ["CREAT", "APPEND", "DSYNC"]):
        k += 1
        opn(f1, 1, "no", acc, fl, [0, 1, 4096, 2 ** 31, 2 ** 32 + 5, 2 ** 53 + 1, 2 ** 63 - 1][k % 7])
f2 = mk("stale"); paths[f2] = (2, "stale")
fd = opn(f2, 2, "stale", 2, ["APPEND"], 3); os.unlink(f2); mk("stale")
f3 = mk("lit (deleted)"); paths[f3[:-10]] = (3, "literal")
opn(f3, 3, "literal", 1, [], 7)
f4 = mk("both (deleted)"); mk("both"); paths[f4[:-10]] = (4, "both")
opn(f4, 4, "both", 0, ["CLOEXEC"], 9)
f5 = mk("gone"); paths[f5] = (5, "gone")
opn(f5, 5, "gone", 0, [], 11); os.unlink(f5)
r, w = os.pipe(); other(r, "pipe"); other(w, "pipe")
s = socket.socket(); other(s.fileno(), "socket")
dn = os.open("/dev/null", os.O_RDWR); other(dn, "dev")
dd = os.open(d, os.O_RDONLY); other(dd, "dir")
try:
    import select
    ep = select.epoll(); other(ep.fileno(), "anon")
except Exception as e:
    out["skipped"].append("epoll: %r" % e)

def read_io(pid):
    lines = []
    for l in open("/proc/%d/io" % pid, "rb").read().split(b"\n"):
        if l:
            k, v = l.split(b": ")
            lines.append({"t": "kv", "k": k.decode(), "v": v.decode()})
    return lines

def observe(label):
    sr, sw = os.pipe()
    cr, cw = os.pipe()
    t = dict(tab)
    for x in (sr, sw, cr, cw):
        t[x] = {"fd": x, "kind": "pipe", "acc": 0, "fl": [], "pos": "0", "file": 1, "del": "no", "close": "no"}
    pid = os.fork()
    if pid == 0:
        try:
            # some I/O of its own (on the device: offsets of the shared regular files stay put)
            os.write(dn, b"abc" * 50); os.write(dn, b"z"); os.read(dn, 10)
            os.write(cw, b"r")
            os.read(sr, 1)
        finally:
            os._exit(0)
    os.read(cr, 1)
    import time
    time.sleep(0.05)       # let the child block; judged only if the counters are stable (below)
    rec = {"label": label, "inp": {"tab": [t[k] for k in sorted(t)], "io": None}}
    try:
        pr = psutil.Process(pid)
        io0 = read_io(pid)
        raw = {}
        for name, fn in (("num_fds", pr.num_fds), ("open_files", pr.open_files), ("io", pr.io_counters)):
            try:
                raw[name] = fn()
            except BaseException as ex:
                raw[name] = {"raised": repr(ex), "type": type(ex).__name__}
        io1 = read_io(pid)
        rec["inp"]["io"] = io0
        rec["io_stable"] = io0 == io1
        if isinstance(raw["open_files"], list):
            rows = []
            for g in raw["open_files"]:
                p, sfx = g.path, False
                if p not in paths and p.endswith(" (deleted)") and p[:-10] in paths:
                    p, sfx = p[:-10], True
                file, dl = paths.get(p, (0, "?"))
                rows.append({"path": g.path, "fd": g.fd, "position": g.position, "mode": g.mode, "flags": g.flags,
                             "file": file, "del": dl, "sfx": sfx})
            raw["open_files"] = rows
        if not isinstance(raw["io"], dict):
            raw["io"] = {n: getattr(raw["io"], n, None) for n in
                         ("read_count", "write_count", "read_bytes", "write_bytes", "read_chars", "write_chars")}
        rec["raw"] = raw
    finally:
        os.write(sw, b"x")
        os.waitpid(pid, 0)
        for x in (sr, sw, cr, cw):
            os.close(x)
    out["records"].append(rec)

try:
    observe("table without access mode 3")
    try:
        opn(f1, 1, "no", 3, [], 0)
        observe("same table plus a regular file opened with access mode 3")
    except OSError as e:
        out["skipped"].append("open with access mode 3: %r" % e)
finally:
    shutil.rmtree(d, ignore_errors=True)
print(json.dumps(out))
'''


def live_records(ctx, force_lf):
    """Run the real code over the live kernel (no simkernel) in a subprocess."""
    snap = os.environ.get("VERIF_SNAPSHOT")
    env = dict(os.environ)
    env["PYTHONPATH"] = snap or ""
    try:
        p = subprocess.run([sys.executable, "-c", LIVE_SCRIPT, json.dumps(sim_c14.BITS), "1" if force_lf else "0"],
                           env=env, stdin=subprocess.DEVNULL, stdout=subprocess.PIPE, stderr=subprocess.PIPE,
                           timeout=60, cwd="/")
    except subprocess.TimeoutExpired:
        ctx.notes.append("live-kernel driver timed out (skipped)")
        return []
    if p.returncode != 0:
        ctx.notes.append("live-kernel driver could not run (skipped): %s" % p.stderr.decode(errors="replace")[-300:])
        return []
    res = json.loads(p.stdout.decode().strip().splitlines()[-1])
    for s in res["skipped"]:
        ctx.notes.append("live-kernel driver: skipped %s" % s)
    lines = []
    for rec in res["records"]:
        raw = rec["raw"]
        got = {"num_fds": raw["num_fds"], "open_files": raw["open_files"], "io": raw["io"], "fired": {}}
        if not rec["io_stable"]:
            ctx.notes.append("live-kernel driver: the child's io counters moved during the observation; io not judged")
            if "raised" not in raw["io"]:
                names = {"read_count": "syscr", "write_count": "syscw", "read_bytes": "read_bytes",
                         "write_bytes": "write_bytes", "read_chars": "rchar", "write_chars": "wchar"}
                rec["inp"]["io"] = [{"t": "kv", "k": names[f], "v": str(raw["io"][f])} for f in IO_FIELDS]
        line = {"inp": rec["inp"], "live": True, "label": rec["label"], "raw": got}
        of = raw["open_files"]
        if isinstance(of, dict) or isinstance(raw["num_fds"], dict) or "raised" in raw["io"]:
            line["problem"] = "raised"
        elif not (all(row_typed(g) for g in of) and type(raw["num_fds"]) is int
                  and all(type(raw["io"].get(f)) is int for f in IO_FIELDS)):
            line["problem"] = "type"
        else:
            line["got"] = {"num_fds": raw["num_fds"],
                           "rows": [{"fd": g["fd"], "file": g["file"], "del": g["del"], "sfx": g["sfx"],
                                     "pos": str(g["position"]), "mode": g["mode"], "flags": g["flags"]} for g in of],
                           "io": {f: str(raw["io"][f]) for f in IO_FIELDS}}
            # the Python judge (used to name a rejection) thinks in simulated paths
            for g in of:
                g["path"] = path_of(g["file"], g["del"], g["sfx"])
        lines.append(line)
    return lines


def calibrate(ctx):
    try:
        n, bad, skipped = sim_c14.calibrate()
    except OSError as e:
        ctx.cov["calibration"] = {"facts_compared_with_live_kernel": 0, "skipped": ["not possible here: %r" % e]}
        ctx.notes.append("live calibration could not be performed (%r); the static renderer is used" % e)
        return True
    ctx.cov["calibration"] = {"facts_compared_with_live_kernel": n, "skipped": skipped}
    if bad:
        raise core.Machinery("calibration mismatch between simkernel's descriptor rendering and the live kernel: "
                             + "; ".join(bad[:3]))
    if n == 0:
        ctx.notes.append("live calibration could not be performed; the static renderer is used")
    return any("O_LARGEFILE" in s for s in skipped)


# ---- vacuity guards --------------------------------------------------------------

FLAGCLASSES = ["flags:acc0", "flags:acc0+APPEND", "flags:acc1", "flags:acc1+APPEND", "flags:acc2",
               "flags:acc2+APPEND", "flags:acc3"]
REQ_ENUM = (["kind:" + k for k in KINDS] + ["del:" + d for d in DELS] + ["fired:c1", "fired:c2", "fired:c3"]
            + ["junk:" + j for j in JUNK] + FLAGCLASSES + ["flag:" + f for f in FLAG9[:5]]
            + ["io:6-lines", "tables:n=0", "result:ok", "result:empty"])
REQ_RAND = (["kind:" + k for k in KINDS] + ["del:" + d for d in DELS] + ["fired:c1", "fired:c2", "fired:c3"]
            + ["junk:" + j for j in JUNK] + FLAGCLASSES + ["flag:" + f for f in FLAG9] + ["tables:n=14", "result:ok"])


def need(ctx, what, req, stats):
    missing = [k for k in req if not stats.get(k)]
    if not missing:
        return
    if ctx.violations:
        # classes such as 'the descriptor closed before the 3rd access' depend on what the code
        # does; when the code already disagrees the disagreement is the verdict
        ctx.notes.append("%s never exercised %s" % (what, missing))
        return
    core.vacuity("%s never exercised %s" % (what, missing))


def observe(ctx, c):
    cfg = os.path.join(tlc.scratch(), "inputs.cfg")
    tlc.write_cfg(cfg, c, invariants=INVS)
    r = tlc.run("ProcFds", cfg, timeout=1800)
    shutil.rmtree(os.path.dirname(cfg), ignore_errors=True)
    ctx.tlc("inputs", r, {k: (sorted(v, key=str) if isinstance(v, (set, frozenset)) else v) for k, v in c.items()})
    if r.violated:
        evs = tlc.trace_events(r.trace)
        ctx.disagree("model:%s" % r.violated,
                     "TLC: structural property %s of the specification's function is violated\n%s"
                     % (r.violated, "\n".join("%s %s" % x for x in evs)), {"trace": evs})
    rd = tlc.dump_cached("ProcFds", c, view=None, action_constraint="DumpE")
    ctx.tlc("inputs-dump", rd)
    evs = [e for e in functional.events_of(rd) if e.get("op") == "observe"]
    if 2 * len(evs) != r.distinct and not r.violated:
        raise core.Machinery("dump has %d observations, the checked model %d inputs" % (len(evs), r.distinct // 2))
    return evs


def warm(ctx):
    for tier in ("quick", "thorough"):
        rd = tlc.dump_cached("ProcFds", consts(tier), view=None, action_constraint="DumpE")
        functional.events_of(rd)


def replay_one(ctx, path):
    rep = json.load(open(path))["replay"]
    if "case" in rep:
        st, val = forkpool.map_fork(run_chunk, [[tuple(rep["case"])]])[0]
        if st != "ok":
            raise core.Machinery("replay failed: %s" % (val,))
        for idx, tag, text in val["bad"]:
            ctx.disagree("conf:" + tag, "code and specification disagree: %s" % text, rep)
        ctx.case(json.dumps(rep, sort_keys=True))
    elif "trace_line" in rep:
        l = rep["trace_line"]
        if l.get("live"):
            lines = live_records(ctx, calibrate(ctx))
        else:
            st, val = forkpool.map_fork(replay_chunk, [l["inp"]])[0]
            if st != "ok":
                raise core.Machinery("replay failed: %s" % (val,))
            lines = [val]
        trace_validate(ctx, 0, lines)
    else:
        raise core.Machinery("unknown replay file")


def replay_chunk(inp):
    """Forked: rebuild the world of a recorded line and ask the code again."""
    w, ps = template()
    sim_c14.install(w)
    p, st = build_world(w, inp["tab"], inp["io"], int, int)
    got = query(ps, st)
    line = to_line(inp, got)
    line["raw"] = got
    return line


def check(ctx):
    try:
        _check(ctx)
    except core.Machinery:
        raise
    except Exception:  # noqa: BLE001  -- a crash of the driver is broken machinery, never a verdict
        import traceback
        raise core.Machinery("driver crashed:\n" + traceback.format_exc())


def _check(ctx):
    forkpool.start(16, init=template)
    thorough = ctx.tier == "thorough"
    ctx.cov["rule"] = ("cases = abstract descriptor tables (kind x access mode x flag set x offset x ' (deleted)' situation x "
                       "closing point per descriptor) and /proc/<pid>/io contents (counter scale x junk lines) rendered by "
                       "simkernel and asked of num_fds(), open_files(), io_counters(); distinct = distinct (input, scale)")
    ctx.assumptions += [
        "simkernel presents /proc/<pid>/fd/<n> links and fdinfo records as fs/proc/fd.c does ('pos:\\t%lli\\nflags:\\t0%o\\n...'), "
        "compared with the live kernel before every run; O_CREAT/O_TRUNC are not kept in f_flags; O_CLOEXEC is shown from the descriptor's bit",
        "rows are compared as a set keyed by descriptor number (order unspecified); counters by documented field name",
        "access mode 3: any mode string is accepted, only a failing call is reported (statement leaves the string open)",
        "a descriptor whose target carries ' (deleted)' and has no file at either spelling may be listed (either spelling) or left out",
        "' (deleted)' with a file at the stripped path only: listed under the stripped path; with a file of the literal name: under the literal name",
        "a descriptor 'closes during the scan' when its owner closes it right before the 1st, 2nd or 3rd access the scan makes to its "
        "fd/<n> or fdinfo/<n> entry (3rd: fdinfo already opened, read fails with ENOENT as on the live kernel); if the scan never makes "
        "that access the descriptor stayed open and its row is required",
        "io: blank lines, whitespace-only lines and lines without ': ' are the tolerated malformed lines; cancelled_write_bytes may be absent",
        "absolute targets that are not regular files: a character device and a directory; relative targets: socket:[n], pipe:[n], "
        "anon_inode:[eventpoll], '(unreachable)/x/f'",
        "the process stays alive during every call (process death mid-call is property C03)",
    ]
    if ctx.replay_file:
        return replay_one(ctx, ctx.replay_file)
    force_lf = calibrate(ctx)
    live = live_records(ctx, force_lf)
    evs = observe(ctx, consts(ctx.tier))
    rnd = random.Random(ctx.seed)
    cases = []
    for e in evs:
        cases.append((e, SCALES[0]))
        if not e["inp"]["tab"] and (thorough or rnd.random() < 0.5) or thorough and rnd.random() < 0.1:
            cases.append((e, rnd.choice(SCALES[1:])))
    stats = run_cases(ctx, "enumerated-tables", cases)
    need(ctx, "the enumerated input space", REQ_ENUM, stats)
    tstats = trace_validate(ctx, 60000 if thorough else 4000, live)
    need(ctx, "the random driver", REQ_RAND, tstats)


def main(prop, argv):
    core.main_wrapper(check, prop, argv)

"""C09 -- disk/network counters and disk_usage (spec/IoCounters.tla,
spec/IoCountersTrace.tla).

Mode 5: TLC enumerates abstract /proc/net/dev tables, /proc/diskstats listings
(+ /sys/block) and statvfs quadruples and publishes F(input); every pair is
rendered into the simulated kernel and asked of the real public API (both
nowrap=False and a first nowrap=True call).  Mode 4: a seeded driver feeds
larger random tables to the real API and TLC judges the recorded answers."""
import json
import os
import random
import shutil
import traceback
from fractions import Fraction

from harness import core, forkpool, functional, sim_c09, tlc
from harness.tmpl import template

FIXES = set()          # no repaired algorithm variants: the specification is the statement itself
U64 = 2 ** 64 - 1
SCALES = [1, 2 ** 10, 2 ** 31 + 6, 2 ** 53 + 2, "max"]   # "max": largest value becomes ~2^64-1

NET_FIELDS = ("bytes_sent", "bytes_recv", "packets_sent", "packets_recv",
              "errin", "errout", "dropin", "dropout")
DISK_FIELDS = ("read_count", "write_count", "read_bytes", "write_bytes", "read_time",
               "write_time", "read_merged_count", "write_merged_count", "busy_time")
USAGE_FIELDS = ("total", "used", "free", "percent")
NSLOTS = {15: 11, 14: 11, 18: 15, 20: 17, 7: 4}
GENS = ("2.4", "2.6.0", "2.6.25", "4.18", "5.5")
MNT = "/mnt/c09"
NONE = {"none": True}

INVS = ["NetDomain", "NetConservation", "NetIndependent", "NetUnusedIgnored", "NetDistinct",
        "DiskLineLength", "DiskDomain", "DiskNoDoubleCount", "DiskIndependent",
        "DiskLayoutAgnostic", "DiskPartitionLine", "DiskDistinct",
        "UsageParts", "UsagePercentRange", "UsageScaleFree"]


def consts(tier):
    if tier == "thorough":
        return {"Nics": {"lo", "eth0", "eth0:1", "wlp3s0", "br-5f2a", "bond0.100"}, "MaxNics": 6,
                "NetFmts": {"modern", "old"},
                "Disks": {"sda", "sda1", "nvme0n1", "nvme0n1p1", "loop0", "cciss/c0d0", "cciss/c0d0p1",
                          "dm-0", "mmcblk0p1"}, "MaxDevs": 9,
                "Gens": set(GENS), "MaxBlocks": 12, "FrSizes": {1, 4, 8}}
    return {"Nics": {"lo", "eth0", "eth0:1", "wlp3s0", "br-5f2a"}, "MaxNics": 3,
            "NetFmts": {"modern", "old"},
            "Disks": {"sda", "sda1", "nvme0n1", "nvme0n1p1", "loop0", "cciss/c0d0", "cciss/c0d0p1"},
            "MaxDevs": 4, "Gens": set(GENS), "MaxBlocks": 6, "FrSizes": {1, 4}}


# ---------------------------------------------------------------------------
# rendering an abstract input into the simulated kernel, asking the real API
# ---------------------------------------------------------------------------

def _objmap(x):
    """ToJson prints a function with an empty domain as []."""
    return dict(x) if x else {}


def max_value(inp):
    if inp["kind"] == "net":
        return max([max(c) for c in _objmap(inp["tab"]).values()] + [1])
    if inp["kind"] == "disk":
        return max([max(list(d["c"]) + [d["blocks"]]) for d in _objmap(inp["devs"]).values()] + [1])
    return max(inp["blocks"], 1)


def scale_of(S, inp):
    return U64 // max_value(inp) if S == "max" else S


def _call(fn, *a, **k):
    try:
        return None, fn(*a, **k)
    except Exception as ex:  # noqa: BLE001  (an exception of the API is an answer to judge)
        return repr(ex), None


def _ntdict(x, fields):
    """A namedtuple answer as {documented field: value}; None when it is not one."""
    if not isinstance(x, tuple) or not hasattr(x, "_asdict"):
        return None
    d = dict(x._asdict())
    for v in d.values():
        if type(v) is not int:
            return None
    return d


def _order(names, salt):
    names = sorted(names)
    random.Random("%s|%s" % (salt, ",".join(names))).shuffle(names)
    return names


class Asker:
    """Calls one of the two counter functions in its four forms; every
    nowrap=True call is a *first* one (fresh child, or cache_clear() before)."""

    def __init__(self, ps, state):
        self.ps, self.state = ps, state

    def forms(self, api, kw):
        fn = getattr(self.ps, api)
        for nowrap in (False, True):
            for per in (True, False):
                if nowrap:
                    if not self.state.get("virgin_" + api, True):
                        fn.cache_clear()
                    self.state["virgin_" + api] = False
                err, res = _call(fn, **{kw: per, "nowrap": nowrap})
                yield nowrap, per, err, res


def ask_counters(ps, state, api, kw, fields, exp_per, exp_total, total_open, classes, sig_of_key, tag):
    """Compare the four forms of a counters function with the expectation.
    Returns [(signature, text)]."""
    bad = {}
    state.pop("last_per", None)

    def report(sig, text):
        bad.setdefault(sig, text)

    for nowrap, per, err, res in Asker(ps, state).forms(api, kw):
        form = "%s(%s=%s, nowrap=%s)" % (api, kw, per, nowrap)
        # result classes (of the answer the statement demands) that were put to the code
        classes.add("%s:%s:%s" % ((api, kw, "dict" if exp_per else "{}") if per else
                                  (api, "total", "None" if exp_total is None else "tuple")))
        classes.add("%s:nowrap=%s" % (api, nowrap))
        if err is not None:
            report("%s:exception" % api, "%s raised %s" % (form, err))
            continue
        if per:
            if type(res) is not dict:
                report("%s:%s-type" % (api, kw), "%s -> %r, expected a dict with keys %r" % (form, res, sorted(exp_per)))
                continue
            if set(res) != set(exp_per):
                report("%s:%s-keys" % (api, kw), "%s lists %r, the kernel lists %r" % (form, sorted(res), sorted(exp_per)))
            line_bad = set()
            for k in sorted(set(res) & set(exp_per)):
                d = _ntdict(res[k], fields)
                if d != exp_per[k]:
                    line_bad.add(k)
                    report(sig_of_key(k), "%s[%r] -> %r, expected %r" % (form, k, res[k], exp_per[k]))
            state["last_per"] = (res, line_bad)
        else:
            got = None if res is None else _ntdict(res, fields)
            if res is not None and got is None:
                report("%s:total-type" % api, "%s -> %r" % (form, res))
                continue
            ok = (got == exp_total) or (total_open and exp_total is None and got == dict.fromkeys(fields, 0))
            if ok:
                continue
            # attribute: is the total at least the sum of the code's own
            # per-device answers over the devices the statement sums?  Then the
            # aggregation is right and the difference is the per-line defect
            # already reported above.
            last, line_bad = state.get("last_per", ({}, set()))
            summed = tag["summed"]
            own = None
            if summed and all(k in last and _ntdict(last[k], fields) is not None for k in summed):
                own = {f: sum(_ntdict(last[k], fields)[f] for k in summed) for f in fields}
            if own is not None and got == own and (set(summed) & line_bad):
                report(sig_of_key(sorted(set(summed) & line_bad)[0]),
                       "%s -> %r, expected %r (aggregation consistent with the per-device answers)" % (form, res, exp_total))
            else:
                report("%s:total" % api, "%s -> %r, expected %r" % (form, res, exp_total))
    return sorted(bad.items())


def run_net(w, ps, inp, out, S, state, classes):
    tab = _objmap(inp["tab"])
    fmt = inp.get("fmt", "modern")
    table = [(n, [v * S for v in tab[n]]) for n in _order(tab, S)]
    sim_c09.set_netdev(w, table, fmt)
    exp_per = {n: {f: v * S for f, v in d.items()} for n, d in _objmap(out["pernic"]).items()}
    exp_total = None if out["total"] == NONE else {f: v * S for f, v in out["total"].items()}
    classes.add("net:fmt:" + fmt)
    return ask_counters(ps, state, "net_io_counters", "pernic", NET_FIELDS, exp_per, exp_total, False,
                        classes, lambda k: "net_io_counters:pernic", {"summed": sorted(tab)})


def run_disk(w, ps, inp, out, S, state, classes):
    devs = _objmap(inp["devs"])
    sysblock = set(inp["sysblock"])
    listing = [(n, devs[n]["layout"], devs[n]["blocks"] * S, [v * S for v in devs[n]["c"]])
               for n in _order(devs, S)]
    if (len(listing) + int(S)) % 3 == 0:
        # an earlier poll saw the same listing before sysfs knew the disks (hot-plug /
        # early boot): the answer of the call under test depends on the tables NOW
        sim_c09.set_disks(w, listing, set())
        _call(ps.disk_io_counters, perdisk=False, nowrap=False)
        classes.add("disk:earlier-poll-without-sysfs")
    sim_c09.set_disks(w, listing, sysblock)
    exp_per = {n: {f: v * S for f, v in d.items()} for n, d in _objmap(out["perdisk"]).items()}
    exp_total = None if out["total"] == NONE else {f: v * S for f, v in out["total"].items()}
    for d in devs.values():
        classes.add("disk:layout:%d" % d["layout"])
    whole = sorted(set(devs) & sysblock)
    return ask_counters(ps, state, "disk_io_counters", "perdisk", DISK_FIELDS, exp_per, exp_total,
                        bool(devs) and not whole, classes,
                        lambda k: "disk_io_counters:layout%d" % devs[k]["layout"], {"summed": whole})


def percent_ok(x, num, den):
    """The code rounds the percentage to one decimal: |x - num/den| <= 0.05
    (+1e-9 for the binary representation of x); den = 0: any value in range."""
    if type(x) is not float:
        return False
    if den == 0:
        return 0.0 <= x <= 100.0
    return abs(Fraction(x) - Fraction(num, den)) <= Fraction(1, 20) + Fraction(1, 10 ** 9) \
        and abs(x * 10 - round(x * 10)) < 1e-6


def run_usage(w, ps, inp, out, S, state, classes):
    K = 1 if S == 1 else 512
    sim_c09.set_statvfs(w, MNT, inp["blocks"] * S, inp["bfree"] * S, inp["bavail"] * S, inp["frsize"] * K)
    err, r = _call(ps.disk_usage, MNT)
    if err is not None:
        return [("disk_usage:exception", "disk_usage() raised %s for statvfs %r" % (err, inp))]
    bad = []
    if not hasattr(r, "_fields") or set(r._fields) != set(USAGE_FIELDS):
        return [("disk_usage:type", "disk_usage() -> %r" % (r,))]
    for f in ("total", "used", "free"):
        v = getattr(r, f)
        if type(v) is not int or v != out[f] * S * K:
            bad.append(("disk_usage:" + f, "disk_usage().%s -> %r, expected %d  [statvfs blocks=%d bfree=%d bavail=%d frsize=%d]"
                        % (f, v, out[f] * S * K, inp["blocks"] * S, inp["bfree"] * S, inp["bavail"] * S, inp["frsize"] * K)))
    num, den = out["percent"]
    if not percent_ok(r.percent, num, den):
        bad.append(("disk_usage:percent", "disk_usage().percent -> %r, expected %d/%d rounded to one decimal" % (r.percent, num, den)))
    classes.add("usage:" + ("undefined" if den == 0 else "100" if num == 100 * den else "0" if num == 0 else "between"))
    return bad


RUN = {"net": run_net, "disk": run_disk, "usage": run_usage}


def run_chunk(cases):
    """Forked from the template: replay (event, scale) cases."""
    w, ps = template()
    state, classes, bad = {}, set(), []
    for i, (ev, S) in enumerate(cases):
        inp = ev["inp"]
        for sig, text in RUN[inp["kind"]](w, ps, inp, ev["out"], scale_of(S, inp), state, classes):
            bad.append((i, sig, text + "  [scale %s]" % S))
    return {"bad": bad, "classes": sorted(classes)}


def run_cases(ctx, name, cases, chunk=40):
    chunks = [cases[i:i + chunk] for i in range(0, len(cases), chunk)]
    res = forkpool.map_fork(run_chunk, chunks)
    nbad, classes = 0, set()
    for ch, (st, val) in zip(chunks, res):
        if st != "ok":
            raise core.Machinery("case runner failed (%s): %s" % (st, val))
        classes.update(val["classes"])
        for idx, sig, text in val["bad"]:
            nbad += 1
            ctx.disagree("conf:" + sig, "code and specification disagree: %s\ninput: %s"
                         % (text, json.dumps(ch[idx][0]["inp"], sort_keys=True)), {"case": ch[idx]})
        for c in ch:
            ctx.case(json.dumps(c, sort_keys=True, default=str))
    ctx.cov["traces_validated_against_impl"] += len(cases)
    ctx.cov.setdefault("replay", {})[name] = {"cases": len(cases), "disagreements": nbad,
                                              "answer_classes": sorted(classes)}
    return classes


# ---------------------------------------------------------------------------
# vacuity guards
# ---------------------------------------------------------------------------

def input_classes(evs):
    cl = set()
    for e in evs:
        inp, out = e["inp"], e["out"]
        k = inp["kind"]
        if k == "net":
            tab = _objmap(inp["tab"])
            cl.add("net:n=%s" % ("0" if not tab else "1" if len(tab) == 1 else "many"))
            cl.add("net:fmt:" + inp["fmt"])
            for n in tab:
                if ":" in n:
                    cl.add("net:name-with-colon")
                if any(ch.isdigit() for ch in n):
                    cl.add("net:name-with-digit")
            cl.add("net:total:" + ("None" if out["total"] == NONE else "tuple"))
        elif k == "disk":
            devs = _objmap(inp["devs"])
            whole = set(devs) & set(inp["sysblock"])
            parts = set(devs) - whole
            cl.add("disk:gen:" + inp["gen"])
            for n, d in devs.items():
                cl.add("disk:layout:%d" % d["layout"])
                if "/" in n:
                    cl.add("disk:name-with-slash")
            cl.add("disk:mix:%s" % ("empty" if not devs else "disks-only" if not parts else
                                    "partitions-only" if not whole else "disks+partitions"))
            cl.add("disk:total:" + ("None" if out["total"] == NONE else "tuple"))
        else:
            num, den = out["percent"]
            cl.add("usage:" + ("undefined" if den == 0 else "100" if num == 100 * den else "0" if num == 0 else "between"))
            if inp["bavail"] < inp["bfree"]:
                cl.add("usage:reserved-blocks")
    return cl


REQUIRED_INPUT = {
    "net:n=0", "net:n=1", "net:n=many", "net:fmt:modern", "net:fmt:old", "net:name-with-colon",
    "net:name-with-digit", "net:total:None", "net:total:tuple",
    "disk:layout:15", "disk:layout:14", "disk:layout:18", "disk:layout:20", "disk:layout:7",
    "disk:name-with-slash", "disk:mix:empty", "disk:mix:disks-only", "disk:mix:partitions-only",
    "disk:mix:disks+partitions", "disk:total:None", "disk:total:tuple",
    "usage:undefined", "usage:100", "usage:0", "usage:between", "usage:reserved-blocks",
} | {"disk:gen:" + g for g in GENS}

REQUIRED_ANSWER = {
    "net_io_counters:pernic:{}", "net_io_counters:pernic:dict", "net_io_counters:total:None",
    "net_io_counters:total:tuple", "disk_io_counters:perdisk:{}", "disk_io_counters:perdisk:dict",
    "disk_io_counters:total:None", "disk_io_counters:total:tuple",
    "net:fmt:modern", "net:fmt:old", "usage:undefined", "usage:100", "usage:0", "usage:between",
    "net_io_counters:nowrap=False", "net_io_counters:nowrap=True",
    "disk_io_counters:nowrap=False", "disk_io_counters:nowrap=True",
} | {"disk:layout:%d" % l for l in NSLOTS}


def need(what, required, seen):
    if required - seen:
        core.vacuity("%s never exercised: %s" % (what, sorted(required - seen)))


# ---------------------------------------------------------------------------
# mode 4: random larger tables through the code, judged by TLC
# ---------------------------------------------------------------------------

NIC_POOL = ["lo", "eth0", "eth1", "eth0:1", "eth0:12", "wlan0", "wlp0s20f3", "enp0s31f6", "br-0a1b2c3d4e5f",
            "veth1a2b3c4", "docker0", "tun0", "bond0.100", "a", "abcdefghijklmno", "vlan:12:3", "ppp0", "sit0"]
# whole disk -> its partitions
DISK_POOL = {"sda": ["sda1", "sda2", "sda15"], "sdb": [], "sdaa": ["sdaa1"], "nvme0n1": ["nvme0n1p1", "nvme0n1p2"],
             "nvme1n1": [], "mmcblk0": ["mmcblk0p1", "mmcblk0boot0"], "loop0": [], "loop17": [], "ram0": [],
             "dm-0": [], "md127": ["md127p1"], "sr0": [], "zram0": [], "cciss/c0d0": ["cciss/c0d0p1", "cciss/c0d0p2"],
             "vda": ["vda1"], "xvda": ["xvda1", "xvda2"], "nbd0": ["nbd0p1"], "hda": ["hda1"]}
VMAX = 100000


def _rv(rnd):
    r = rnd.random()
    if r < 0.1:
        return 0
    if r < 0.2:
        return rnd.randrange(0, 10)
    if r < 0.25:
        return VMAX
    return rnd.randrange(0, VMAX + 1)


def rand_input(rnd):
    kind = rnd.choice(["net", "net", "disk", "disk", "disk", "usage"])
    if kind == "net":
        names = rnd.sample(NIC_POOL, rnd.choice([0, 1, 2, 3, 5, 8, 12]))
        return {"kind": "net", "fmt": rnd.choice(["modern", "old"]),
                "tab": {n: [_rv(rnd) for _ in range(16)] for n in names}}
    if kind == "disk":
        gen = rnd.choice(GENS)
        whole = rnd.sample(sorted(DISK_POOL), rnd.choice([0, 0, 1, 2, 3, 5]))
        parts = [p for d in sorted(DISK_POOL) for p in DISK_POOL[d]]
        mode = rnd.random()
        if mode < 0.6:      # partitions of the listed disks (what a kernel lists), some left out
            chosen = [p for d in whole for p in DISK_POOL[d] if rnd.random() < 0.8]
        else:               # any mix, also partitions whose disk is not listed
            chosen = rnd.sample(parts, rnd.choice([0, 1, 2, 4]))
        devs = {}
        for n in whole + [p for p in chosen]:
            ispart = n not in DISK_POOL
            lay = {"2.4": 15, "2.6.0": 7 if ispart else 14, "2.6.25": 14, "4.18": 18, "5.5": 20}[gen]
            devs[n] = {"layout": lay, "blocks": _rv(rnd), "c": [_rv(rnd) for _ in range(NSLOTS[lay])]}
        # /sys/block lists every whole disk of the machine, listed in diskstats or not
        extra = [d for d in sorted(DISK_POOL) if d not in whole and rnd.random() < (0.1 if whole else 0.4)]
        return {"kind": "disk", "gen": gen, "devs": devs, "sysblock": sorted(whole + extra)}
    b = rnd.choice([0, 1, 7, rnd.randrange(0, VMAX + 1), VMAX])
    f = rnd.choice([0, b, rnd.randrange(0, b + 1)])
    a = rnd.choice([0, f, rnd.randrange(0, f + 1), f - f // 20])
    return {"kind": "usage", "blocks": b, "bfree": f, "bavail": a, "frsize": rnd.choice([1, 2, 4, 8])}


def _unscale(v, S):
    return v // S if type(v) is int and v % S == 0 and v // S < 2 ** 31 else -1


def _rec(res, fields, S):
    d = _ntdict(res, fields)
    if d is None or set(d) != set(fields):
        return {"malformed": True}
    return {f: _unscale(v, S) for f, v in d.items()}


def record(w, ps, inp, S, state):
    """Render *inp* (scaled by S), ask the real API, return the answer in the
    shape of IoCountersTrace's `got` (integers divided by the scale again)."""
    kind = inp["kind"]
    if kind == "usage":
        K = 1 if S == 1 else 512
        sim_c09.set_statvfs(w, MNT, inp["blocks"] * S, inp["bfree"] * S, inp["bavail"] * S, inp["frsize"] * K)
        err, r = _call(ps.disk_usage, MNT)
        if err is not None:
            return None, err
        p10 = round(r.percent * 10) if type(r.percent) is float and abs(r.percent * 10 - round(r.percent * 10)) < 1e-6 else -1
        return {"total": _unscale(r.total, S * K), "used": _unscale(r.used, S * K),
                "free": _unscale(r.free, S * K), "p10": p10}, None
    if kind == "net":
        tab = inp["tab"]
        sim_c09.set_netdev(w, [(n, [v * S for v in tab[n]]) for n in _order(tab, S)], inp["fmt"])
        api, kw, fields, key = "net_io_counters", "pernic", NET_FIELDS, "pernic"
    else:
        devs = inp["devs"]
        sim_c09.set_disks(w, [(n, devs[n]["layout"], devs[n]["blocks"] * S, [v * S for v in devs[n]["c"]])
                              for n in _order(devs, S)], inp["sysblock"])
        api, kw, fields, key = "disk_io_counters", "perdisk", DISK_FIELDS, "perdisk"
    got = {}
    for nowrap, per, err, res in Asker(ps, state).forms(api, kw):
        if err is not None:
            return None, "%s(%s=%s, nowrap=%s) raised %s" % (api, kw, per, nowrap, err)
        if per:
            name = "per"
            ans = {k: _rec(v, fields, S) for k, v in res.items()} if type(res) is dict else {"malformed": {"malformed": True}}
        else:
            name = "total"
            ans = NONE if res is None else _rec(res, fields, S)
        # the first nowrap=True call must repeat the raw answer
        if got.setdefault(name, ans) != ans:
            return None, "%s(%s=%s): nowrap=True answered %r, nowrap=False %r" % (api, kw, per, ans, got[name])
    return {key: got["per"], "total": got["total"]}, None


def rand_chunk(job):
    seed, n = job
    w, ps = template()
    rnd = random.Random(seed)
    state, lines = {}, []
    for _ in range(n):
        inp = rand_input(rnd)
        S = scale_of(rnd.choice(SCALES), inp)
        S = min(S, U64 // max_value(inp))
        got, err = record(w, ps, inp, S, state)
        if err is not None:
            lines.append({"inp": inp, "scale": S, "error": err})
        else:
            lines.append({"inp": inp, "scale": S, "got": got})
    return lines


def trace_sig(l):
    inp = l["inp"]
    if inp["kind"] == "disk":
        lays = sorted({d["layout"] for d in inp["devs"].values()})
        if 15 in lays:
            return "trace:disk_io_counters:layout15"
        return "trace:disk_io_counters"
    return "trace:net_io_counters" if inp["kind"] == "net" else "trace:disk_usage"


def judge(ctx, lines, name="trace-validation"):
    """TLC evaluates F on every recorded input and compares with the recorded
    answer; returns the 1-based indices of the rejected records."""
    lines = list(lines)
    # canaries (independent of the code): a synthetic record with the right
    # answer must be accepted and one with errin/dropin swapped must be
    # rejected, otherwise the binding between answers and specification is broken
    cols = list(range(1, 17))
    right = dict(zip(NET_FIELDS, (9, 1, 10, 2, 3, 11, 4, 12)))
    wrong = dict(right, errin=4, dropin=3)
    n_real = len(lines)
    for g in (right, wrong):
        lines.append({"inp": {"kind": "net", "fmt": "modern", "tab": {"eth0:1": cols}},
                      "got": {"pernic": {"eth0:1": g}, "total": g}})
    d = tlc.scratch()
    tf = os.path.join(d, "trace.ndjson")
    with open(tf, "w") as f:
        for l in lines:
            f.write(json.dumps({"inp": l["inp"], "got": l["got"]}) + "\n")
    cfg = os.path.join(d, "t.cfg")
    tlc.write_cfg(cfg, consts("quick"), init="TInit", next_="TNext", invariants=["Match", "TraceInvariants"])
    r = tlc.run("IoCountersTrace", cfg, workers=4, env={"TRACE_FILE": tf}, timeout=900)
    ctx.tlc(name, r)
    shutil.rmtree(d, ignore_errors=True)
    if r.violated:
        raise core.Machinery("trace validation: TLC reports %s on a recorded input (structural invariant of the specification)" % r.violated)
    if r.distinct != 2 * len(lines):
        raise core.Machinery("trace validation consumed %d of %d records" % (r.distinct // 2, len(lines)))
    rej = sorted({int(p[1].strip()) for p in r.printed if p[0] == "REJECTED"})
    if n_real + 1 in rej or n_real + 2 not in rej:
        raise core.Machinery("trace validation misjudged the canary records (rejected: %r)" % [i for i in rej if i > n_real])
    rej = [i for i in rej if i <= n_real]
    return rej


def trace_validate(ctx, n):
    jobs = [(ctx.seed * 1000 + i, n // 16 + 1) for i in range(16)]
    res = forkpool.map_fork(rand_chunk, jobs)
    lines = []
    for st, val in res:
        if st != "ok":
            raise core.Machinery("trace driver failed: %s" % (val,))
        lines.extend(val)
    for l in [l for l in lines if "error" in l][:3]:
        ctx.disagree(trace_sig(l) + ":exception", "the API failed on a kernel-formatted table: %s (input %s)"
                     % (l["error"], json.dumps(l["inp"], sort_keys=True)), l)
    need("random inputs of kind", {"net", "disk", "usage"}, {l["inp"]["kind"] for l in lines})
    need("random diskstats layouts", set(NSLOTS),
         {d["layout"] for l in lines if l["inp"]["kind"] == "disk" for d in l["inp"]["devs"].values()})
    nerr = sum(1 for l in lines if "error" in l)
    lines = [l for l in lines if "got" in l]
    rej = judge(ctx, lines)
    seen = {}
    for i in rej:
        l = lines[i - 1]
        seen.setdefault(trace_sig(l), []).append(l)
    for sig, ls in sorted(seen.items()):
        l = min(ls, key=lambda x: len(json.dumps(x)))
        ctx.disagree(sig, "TLC rejects a recorded answer (%d such records): input %s, scale %d, code answered %s"
                     % (len(ls), json.dumps(l["inp"], sort_keys=True), l["scale"], json.dumps(l["got"], sort_keys=True)), l)
    for l in lines:
        ctx.case(json.dumps(l["inp"], sort_keys=True))
    ctx.cov["traces_validated_against_impl"] += len(lines)
    ctx.cov.setdefault("replay", {})["trace-validation"] = {
        "records": len(lines), "rejected": len(rej), "api_raised": nerr, "canary_rejected": True,
        "by_kind": {k: sum(1 for l in lines if l["inp"]["kind"] == k) for k in ("net", "disk", "usage")}}
    if lines:
        ctx.sample({"kind": "recorded trace line", "line": lines[len(lines) // 3]})


# ---------------------------------------------------------------------------

def warm(ctx):
    for tier in ("quick", "thorough"):
        rd = tlc.dump_cached("IoCounters", consts(tier), view=None)
        functional.events_of(rd)


def record_again(item):
    w, ps = template()
    return record(w, ps, item["inp"], item["scale"], {})


def replay_one(ctx, path):
    case = json.load(open(path))["replay"]
    if "case" in case:
        st, val = forkpool.map_fork(run_chunk, [[tuple(case["case"])]])[0]
        if st != "ok":
            raise core.Machinery("replay failed: %s" % (val,))
        for idx, sig, text in val["bad"]:
            ctx.disagree("conf:" + sig, text, case)
        ctx.case(json.dumps(case, sort_keys=True))
    else:
        l = case
        st, val = forkpool.map_fork(record_again, [l])[0]
        if st != "ok":
            raise core.Machinery("replay failed: %s" % (val,))
        got, err = val
        if err is not None:
            ctx.disagree(trace_sig(l) + ":exception", "the API failed on a kernel-formatted table: %s" % err, l)
        elif judge(ctx, [{"inp": l["inp"], "got": got}], "replay"):
            ctx.disagree(trace_sig(l), "TLC rejects the recorded answer: input %s, scale %d, code answered %s"
                         % (json.dumps(l["inp"], sort_keys=True), l["scale"], json.dumps(got, sort_keys=True)), l)
        ctx.case(json.dumps(l["inp"], sort_keys=True))


def check(ctx):
    forkpool.start(16, init=template)
    thorough = ctx.tier == "thorough"
    ctx.cov["rule"] = ("cases = abstract /proc/net/dev tables (interfaces x line format), /proc/diskstats listings "
                       "(devices x kernel generation, + /sys/block) and statvfs quadruples, each x counter scale, rendered "
                       "by simkernel and asked of net_io_counters/disk_io_counters (per-device and system-wide, nowrap False "
                       "and first nowrap True) and disk_usage; distinct = distinct (input, scale)")
    ctx.assumptions += [
        "simkernel renders /proc/net/dev as net/core/net-procfs.c ('%6s: %7llu ...') or as Linux 2.x ('%6s:%8lu ...', no blank after the colon), "
        "diskstats as 'major minor name counters' (14/18/20/7 fields) or 'major minor #blocks name counters' (15 fields, Linux 2.4); "
        "a whole disk is a name with a /sys/block/<name> entry ('/' spelled '!')",
        "lines of one listing follow one kernel generation: 2.4 (15 fields), 2.6.0 (disks 14, partitions 7), 2.6.25 (14), 4.18 (18), 5.5 (20)",
        "a counter the line layout lacks (7-field partition line) is reported as 0",
        "when only partitions are listed (no whole disk) the system-wide disk form may be None or all zeros: the statement leaves it open",
        "a 'first' nowrap=True call is the first call in a fresh process or the first after the public cache_clear()",
        "disk_usage().percent is compared with the exact rational up to the documented rounding to one decimal; with used+free = 0 any value in [0,100] is accepted",
        "statvfs results satisfy 0 <= f_bavail <= f_bfree <= f_blocks",
        "dict answers are compared as maps (order unspecified); namedtuples by documented field name",
    ]
    if ctx.replay_file:
        return replay_one(ctx, ctx.replay_file)
    c = consts(ctx.tier)
    evs = [e for e in functional.observe(ctx, "IoCounters", "inputs", c, invariants=INVS) if e.get("op") == "observe"]
    need("input class", REQUIRED_INPUT, input_classes(evs))
    rnd = random.Random(ctx.seed)
    cases = []
    for e in evs:
        cases.append((e, 1))
        # idle devices: every counter 0 (a freshly booted guest) -- listed all the same
        if e["inp"]["kind"] in ("net", "disk") and (thorough or rnd.random() < 0.25):
            cases.append((e, 0))
        if thorough:
            cases += [(e, s) for s in SCALES[1:]]
        elif rnd.random() < 0.5:
            cases.append((e, rnd.choice(SCALES[1:])))
    # every kind meets the extreme scale also in the quick tier
    for k in ("net", "disk", "usage"):
        big = [e for e in evs if e["inp"]["kind"] == k]
        cases.append((big[len(big) // 2], "max"))
    classes = run_cases(ctx, "enumerated-tables", cases)
    need("answer class", REQUIRED_ANSWER, classes)
    for k in ("net", "disk", "usage"):
        ks = [cs for cs in cases if cs[0]["inp"]["kind"] == k]
        ctx.sample({"kind": "enumerated " + k, "case": ks[len(ks) // 2]})
    trace_validate(ctx, 60000 if thorough else 4000)
    check_big(ctx, thorough)


def big_chunk(job):
    """Listings longer than any buffer a reader may size its reads by (32 KiB and up): every device
    is still there and the totals are the sums.  (The per-device mapping is what the other stages
    decide; here the subject is completeness.)"""
    w, ps = template()
    n = job
    bad = []
    # 20-field diskstats lines (5.5 layout), whole disks only
    devs = [("dm-%d" % i, 20, 0, [1000 + i] + [i % 7] * 16) for i in range(n)]
    sim_c09.set_disks(w, devs, [d[0] for d in devs])
    per = ps.disk_io_counters(perdisk=True, nowrap=False)
    if sorted(per) != sorted(d[0] for d in devs):
        bad.append("disk_io_counters(perdisk=True) lists %d of %d devices" % (len(per), n))
    else:
        wrong = [k for k, v in per.items() if v.read_count != 1000 + int(k[3:])]
        if wrong:
            bad.append("read_count of %d devices differs from its line (first: %s)" % (len(wrong), wrong[0]))
        tot = ps.disk_io_counters(perdisk=False, nowrap=False)
        if tot.read_count != sum(1000 + i for i in range(n)):
            bad.append("system-wide read_count %r, sum over the %d disks %r" % (tot.read_count, n, sum(1000 + i for i in range(n))))
    table = {"veth%07x" % i: [5000 + i] + [i % 5] * 15 for i in range(n)}
    sim_c09.set_netdev(w, list(table.items()), "modern")
    per = ps.net_io_counters(pernic=True, nowrap=False)
    if sorted(per) != sorted(table):
        bad.append("net_io_counters(pernic=True) lists %d of %d interfaces" % (len(per), n))
    else:
        tot = ps.net_io_counters(pernic=False, nowrap=False)
        if tot.bytes_recv != sum(5000 + i for i in range(n)):
            bad.append("system-wide bytes_recv %r, sum over the %d interfaces %r" % (tot.bytes_recv, n, sum(5000 + i for i in range(n))))
    return bad


def check_big(ctx, thorough):
    sizes = [700, 2500, 9000] if thorough else [700, 2500]
    for n, (st, val) in zip(sizes, forkpool.map_fork(big_chunk, sizes)):
        if st != "ok":
            raise core.Machinery("big-listing runner failed: %s" % (val,))
        ctx.case(("big-listing", n))
        for m in val:
            ctx.disagree("conf:big-listing:" + m.split("(")[0].split(" ")[0], "%s  [%d devices / interfaces]" % (m, n), {"n": n})
    ctx.cov.setdefault("replay", {})["big-listings"] = {"sizes": sizes}


def main(prop, argv):
    core.main_wrapper(check, prop, argv)

"""C12 -- cmdline/environ/exe/cwd and the extended name() decode what the
kernel exposes (spec/ProcText.tla, spec/ProcTextTrace.tla).

Mode 5: TLC enumerates raw cmdline records, environment blocks, link targets
(+ the files they name), (comm, cmdline) pairs and exe() call plans; every
observed <input, allowed answers> pair is replayed into the real public API
over simkernel.  The exe() plans are runs of a small memo machine whose steps
may be non-deterministic (the statement is silent about a denied link), so
they are replayed as an NFA: the set of memos compatible with the answers
seen so far must never become empty.
Mode 4: a seeded driver feeds larger random inputs to the real code; TLC
judges the recorded answers with the same functions."""
import errno
import json
import os
import random
import shutil

from harness import core, forkpool, functional, tlc
from harness.tmpl import template

PID = 77
ALL_KINDS = {"cmdline", "environ", "link", "name", "exe"}
NUL, SP, CR = 0, 32, 13
DEL = b" (deleted)"

INVS = ["CmdConserves", "CmdArgvRoundTrip", "CmdTotal", "EnvWellFormed", "EnvFoldAgrees",
        "EnvGarbageIgnored", "EnvValueKeepsEquals", "LinkShape", "NameShape", "ExeDeterminedWhenStated"]
PROPS = ["ExeSticky", "ExeErrorsNotRemembered", "ExeRemembersItsAnswer"]

# every class of the specification's own classification must be replayed
REQUIRED_ENUM = {
    "cmd:empty", "cmd:zombie", "cmd:argv", "cmd:argv-empty-arg", "cmd:argv-with-space",
    "cmd:title", "cmd:title-nul-terminated", "cmd:title-trailing-space", "cmd:open-nul-inside-unterminated",
    "env:empty-block", "env:plain", "env:duplicate", "env:equals-in-value", "env:entry-without-name-or-equals",
    "env:garbage-after-empty-entry", "env:unterminated-tail", "env:leading-empty-entry",
    "link:plain", "link:deleted", "link:deleted-suffix-is-real-name", "link:nul-garbage", "link:nul+deleted",
    "link:nul+deleted-exists", "link:withheld", "link:zombie",
    "name:short", "name:short-multibyte", "name:15-same", "name:15-extended", "name:15-extended-multibyte",
    "name:15-other", "name:15-no-cmdline", "name:15-cmdline-AccessDenied", "name:15-cmdline-ZombieProcess",
    "exe:ok:fresh", "exe:ok:remembered", "exe:withheld:fresh:guess", "exe:withheld:fresh:noguess",
    "exe:withheld:remembered", "exe:denied:fresh:guess", "exe:denied:fresh:noguess", "exe:denied:remembered",
    "exe:zombie:fresh", "exe:zombie:remembered",
}
REQUIRED_TRACE = {
    "cmd:empty", "cmd:zombie", "cmd:argv", "cmd:argv-empty-arg", "cmd:argv-with-space", "cmd:title",
    "cmd:title-nul-terminated", "cmd:title-trailing-space",
    "env:plain", "env:duplicate", "env:equals-in-value", "env:entry-without-name-or-equals",
    "env:garbage-after-empty-entry", "env:unterminated-tail",
    "link:plain", "link:deleted", "link:deleted-suffix-is-real-name", "link:nul-garbage", "link:nul+deleted",
    "link:withheld", "link:zombie",
    "name:short", "name:15-same", "name:15-extended", "name:15-other", "name:15-no-cmdline",
    "name:15-cmdline-AccessDenied", "name:15-cmdline-ZombieProcess",
    "exe:ok:fresh", "exe:ok:remembered", "exe:withheld:fresh:guess", "exe:withheld:fresh:noguess",
    "exe:withheld:remembered", "exe:denied:fresh:guess", "exe:denied:fresh:noguess", "exe:zombie:fresh",
}
# result classes the real code must have produced during the replay
# (only classes the statement guarantees)
REQUIRED_RESULTS = {"cmdline:list", "cmdline:ZombieProcess", "environ:dict", "exe:str", "exe:empty",
                    "cwd:str", "cwd:empty", "name:str"}


def consts(tier, kinds=ALL_KINDS):
    th = tier == "thorough"
    return {"Kinds": set(kinds),
            "CmdAlphabet": {97, 98, SP, NUL, 255, CR}, "CmdMaxLen": 6 if th else 4,
            "EnvAlphabet": {65, 61, 120, NUL}, "EnvMaxLen": 8 if th else 6,
            "EnvMaxEntries": 4 if th else 3,
            "LinkMaxTok": 4 if th else 2,
            "CommLens": {1, 13, 14, 15} if th else {14, 15},
            "CommFills": {"ascii", "mb", "mbcut"},
            "MaxCalls": 4 if th else 3}


# ---- abstract record -> simulated kernel -------------------------------------

def sdec(bs):
    """bytes of the kernel -> the str the os layer hands out."""
    return os.fsdecode(bytes(bs))


def reset_world(w):
    for p in list(w.procs):
        if p != w.caller_pid:
            del w.procs[p]
    w.files = {}
    w.links = {}
    w.dirs = set(["/", "/proc", "/sys", "/dev"])
    w.exec_files = set()
    w.deny = {}


def put_files(w, files):
    for f in files:
        path = sdec(f["path"])
        if f["type"] == "d":
            w.dirs.add(path)
        else:
            w.files[path] = b"\x7fELF"
            if f["type"] == "x":
                w.exec_files.add(path)


def set_phase(p, which, ph):
    """One kernel phase of the exe / cwd link."""
    p.deny.pop(which, None)
    p.state = "S"
    if ph["st"] == "ok":
        setattr(p, which, sdec(ph["target"]))
    elif ph["st"] == "withheld":
        setattr(p, which, None)
    elif ph["st"] == "denied":
        setattr(p, which, "/nowhere")
        p.deny[which] = errno.EACCES
    elif ph["st"] == "zombie":
        p.state = "Z"
    else:
        raise core.Machinery("unknown phase %r" % (ph,))


def set_cmd(p, state, raw):
    p.cmdline = bytes(raw)
    if state == "denied":
        p.deny["cmdline"] = errno.EACCES
    elif state == "zombie":
        p.state = "Z"
    elif state != "ok":
        raise core.Machinery("unknown cmdline state %r" % (state,))


def build_world(w, inp):
    reset_world(w)
    kind = inp["kind"]
    # (a name that imitates the tail of a stat record: "...) S (" for zombies, "...) Z (" for the living)
    comm = bytes(inp["comm"]) if kind == "name" else (b"j) S (x" if json.dumps(inp, sort_keys=True).count("1") % 2 else b"a) Z (b")
    p = w.spawn(PID, comm=comm, state="S", ppid=4, start=2200)
    p.exe, p.cwd = "/bin/other", "/other"
    p.cmdline, p.environ = b"", b""
    if kind == "cmdline":
        p.cmdline = bytes(inp["raw"])
        if inp["zombie"]:
            p.state = "Z"
    elif kind == "environ":
        p.environ = bytes(inp["block"])
    elif kind == "link":
        put_files(w, inp["files"])
        set_phase(p, inp["which"], inp["ph"])
        # a stale ' (deleted)' name may fail to stat() in other ways than ENOENT: a parent component
        # replaced by a file (ENOTDIR), a name that is too long once the suffix is appended (ENAMETOOLONG)
        if inp["ph"]["st"] == "ok":
            tgt = sdec(inp["ph"]["target"]).split("\0")[0]
            if tgt.endswith(" (deleted)") and tgt not in w.files and tgt not in w.dirs:
                n = len(json.dumps(inp, sort_keys=True))
                if n % 3:
                    w.deny[tgt] = (errno.ENOTDIR, errno.ENAMETOOLONG)[n % 3 - 1]
    elif kind == "name":
        set_cmd(p, inp["cmdstate"], inp["raw"])
    elif kind == "exe":
        put_files(w, inp["files"])
        set_cmd(p, inp["cmdstate"], inp["raw"])
    else:
        raise core.Machinery("unknown input kind %r" % kind)
    return p


# ---- the real code's answer, shaped like the specification's results ---------

def benc(s):
    if not isinstance(s, str):
        raise TypeError("expected str, got %r" % (s,))
    return list(os.fsencode(s))


def conv_list(v):
    if not isinstance(v, list):
        raise TypeError("cmdline() returned %r" % (v,))
    return [benc(a) for a in v]


def conv_env(v):
    if not isinstance(v, dict):
        raise TypeError("environ() returned %r" % (v,))
    # entries whose name is empty / starts with '=' are left unspecified
    return sorted([benc(k), benc(x)] for k, x in v.items() if k and not k.startswith("="))


def call(ps, fn, conv):
    try:
        v = fn()
    except ps.ZombieProcess:
        return {"exc": "ZombieProcess", "val": []}
    except ps.NoSuchProcess:
        return {"exc": "NoSuchProcess", "val": []}
    except ps.AccessDenied:
        return {"exc": "AccessDenied", "val": []}
    return {"exc": "", "val": conv(v)}


def query(ps, inp, pr=None):
    """Functional kinds: one call on a fresh Process object (or on *pr*)."""
    pr = pr or ps.Process(PID)
    kind = inp["kind"]
    if kind == "cmdline":
        return call(ps, pr.cmdline, conv_list)
    if kind == "environ":
        return call(ps, pr.environ, conv_env)
    if kind == "link":
        return call(ps, pr.exe if inp["which"] == "exe" else pr.cwd, benc)
    if kind == "name":
        return call(ps, pr.name, benc)
    raise core.Machinery("query of kind %r" % kind)


def query_exe(ps, p, inp):
    """One exe() call per phase of the plan, all on the same Process object."""
    pr = ps.Process(PID)
    out = []
    for ph in inp["plan"]:
        set_phase(p, "exe", ph)
        out.append(call(ps, pr.exe, benc))
    return out


def canon(res, kind):
    """Hashable canonical form of a result record."""
    v = res["val"]
    if kind == "environ":
        v = sorted(v)
    return json.dumps([res["exc"], v])


def show(res, kind=None):
    def b(x):
        return bytes(x)
    if res["exc"]:
        return res["exc"]
    v = res["val"]
    if kind == "environ":
        return repr({b(k): b(x) for k, x in v})
    if kind == "cmdline":
        return repr([b(a) for a in v])
    return repr(b(v))


def result_class(inp, res):
    kind = inp["kind"]
    api = inp["which"] if kind == "link" else kind
    if res["exc"]:
        return "%s:%s" % (api, res["exc"])
    if kind == "cmdline":
        return "cmdline:list"
    if kind == "environ":
        return "environ:dict"
    if kind == "name":
        return "name:str"
    return "%s:%s" % (api, "str" if res["val"] else "empty")


def signature(cls, got, out, kind):
    """The specification names one cause itself: the answer is the one the
    record would have after universal-newline translation (out.nl)."""
    if canon(got, kind) in {canon(a, kind) for a in out.get("nl", ())}:
        return "newline-translation"
    return cls


# ---- mode 5 replay -------------------------------------------------------------

def exe_rem(memos):
    sets = [json.loads(m)["set"] for m in memos]
    return "remembered" if all(sets) else "fresh" if not any(sets) else "either"


def run_chunk(cases):
    """Forked child of the template.  Returns (mismatches, result classes)."""
    w, ps = template()
    bad, seen = [], set()
    held = None
    for i, c in enumerate(cases):
        inp = c["inp"]
        kind = inp["kind"]
        try:
            p = build_world(w, inp)
            if kind != "exe":
                got = query(ps, inp)
                seen.add(result_class(inp, got))
                out = c["out"]
                if out["open"]:
                    continue
                allowed = {canon(a, kind) for a in out["allowed"]}
                if canon(got, kind) not in allowed:
                    bad.append((i, "%s| %s() -> %s, the specification allows %s  [class %s, input %s]" % (
                        signature(out["cls"], got, out, kind),
                        inp["which"] if kind == "link" else kind, show(got, kind),
                        " or ".join(show(a, kind) for a in out["allowed"]), out["cls"], json.dumps(inp))))
                if kind == "name":
                    # the object that answered the previous name() case is asked again: the
                    # process (same PID, same start) has meanwhile exec'ed into this case's program
                    if held is not None:
                        got2 = query(ps, inp, held)
                        if canon(got2, kind) not in allowed:
                            bad.append((i, "%s:same-object-after-exec| name() -> %s on an object that had answered for the "
                                           "program the process ran before, the specification allows %s  [input %s]" % (
                                               signature(out["cls"], got2, out, kind), show(got2, kind),
                                               " or ".join(show(a, kind) for a in out["allowed"]), json.dumps(inp))))
                    held = ps.Process(PID)
                    held.name()
                if kind == "cmdline" and inp["zombie"]:
                    # the same zombie, but it died inside a oneshot() block that had
                    # already looked at it alive
                    p.state = "S"
                    pr = ps.Process(PID)
                    with pr.oneshot():
                        pr.status()
                        pr.name()
                        p.state = "Z"
                        got2 = call(ps, pr.cmdline, conv_list)
                    if canon(got2, kind) not in allowed:
                        bad.append((i, "%s:died-inside-oneshot| cmdline() -> %s for a process that became a zombie inside the "
                                       "oneshot() block, the specification allows %s  [input %s]" % (
                                           signature(out["cls"], got2, out, kind), show(got2, kind),
                                           " or ".join(show(a, kind) for a in out["allowed"]), json.dumps(inp))))
                continue
            gots = query_exe(ps, p, inp)
            memos = {json.dumps(c["start"], sort_keys=True)}
            for k, got in enumerate(gots, 1):
                seen.add(result_class(inp, got))
                steps = c["steps"][str(k)]
                live = [s for s in steps if json.dumps(s["pre"], sort_keys=True) in memos]
                nxt = {json.dumps(s["post"], sort_keys=True) for s in live if canon(s["res"], kind) == canon(got, kind)}
                if not nxt:
                    cls = sorted(s["cls"] for s in live)[0]
                    bad.append((i, "%s| exe() call %d (kernel phase %s) -> %s, the specification allows %s; earlier answers %s  "
                                   "[class %s, input %s]" % (
                                       cls, k, inp["plan"][k - 1]["st"], show(got),
                                       " or ".join(sorted({show(s["res"]) for s in live})),
                                       [show(g) for g in gots[:k - 1]], cls, json.dumps(inp))))
                    break
                memos = nxt
        except Exception as ex:  # noqa: BLE001
            import traceback
            bad.append((i, "%s:exception| %s raised %r on a record the kernel can present: input %s\n%s" % (
                kind, kind, ex, json.dumps(inp), traceback.format_exc(limit=4))))
    return {"bad": bad, "seen": sorted(seen)}


def make_cases(evs):
    """Observe events -> one case each; exe events grouped by input into one
    NFA (steps[k] = transitions of call k)."""
    cases, exe = [], {}
    for e in evs:
        if e.get("op") == "observe":
            cases.append({"inp": e["inp"], "out": e["out"]})
        elif e.get("op") == "exe":
            key = json.dumps(e["inp"], sort_keys=True)
            c = exe.get(key)
            if c is None:
                c = exe[key] = {"inp": e["inp"], "steps": {}, "start": {"set": False, "val": []}}
            c["steps"].setdefault(str(e["k"]), []).append(
                {"pre": e["pre"], "res": e["res"], "post": e["post"], "cls": e["cls"]})
    for c in exe.values():
        if sorted(c["steps"], key=int) != [str(k) for k in range(1, len(c["inp"]["plan"]) + 1)]:
            raise core.Machinery("dump lacks exe() steps for plan %s" % json.dumps(c["inp"]["plan"]))
        cases.append(c)
    return cases


def case_classes(cases):
    out = set()
    for c in cases:
        if "out" in c:
            out.add(c["out"]["cls"])
        else:
            for st in c["steps"].values():
                out.update(s["cls"] for s in st)
    return out


def run_cases(ctx, name, cases, chunk=60):
    chunks = [cases[i:i + chunk] for i in range(0, len(cases), chunk)]
    res = forkpool.map_fork(run_chunk, chunks)
    nbad, seen = 0, set()
    for ch, (st, val) in zip(chunks, res):
        if st != "ok":
            raise core.Machinery("case runner failed (%s): %s" % (st, val))
        seen.update(val["seen"])
        for idx, text in val["bad"]:
            nbad += 1
            sig, _, desc = text.partition("| ")
            ctx.disagree("conf:" + sig, "code and specification disagree: " + desc, {"case": ch[idx]})
        for c in ch:
            ctx.case(json.dumps(c["inp"], sort_keys=True))
    ctx.cov["traces_validated_against_impl"] += len(cases)
    ctx.cov.setdefault("replay", {})[name] = {"cases": len(cases), "disagreements": nbad,
                                              "result_classes": sorted(seen)}
    return seen


# ---- mode 4: random larger inputs through the code, judged by TLC --------------

ARG_BYTES = [97, 98, 99, SP, SP, 255, 195, 169, 61, 47, 45, 10, 9, 0x80]


def rbytes(rnd, n, alphabet=ARG_BYTES):
    return [rnd.choice(alphabet) for _ in range(n)]


def with_cr(rnd, bs, p=0.04):
    """A few records carry a carriage return (a byte like any other)."""
    if bs and rnd.random() < p:
        i = rnd.randrange(len(bs))
        if bs[i] != NUL:
            bs = bs[:i] + rnd.choice([[CR], [CR, 10]]) + bs[i + 1:]
    return bs


def gen_cmdline(rnd):
    r = rnd.random()
    if r < 0.04:
        return {"kind": "cmdline", "raw": [], "zombie": rnd.random() < 0.5}
    if r < 0.70:      # an argument vector as the kernel lays it out
        raw = []
        for _ in range(rnd.choice([1, 1, 2, 3, 5, 8])):
            raw += rbytes(rnd, rnd.choice([0, 1, 2, 4, 9])) + [NUL]
    elif r < 0.92:    # a title written over the arguments
        raw = rbytes(rnd, rnd.choice([1, 3, 8, 20]))
        raw += rnd.choice([[], [], [NUL], [SP]])
    else:             # anything
        raw = rbytes(rnd, rnd.choice([1, 2, 5, 12]), ARG_BYTES + [NUL, NUL, NUL])
    return {"kind": "cmdline", "raw": with_cr(rnd, raw), "zombie": False}


ENV_NAMES = [[65], [66], [80, 65, 84, 72], [], [65, 32, 66], [255], [120]]


def gen_environ(rnd):
    block = []
    for _ in range(rnd.choice([0, 1, 2, 3, 5, 8])):
        r = rnd.random()
        if r < 0.08:
            ent = []                                     # empty entry: the end
        elif r < 0.2:
            ent = rnd.choice(ENV_NAMES)                  # no '='
        else:
            ent = rnd.choice(ENV_NAMES) + [61] + rbytes(rnd, rnd.choice([0, 1, 3, 6]), ARG_BYTES + [61, 61])
        block += ent + [NUL]
    if rnd.random() < 0.2:
        block += rbytes(rnd, rnd.choice([1, 3]), [65, 61, 120])     # unterminated tail
    return {"kind": "environ", "block": with_cr(rnd, block)}


LINK_BASES = [b"/b/x", b"/", b"/b/\xffz", b"/b/x y", b"/b (deleted)/x", b"/\xc3\xa9"]
LINK_TOKS = [DEL, DEL, b"\0", b"g", b"\xff", b" (deleted", b"new", b"(deleted)"]


def gen_link(rnd):
    r = rnd.random()
    which = rnd.choice(["exe", "cwd"])
    if r < 0.08:
        return {"kind": "link", "which": which, "ph": {"st": rnd.choice(["withheld", "zombie"]), "target": []}, "files": []}
    t = rnd.choice(LINK_BASES) + b"".join(rnd.choice(LINK_TOKS) for _ in range(rnd.choice([0, 1, 1, 2, 3, 5])))
    cut = t.split(b"\0")[0]
    cands = [cut, cut[:-10] if cut.endswith(DEL) else cut + DEL, b"/b/x"]
    files, seen = [], set()
    for c in cands:
        if c and c not in seen and rnd.random() < 0.4:
            seen.add(c)
            files.append({"path": list(c), "type": rnd.choice(["x", "f", "d"])})
    return {"kind": "link", "which": which, "ph": {"st": "ok", "target": list(t)}, "files": files}


NAME_BYTES = [97, 98, 99, 100, 45, 46, 95, 195, 255, 0x80]


def gen_name(rnd):
    # the name the program was started under, the kernel keeps 15 bytes of it
    full = []
    n = rnd.choice([1, 5, 14, 15, 15, 16, 16, 18, 22])
    ascii_only = rnd.random() < 0.5
    while len(full) < n:
        if ascii_only:
            full += [rnd.choice(NAME_BYTES[:7])]
        else:
            full += [195, 169] if rnd.random() < 0.15 else [rnd.choice(NAME_BYTES)]
    full = full[:n] if rnd.random() < 0.8 else full
    comm = full[:15]
    st = rnd.choice(["ok"] * 7 + ["denied", "zombie"])
    r = rnd.random()
    base = full if r < 0.6 else [120] + full if r < 0.75 else comm if r < 0.85 else [122, 122]
    argv0 = rnd.choice([[], [47, 117, 47, 98, 47], [46, 47]]) + base
    form = rnd.random()
    if st == "zombie" or form < 0.1:
        raw = []
    elif form < 0.7:
        raw = argv0 + [NUL] + rnd.choice([[], [45, 118, NUL], [NUL]])
    else:
        raw = argv0 + rnd.choice([[], [SP, 45, 118], [SP, 45, 118, NUL]])
    return {"kind": "name", "comm": comm, "cmdstate": st, "raw": raw}


EXE_TARGETS = [b"/b/x", b"/b/y (deleted)", b"/b/z\0junk", b"/b/x (deleted)\0 (deleted)"]
EXE_CANDS = [
    ("ok", b"/b/g\0-v\0", [("/b/g", "x")]), ("ok", b"/b/g\0", [("/b/g", "f")]), ("ok", b"/b/g\0", [("/b/g", "d")]),
    ("ok", b"/b/g\0", []), ("ok", b"g\0", [("g", "x")]), ("ok", b"/b/g -v", [("/b/g", "x")]), ("ok", b"", []),
    ("denied", b"/b/g\0", [("/b/g", "x")]), ("ok", b"/b/g h\0x\0", [("/b/g h", "x")]), ("ok", b"\0/b/g\0", [("/b/g", "x")]),
    ("ok", b"/b/y\0", [("/b/y", "x"), ("/b/g", "x")]),
]


def gen_exe(rnd):
    plan, dead = [], False
    for _ in range(rnd.choice([1, 2, 3, 4, 5])):
        st = "zombie" if dead else rnd.choice(["ok", "ok", "withheld", "withheld", "denied", "denied", "zombie"])
        dead = dead or st == "zombie"
        plan.append({"st": st, "target": list(rnd.choice(EXE_TARGETS)) if st == "ok" else []})
    cs, raw, files = rnd.choice(EXE_CANDS)
    return {"kind": "exe", "plan": plan, "cmdstate": cs, "raw": list(raw),
            "files": [{"path": list(p.encode()), "type": t} for p, t in files]}


GENS = [gen_cmdline, gen_environ, gen_link, gen_name, gen_exe]


def record(ps, w, inp):
    """Run the real code on one input; the trace line."""
    try:
        p = build_world(w, inp)
        if inp["kind"] == "exe":
            return {"inp": inp, "got": query_exe(ps, p, inp)}
        return {"inp": inp, "got": query(ps, inp)}
    except Exception as ex:  # noqa: BLE001
        return {"inp": inp, "error": repr(ex)}


def rand_chunk(job):
    seed, n = job
    w, ps = template()
    rnd = random.Random(seed)
    return [record(ps, w, GENS[i % len(GENS)](rnd)) for i in range(n)]


def rerun_chunk(inps):
    w, ps = template()
    return [record(ps, w, inp) for inp in inps]


# deliberately wrong answers appended to every validation run: the binding
# must reject them (an argument vector that lost its empty argument; an exe()
# that forgot its answer)
CANARIES = [
    {"inp": {"kind": "cmdline", "raw": [97, 0, 0, 98, 0], "zombie": False}, "got": {"exc": "", "val": [[97], [98]]}},
    {"inp": {"kind": "exe", "plan": [{"st": "ok", "target": [47, 121]}, {"st": "ok", "target": [47, 120]}],
             "cmdstate": "ok", "raw": [], "files": []},
     "got": [{"exc": "", "val": [47, 121]}, {"exc": "", "val": [47, 120]}]},
]


def judge(ctx, lines, name):
    """TLC evaluates the specification on every recorded line."""
    for l in [l for l in lines if "error" in l][:3]:
        ctx.disagree("conf:%s:exception" % l["inp"]["kind"],
                     "%s raised on a record the kernel can present: %s (input %s)"
                     % (l["inp"]["kind"], l["error"], json.dumps(l["inp"])), {"line": l})
    lines = [l for l in lines if "got" in l]
    nreal = len(lines)
    lines = lines + CANARIES
    d = tlc.scratch()
    tf = os.path.join(d, "trace.ndjson")
    with open(tf, "w") as f:
        for l in lines:
            f.write(json.dumps({"inp": l["inp"], "got": l["got"]}) + "\n")
    cfg = os.path.join(d, "t.cfg")
    c = consts("quick", kinds=())
    tlc.write_cfg(cfg, c, init="TInit", next_="TNext", invariants=["Match", "MatchExe"])
    r = tlc.run("ProcTextTrace", cfg, workers=1, env={"TRACE_FILE": tf}, timeout=1500)
    shutil.rmtree(d, ignore_errors=True)
    ctx.tlc(name, r)
    if r.violated:
        raise core.Machinery("trace validation stopped: %s" % r.violated)
    cls_of, rejected = {}, {}
    for tag, rest in r.printed:
        if tag in ("CLS", "REJECTED"):
            i, cls = rest.split(", ", 1)
            (cls_of if tag == "CLS" else rejected).setdefault(int(i), []).append(cls.strip().strip('"'))
    # nothing may have been skipped: one verdict per functional record, one per
    # exe() call up to the first rejected one
    for i, l in enumerate(lines, 1):
        want = 1 if l["inp"]["kind"] != "exe" else len(l["got"])
        if len(cls_of.get(i, ())) != want and i not in rejected:
            raise core.Machinery("trace validation judged %d of %d answers of record %d (%s)"
                                 % (len(cls_of.get(i, ())), want, i, json.dumps(l["inp"])))
    for i in range(nreal + 1, len(lines) + 1):
        if rejected.pop(i, None) is None:
            raise core.Machinery("trace validation accepted the deliberately wrong answer %s" % json.dumps(lines[i - 1]))
        cls_of.pop(i, None)
    lines = lines[:nreal]
    ctx.cov["traces_validated_against_impl"] += len(lines)
    nrej = 0
    for i in sorted(rejected):
        l = lines[i - 1]
        kind = l["inp"]["kind"]
        nrej += 1
        cls = rejected[i][0]
        ctx.disagree("conf:" + cls,
                     "TLC rejects a recorded answer: %s -> %s  [class %s, input %s]"
                     % (kind if kind != "link" else l["inp"]["which"],
                        [show(g) for g in l["got"]] if kind == "exe" else show(l["got"], kind), cls, json.dumps(l["inp"])),
                     {"line": {"inp": l["inp"], "got": l["got"]}})
    ctx.cov.setdefault("replay", {})[name] = {"records": len(lines), "rejected": nrej}
    return {c for v in cls_of.values() for c in v}, lines


def trace_validate(ctx, n):
    jobs = [(ctx.seed * 1000 + i, n // 16 + 1) for i in range(16)]
    lines = []
    for st, val in forkpool.map_fork(rand_chunk, jobs):
        if st != "ok":
            raise core.Machinery("trace driver failed: %s" % (val,))
        lines.extend(val)
    for l in lines:
        ctx.case(json.dumps(l["inp"], sort_keys=True))
    classes, lines = judge(ctx, lines, "trace-validation")
    need("class of recorded input", REQUIRED_TRACE, classes)
    for kind in ("name", "exe"):
        ks = [l for l in lines if l["inp"]["kind"] == kind]
        if ks:
            ctx.sample({"kind": "recorded trace line", "line": ks[len(ks) // 2]}, limit=5)


def need(what, required, seen):
    missing = sorted(set(required) - set(seen))
    if missing:
        core.vacuity("%s never exercised: %s" % (what, missing))


def replay_one(ctx, path):
    case = json.load(open(path))["replay"]
    if "case" in case:
        run_cases(ctx, "replay", [case["case"]])
    elif "line" in case:
        st, val = forkpool.map_fork(rerun_chunk, [[case["line"]["inp"]]])[0]
        if st != "ok":
            raise core.Machinery("replay failed: %s" % (val,))
        judge(ctx, val, "replay")
    else:
        raise core.Machinery("replay file has neither a case nor a trace line")


def warm(ctx):
    rd = tlc.dump_cached("ProcText", consts("quick"), view=None)
    functional.events_of(rd)


def check(ctx):
    forkpool.start(16, init=template)
    thorough = ctx.tier == "thorough"
    ctx.cov["rule"] = ("cases = raw /proc/<pid>/cmdline records, environment blocks, exe/cwd link targets with the files they name, "
                       "(comm, cmdline) pairs, and exe() call plans over changing link phases, rendered by simkernel and asked of "
                       "cmdline()/environ()/exe()/cwd()/name(); distinct = distinct input records")
    ctx.assumptions += [
        "answers are compared as bytes (os.fsencode of what the API returns against the kernel's bytes)",
        "cmdline(): a NUL-terminated record without NUL separators that contains a space is a title (split on spaces), "
        "as the statement's second clause has it; the one-argument vector 'a b' is indistinguishable from it",
        "cmdline(): for a title ending in a space both the list without and with a final empty string are accepted",
        "cmdline(): a record that contains NULs but does not end with one is neither an argument vector nor a title "
        "without NUL separators: any list is accepted (only exceptions are reported)",
        "environ(): entries whose name is empty or starts with '=' are left unspecified: such keys are ignored in the answer; "
        "bytes after the last NUL may be dropped (the reading used) or taken as a last entry; dicts are compared as maps",
        "exe()/cwd(): ' (deleted)' is stale iff no path of the full name exists in the sealed world",
        "exe(): a DENIED link is outside the statement: AccessDenied, or the qualifying cmdline()[0] (remembered or not) are "
        "accepted; the only demand is that the error is not remembered",
        "name(): the kernel's name is at most 15 bytes; 'starts with' and the 15-byte rule are read on bytes, as stated",
        "a zombie never comes back to life within one exe() plan; for a zombie's exe()/cwd() both ZombieProcess and '' are accepted "
        "(the statement names ZombieProcess only for cmdline())",
    ]
    if ctx.replay_file:
        return replay_one(ctx, ctx.replay_file)
    c = consts(ctx.tier)
    evs = functional.observe(ctx, "ProcText", "inputs", c, invariants=INVS, properties=PROPS)
    cases = make_cases(evs)
    need("input class", REQUIRED_ENUM, case_classes(cases))
    seen = run_cases(ctx, "enumerated-inputs", cases)
    need("result class", REQUIRED_RESULTS, seen)
    for cls in ("cmd:argv-empty-arg", "env:duplicate", "link:nul+deleted"):
        ks = [cs for cs in cases if cs.get("out", {}).get("cls") == cls]
        ctx.sample({"kind": "enumerated " + cls, "case": ks[len(ks) // 2]}, limit=5)
    trace_validate(ctx, 30000 if thorough else 4000)


def main(prop, argv):
    core.main_wrapper(check, prop, argv)

"""C17 -- the C extension: decoding contract (spec/CExt.tla) replayed through
the real extension built with AddressSanitizer + UBSan; memory safety is
observed, not decided."""
import json
import os
import shutil
import subprocess
import sys

from harness import build, core, functional, tlc

PY = "/venv/bin/python"
HERE = os.path.dirname(os.path.dirname(os.path.abspath(__file__)))


def asan_env(snap):
    rt = subprocess.run(["clang", "-print-file-name=libclang_rt.asan-x86_64.so"], capture_output=True, text=True).stdout.strip()
    env = dict(os.environ, PYTHONPATH=snap, ASAN_OPTIONS="detect_leaks=0:abort_on_error=0:exitcode=86",
               UBSAN_OPTIONS="print_stacktrace=1:halt_on_error=1:exitcode=87")
    if rt and os.path.exists(rt):
        env["LD_PRELOAD"] = rt
    env.pop("PYTHONHASHSEED", None)
    return env, bool(rt and os.path.exists(rt))


def run_worker(fam, cases, env, namespace=False):
    """-> (results list aligned with cases or None entries, crash info or None)"""
    d = tlc.scratch()
    path = os.path.join(d, "cases.json")
    json.dump(cases, open(path, "w"))
    worker = os.path.join(HERE, "c17_worker.py")
    cmd = [PY, worker, fam, path]
    if namespace:
        inner = "mount -t tmpfs tmpfs /run && exec %s %s %s %s" % (PY, worker, fam, path)
        cmd = ["unshare", "-m", "sh", "-c", inner]
    p = subprocess.run(cmd, env=env, capture_output=True, text=True, timeout=1200)
    shutil.rmtree(d, ignore_errors=True)
    res = [None] * len(cases)
    cur = None
    ended = False
    for line in p.stdout.splitlines():
        if line.startswith("BEGIN "):
            cur = int(line[6:])
        elif line.startswith("RESULT ") and cur is not None:
            res[cur] = json.loads(line[7:])
        elif line == "END":
            ended = True
    if cur is None and not ended:
        raise core.Machinery("C17 worker did not start: %s" % p.stderr[-600:])
    crash = None
    if not ended or p.returncode != 0 or "ERROR: AddressSanitizer" in p.stderr or "runtime error:" in p.stderr:
        crash = {"case_index": cur, "returncode": p.returncode, "stderr": p.stderr[-1500:]}
    return res, crash


def rowsof(x):
    if isinstance(x, dict):
        return [x[k] for k in sorted(x, key=int)]
    return list(x)


def check_utmp(case, got, exp):
    bad = []
    rows = rowsof(exp["rows"])
    if len(got) != len(rows):
        return ["users() returned %d rows, specification: %d" % (len(got), len(rows))]
    for g, e in zip(got, rows):
        if len(g["user"]) != e["userlen"]:
            bad.append("user is %d characters long, specification: %d (field width 32)" % (len(g["user"]), e["userlen"]))
        if e["tty"] == "None":
            if g["terminal"] is not None:
                bad.append("terminal %r for an empty line field" % g["terminal"])
        elif g["terminal"] is None or len(g["terminal"]) != e["ttylen"]:
            bad.append("terminal is %r, specification: %d characters" % (g["terminal"] and len(g["terminal"]), e["ttylen"]))
        if e["host"] == "localhost":
            if g["host"] != "localhost":
                bad.append("host %r, specification: localhost" % g["host"][:20])
        elif len(g["host"]) != e["hostlen"]:
            bad.append("host is %d characters long, specification: %d (field width 256)" % (len(g["host"]), e["hostlen"]))
        if g["pid"] < 4000 or g["started"] != 1700000000 + (g["pid"] - 4000):
            bad.append("pid/started %r %r" % (g["pid"], g["started"]))
    return bad


DIRS = {"/": "/", "/mnt/a b": "/mnt/a b", "/mnt/tab": "/mnt/t\tb", "/mnt/bslash": "/mnt/back\\040slash",
        # a name that is not UTF-8 (the kernel prints the bytes as they are; Python spells them with
        # surrogate escapes so that os.fsencode() gives them back)
        "/mnt/latin1": "/mnt/caf\udce9"}


def opts_of(kind):
    """(the same text as c17_worker.opts_of writes into the mount table)"""
    if kind != "long":
        return "rw,relatime"
    s = "rw,lowerdir=" + ":".join("/var/lib/layers/%04d" % i for i in range(200))
    return s[:2793] + ",x=last"          # 2800 bytes


def check_mounts(case, got, exp):
    if "class" in exp:          # undecodable entry: a value or a Python exception (no crash: seen by the runner)
        return [] if isinstance(got, dict) and got.get("class") in ("value", "exception") else ["disk_partitions() -> %r" % (got,)]
    rows = rowsof(exp["rows"])
    g = [(r["device"], r["mountpoint"], r["fstype"]) for r in got]
    e = [(r["device"], DIRS[r["mountpoint"]], r["fstype"]) for r in rows]
    bad = []
    if g != e:
        bad.append("disk_partitions(all=%s) -> %r, specification: %r" % (case["all"], g, e))
    else:
        want = [len(opts_of("long" if r["optslen"] == 2800 else "short")) for r in rows]
        if [len(r["opts"]) for r in got] != want:
            bad.append("disk_partitions(all=%s): option strings of %r bytes, the mount table has %r"
                       % (case["all"], [len(r["opts"]) for r in got], want))
        elif any(r["opts"] != opts_of("long" if w == 2800 else "short") for r, w in zip(got, want)):
            bad.append("opts differ from the mount table: %r" % [r["opts"][-30:] for r in got])
    return bad


def live_net(ctx, env):
    """net_if_addrs()/net_if_stats() against independent views of the interface list."""
    code = ("import psutil, json, os, socket; a = psutil.net_if_addrs(); s = psutil.net_if_stats();"
            "print(json.dumps({'addrs': {k: [[int(x.family), x.address] for x in v] for k, v in a.items()},"
            " 'stats': {k: [v.isup, v.mtu, v.flags] for k, v in s.items()}}))")
    p = subprocess.run([PY, "-c", code], env=env, capture_output=True, text=True, timeout=120)
    if p.returncode != 0 or "AddressSanitizer" in p.stderr or "runtime error:" in p.stderr:
        ctx.disagree("net_if:crash", "net_if_addrs/net_if_stats failed: %s" % p.stderr[-600:], {"stderr": p.stderr[-1500:]})
        return
    d = json.loads(p.stdout.strip().splitlines()[-1])
    names = sorted(os.listdir("/sys/class/net"))
    import socket
    idx = sorted(n for _, n in socket.if_nameindex())
    if sorted(d["stats"]) != names or names != idx:
        ctx.disagree("net_if:names", "net_if_stats() lists %r, kernel lists %r / %r" % (sorted(d["stats"]), names, idx), d)
    for n in names:
        mtu = int(open("/sys/class/net/%s/mtu" % n).read())
        flags = int(open("/sys/class/net/%s/flags" % n).read(), 16)
        st = d["stats"].get(n)
        if st and (st[1] != mtu or ("up" in st[2].split(",")) != bool(flags & 1)):
            ctx.disagree("net_if:mtu-flags", "%s: psutil %r, kernel mtu=%d flags=%#x" % (n, st, mtu, flags), d)
        mac = open("/sys/class/net/%s/address" % n).read().strip()
        macs = [a[1] for a in d["addrs"].get(n, []) if a[0] == 17]
        if macs and macs[0] != mac:
            ctx.disagree("net_if:mac", "%s: psutil MAC %r, kernel %r" % (n, macs, mac), d)
    ctx.cov.setdefault("replay", {})["net_if-live"] = {"interfaces": names}
    ctx.case(("net_if", tuple(names)))


def live_netns(ctx, env):
    """The same comparison inside a private network namespace holding interfaces at the kernel's
    limits: 15- and 14-character names, one-character name, uncompressible scoped IPv6 addresses."""
    import ipaddress
    p = subprocess.run([PY, os.path.join(os.path.dirname(os.path.dirname(__file__)), "c17_netns.py")],
                       env=env, capture_output=True, text=True, timeout=120)
    if p.returncode != 0 or "AddressSanitizer" in p.stderr or "runtime error:" in p.stderr:
        ctx.disagree("netns:crash", "net_if_addrs/net_if_stats failed in the namespace: %s" % p.stderr[-600:],
                     {"stderr": p.stderr[-1500:]})
        return
    d = json.loads(p.stdout.strip().splitlines()[-1])
    if "setup_failed" in d:
        ctx.notes.append("netns stage skipped: %s" % d["setup_failed"])
        ctx.cov.setdefault("replay", {})["net_if-netns"] = {"skipped": d["setup_failed"]}
        return
    if d["before"] != d["after"]:
        ctx.notes.append("netns stage: kernel view changed during the calls; skipped")
        return
    k = d["after"]
    if sorted(d["stats"]) != sorted(k):
        ctx.disagree("netns:names", "net_if_stats() lists %r, the kernel lists %r" % (sorted(d["stats"]), sorted(k)), d)
    for n, kv in sorted(k.items()):
        st = d["stats"].get(n)
        if st and (st[1] != kv["mtu"] or st[0] != bool(kv["flags"] & 0x40) or ("up" in st[2].split(",")) != bool(kv["flags"] & 1)):
            ctx.disagree("netns:mtu-flags", "%s: psutil %r, kernel mtu=%d flags=%#x" % (n, st, kv["mtu"], kv["flags"]), d)
        rows = d["addrs"].get(n, [])
        macs = [a[1] for a in rows if a[0] == 17]
        if n != "lo" and macs != [kv["mac"]]:
            ctx.disagree("netns:mac", "%s: psutil MAC %r, kernel %r" % (n, macs, kv["mac"]), d)
        want6 = sorted(str(ipaddress.IPv6Address(bytes.fromhex(h))) for h in kv["v6"])
        got6, bad = [], []
        for a in rows:
            if a[0] == 10:
                host, _, scope = a[1].partition("%")
                try:
                    ip = ipaddress.IPv6Address(host)
                except ValueError:
                    bad.append(a[1]); continue
                if (scope or ip.is_link_local) and scope != n:
                    bad.append(a[1])
                got6.append(str(ip))
        if sorted(got6) != want6 or bad:
            ctx.disagree("netns:ipv6", "%s: psutil IPv6 %r (malformed/wrong scope: %r), /proc/net/if_inet6 %r"
                         % (n, sorted(got6), bad, want6), d)
        got4 = [a[1] for a in rows if a[0] == 2]
        if sorted(got4) != sorted(kv["v4"]):
            ctx.disagree("netns:ipv4", "%s: psutil IPv4 %r, SIOCGIFADDR %r" % (n, got4, kv["v4"]), d)
    if d.get("again") != d["stats"] or d.get("failed_lookups") or d.get("fds_ok") != [True] * 4:
        ctx.disagree("netns:after-failed-lookup", "after lookups of interfaces that do not exist: net_if_stats() %r (before: %r); "
                     "unexpected results %r; the program's own descriptors %r"
                     % (d.get("again"), d["stats"], d.get("failed_lookups"), d.get("fds_ok")), d)
    if not any(len(n) == 15 for n in d["made"]):
        core.vacuity("netns stage built no 15-character interface")
    ctx.cov.setdefault("replay", {})["net_if-netns"] = {"interfaces": sorted(k), "ipv6": sum(len(v["v6"]) for v in k.values())}
    ctx.case(("net_if-netns", tuple(sorted(k))))


def replay(ctx, data):
    from harness.props import x17
    return x17.replay(ctx, data)


def warm(ctx):
    from harness.props import x17
    x17.warm(ctx)
    rd = tlc.dump_cached("CExt", {"Families": {"utmp", "mounts", "args"}}, view=None)
    functional.events_of(rd)
    snap = build.snapshot(asan=True)
    build.cleanup(snap)


def check(ctx):
    ctx.level = "other"
    thorough = ctx.tier == "thorough"
    ctx.cov["rule"] = ("cases = utmp files (record type x fill class of user/line/host), mount tables x all flag, and "
                       "(entry point, argument class) pairs, each run through the real C extension built with ASan+UBSan; "
                       "distinct = distinct cases")
    ctx.cov["explanation"] = ("Memory safety cannot be expressed in TLA+: it is OBSERVED by AddressSanitizer/UBSan while the "
                              "cases enumerated by TLC from spec/CExt.tla run through the extension rebuilt from the working "
                              "tree; absence of reports covers only those input classes. The decoding contract (field widths, "
                              "record-type filter, localhost mapping, mount-entry filter and unescaping) is decided by "
                              "comparing every row with the specification.")
    ctx.assumptions += [
        "utmp is fed through a private mount namespace (tmpfs over /run); mounts through psutil.PROCFS_PATH",
        "net_if_addrs/net_if_stats are compared with /sys/class/net and socket.if_nameindex on the live kernel (loopback only in this sandbox)",
    ]
    evs = functional.observe(ctx, "CExt", "cext-table", {"Families": {"utmp", "mounts", "args"}},
                             invariants=["StringsWithinWidth", "OnlyUserProcess", "AllKeepsEverything", "FilterNeedsDevice"])
    evs = [e for e in evs if e.get("op") == "observe"]
    snap = build.snapshot(asan=True)
    try:
        env, have_asan = asan_env(snap)
        ctx.cov["sanitizers"] = "asan+ubsan" if have_asan else "unavailable (plain build)"
        fams = {}
        for e in evs:
            fams.setdefault(e["inp"]["fam"], []).append(e)
        if set(fams) != {"utmp", "mounts", "args"}:
            core.vacuity("families enumerated: %s" % sorted(fams))
        ns_ok = subprocess.run(["unshare", "-m", "sh", "-c", "mount -t tmpfs tmpfs /run"], capture_output=True).returncode == 0
        plan = [("mounts", check_mounts, False), ("args", None, False)]
        if ns_ok:
            plan.insert(0, ("utmp", check_utmp, True))
        else:
            ctx.notes.append("mount namespaces unavailable: utmp family skipped")
        for fam, checker, ns in plan:
            cases = [e["inp"] for e in fams[fam]]
            if fam == "utmp":
                cases = cases + [{"fam": "utmp", "threads": 4, "calls": 12, "n": 300}]
            wenv = dict(env, PSUTIL_DEBUG="1") if fam == "args" else env     # debug messages format their arguments too
            res, crash = run_worker(fam, cases, wenv, namespace=ns)
            if fam == "utmp":
                tr = res.pop()
                cases.pop()
                if tr is not None:
                    ctx.case(("utmp-threads", 4, 12, 300))
                    ctx.cov["utmp_threads"] = tr
                    if tr["differing"] or tr["reference_rows"] != 200:
                        ctx.disagree("conf:utmp:threads",
                                     "users() called from %d threads at once over a %d-record login file: %d of %d calls "
                                     "returned something else than the single-threaded call (%d rows); first: %r"
                                     % (tr["threads"], 300, tr["differing"], tr["calls"], tr["reference_rows"], tr["first"]),
                                     {"utmp_threads": tr})
            if crash:
                ci = crash["case_index"]
                ctx.disagree("crash:%s:%s" % (fam, json.dumps(cases[ci], sort_keys=True)[:80] if ci is not None else "?"),
                             "the interpreter crashed or a sanitizer reported while running case %r: %s"
                             % (cases[ci] if ci is not None else None, crash["stderr"][-800:]), crash)
            n_bad = 0
            for e, got in zip(fams[fam], res):
                ctx.case(json.dumps(e["inp"], sort_keys=True))
                if got is None:
                    continue
                if checker:
                    bad = checker(e["inp"], got, e["out"])
                    if bad:
                        n_bad += 1
                        sig = "conf:%s:%s" % (fam, bad[0].split(",")[0].split(" is ")[0][:40])
                        ctx.disagree(sig, "; ".join(bad) + "  [input %r]" % (e["inp"],), {"inp": e["inp"], "got": got})
                elif got["class"] not in ("value", "exception"):
                    ctx.disagree("args:" + e["inp"]["fn"], "unexpected outcome %r" % got, e)
            ctx.cov.setdefault("replay", {})[fam] = {"cases": len(cases), "disagreements": n_bad,
                                                     "completed": sum(1 for r in res if r is not None)}
            ctx.cov["traces_validated_against_impl"] += len(cases)
            ctx.sample({"family": fam, "case": cases[len(cases) // 2], "result": res[len(cases) // 2]})
        live_net(ctx, env)
        live_netns(ctx, env)
    finally:
        build.cleanup(snap)
    # the Python layer above the extension (mount-entry filter and root-device finder,
    # net_if_stats / net_if_addrs front ends, users()) over tables the live kernel of
    # this sandbox cannot present: spec/SysTables.tla
    from harness import forkpool
    from harness.props import x17
    from harness.tmpl import template
    forkpool.start(16, init=template)
    x17.check_extra(ctx, thorough)


def main(prop, argv):
    core.main_wrapper(check, prop, argv)

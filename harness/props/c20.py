"""C20 -- every platform layer keeps the same error contract and record layout
(spec/Platform.tla, spec/PlatformTrace.tla).

Mode 5: TLC enumerates the rows of the decision table (platform x method x
error x fault site x zombie/pid/pid0-listed), the layout rows (documented named
tuple <- slots of the C records) and one platform row each (promised names,
native function tables).  Every row is replayed on the REAL platform module
(psutil/_psbsd.py, _psosx.py, _pssunos.py, _psaix.py, _pswindows.py) and, for
getters, on psutil.Process of the package imported for that platform, inside
one interpreter per platform whose C extension is a stub generated from the
spec's slot tables (harness/sim_c20.py).  Mode 4: a seeded driver runs larger
random rows through psutil.Process; TLC validates the recorded outcomes."""
import collections
import concurrent.futures
import ipaddress
import json
import os
import random
import shutil
import subprocess
import threading

from harness import core, functional, tlc
from harness import sim_c20 as sim

FIXES = set()
PLATFORMS = ["freebsd", "openbsd", "netbsd", "macos", "sunos", "aix", "windows"]
ERRNOS = ["ESRCH", "ENOENT", "EPERM", "EACCES", "EIO", "EINVAL"]
WINCODES = ["ERROR_ACCESS_DENIED", "ERROR_PRIVILEGE_NOT_HELD", "ERROR_INVALID_PARAMETER", "ERROR_GEN_FAILURE"]
PSUTIL_EXC = ("NoSuchProcess", "ZombieProcess", "AccessDenied")
INVS = ["Total", "Deterministic", "NoNSPWhileZombie", "ZombieOnlyIfListed", "ADOnlyForPermission",
        "PermissionAlwaysAD", "MethodIndependent", "PlatformIndependent", "NoZombieOnWindows",
        "LayoutTotal", "LayoutInjective", "FieldsDistinct", "SlotNamesDistinct", "ExportsSane"]
RUNNER = os.path.join(os.path.dirname(os.path.dirname(os.path.abspath(__file__))), "sim_c20.py")
PY = "/venv/bin/python"
# methods that can be called through psutil.Process without the front end's
# PID-reuse guard issuing native calls of its own (getters only)
PACKAGE_METHODS = {"name", "exe", "cmdline", "environ", "cwd", "uids", "gids", "terminal", "memory_info",
                   "memory_full_info", "cpu_times", "num_ctx_switches", "num_threads", "open_files",
                   "net_connections", "num_fds", "nice_get", "status", "threads", "io_counters", "cpu_num",
                   "cpu_affinity_get", "memory_maps", "rlimit_get", "username", "num_handles", "ionice_get"}
# values a method documents for "cannot be determined" (docs/index.rst: exe()
# "may be an empty string"; cwd() likewise on a vanished/unreadable link)
UNKNOWN_VALUES = {"exe": [""], "cwd": [""], "terminal": [None]}
LIST_METHODS = {"threads", "open_files", "net_connections", "memory_maps"}
# attributes of the platform Process classes that are not Process queries of the table
NOT_TABLE = {"oneshot", "oneshot_enter", "oneshot_exit", "nt_mmap_ext", "nt_mmap_grouped"}


def consts(maxsite, platforms=PLATFORMS, errs=None):
    return {"Platforms": set(platforms), "ErrSel": set(errs or (ERRNOS + WINCODES)), "MaxSite": maxsite}


# ---------------------------------------------------------------------------
# running rows in the per-platform interpreters
# ---------------------------------------------------------------------------

def platform_cfg(pe, plat):
    return {"platform": plat, "family": pe["family"], "natives": pe["natives"], "posix": pe["posix"],
            "slots": pe["slots"], "scalars": pe["scalars"], "lists": pe["lists"],
            "pagesize": pe["pagesize"], "procfs": pe["procfs"]}


def run_shard(cfg, rows):
    env = dict(os.environ)
    env["PYTHONPATH"] = os.environ["VERIF_SNAPSHOT"]
    env["PYTHONHASHSEED"] = "0"
    data = json.dumps(cfg) + "\n" + "".join(json.dumps(r) + "\n" for r in rows)
    p = subprocess.run([PY, "-P", RUNNER], input=data.encode(), env=env, stdout=subprocess.PIPE,
                       stderr=subprocess.PIPE, timeout=1500)
    lines = p.stdout.decode().splitlines()
    if p.returncode != 0 or not lines or len(lines) != len(rows) + 1:
        raise core.Machinery("platform runner for %s failed (rc %s, %d/%d answers): %s"
                             % (cfg["platform"], p.returncode, max(0, len(lines) - 1), len(rows),
                                p.stderr.decode()[-1500:]))
    hello = json.loads(lines[0])
    if not hello.get("ready") or hello.get("platform") != cfg["platform"]:
        raise core.Machinery("platform runner handshake failed: %r" % (hello,))
    return [json.loads(l) for l in lines[1:]]


def run_all(cfgs, rows_by_plat, shards_per_plat=3):
    """rows_by_plat: {plat: [row,...]} -> {plat: [answer,...]} (same order)."""
    jobs = []
    for plat, rows in rows_by_plat.items():
        n = max(1, min(shards_per_plat, len(rows) // 50 or 1))
        for i in range(n):
            jobs.append((plat, i, n, rows[i::n]))
    out = {plat: [None] * len(rows) for plat, rows in rows_by_plat.items()}
    with concurrent.futures.ThreadPoolExecutor(max_workers=16) as ex:
        futs = {ex.submit(run_shard, cfgs[plat], part): (plat, i, n) for plat, i, n, part in jobs if part}
        for f in concurrent.futures.as_completed(futs):
            plat, i, n = futs[f]
            res = f.result()
            out[plat][i::n] = res
    return out


# ---------------------------------------------------------------------------
# oracle side of the value protocol
# ---------------------------------------------------------------------------

ANY = object()


def expected_values(layout, keys, lists, rec=0, scale=1, name=sim.PROCNAME):
    vals = []
    for s in layout["src"]:
        if s["kind"] == "slot":
            r = rec if s["fn"] in lists else 0
            sp = sim.special_slot(s["slot"], r, name)
            vals.append(sp if sp is not None else sim.slot_value(keys, s["fn"], s["val"], r, scale) * s["mul"])
        elif s["kind"] == "const":
            vals.append(s["val"])
        elif s["kind"] == "none":
            vals.append(None)
        else:
            vals.append(ANY)
    return vals


def match_tuple(got, layout, vals, check_type=True):
    """got: canonical answer of one (named) tuple; -> list of complaints."""
    bad = []
    if layout["nt"] == "":
        if vals[0] is not ANY and got != vals[0]:
            bad.append("returned %r, expected %r (slot %s of %s)" % (got, vals[0], layout["src"][0]["slot"], layout["src"][0]["fn"]))
        return bad
    if not isinstance(got, dict) or "nt" not in got:
        return ["returned %r, expected a %s named tuple" % (got, layout["nt"])]
    if check_type and got["nt"] != layout["nt"]:
        bad.append("named tuple type is %s, documented type is %s" % (got["nt"], layout["nt"]))
    if got["f"] != layout["fields"]:
        bad.append("fields %r, documented fields %r" % (got["f"], layout["fields"]))
        return bad
    for f, g, v, s in zip(layout["fields"], got["v"], vals, layout["src"]):
        if v is ANY:
            continue
        if g != v or isinstance(g, bool) != isinstance(v, bool):
            src = "%s slot %s" % (s["fn"], s["slot"]) if s["kind"] == "slot" else s["kind"]
            bad.append("field %s = %r, expected %r (%s)" % (f, g, v, src))
    return bad


def match_layout(got, layout, keys, lists, scale=1, name=sim.PROCNAME, check_type=True):
    if layout["many"]:
        if not isinstance(got, dict) or "l" not in got:
            return ["returned %r, expected a list of %s" % (got, layout["nt"])]
        if len(got["l"]) != 2:
            return ["returned %d rows, the native layer handed back 2" % len(got["l"])]
        bad = []
        for i, item in enumerate(got["l"]):
            bad += match_tuple(item, layout, expected_values(layout, keys, lists, i, scale, name), check_type)
        return bad
    return match_tuple(got, layout, expected_values(layout, keys, lists, 0, scale, name), check_type)


def front_end_zombie(via, m, ans):
    return via == "package" and m == "status" and ans.get("cls") == "ok" and ans.get("val") == "zombie" and ans.get("fired")


def pidclass(row):
    if row["pid"] == 0:
        return "pid0-listed" if row["p0"] else "pid0-unlisted"
    return "zombie" if row["z"] else "pid"


# ---------------------------------------------------------------------------
# judging one error row
# ---------------------------------------------------------------------------

class Judge:
    def __init__(self, ctx, plat_out, layouts, baselines):
        self.ctx = ctx
        self.plat_out = plat_out         # plat -> platform row output
        self.layouts = layouts           # (plat, m) -> {"primary": out, "alt": out}
        self.baselines = baselines       # (plat, via, m, pid) -> answer
        self.seen = collections.Counter()        # (plat, outcome class)
        self.fired = collections.Counter()       # (plat, m)
        self.kinds = collections.Counter()       # (plat, kind)
        self.recovered = collections.Counter()   # (plat, m)
        self.pid0 = collections.Counter()
        self.stats = collections.Counter()
        self.devs = []
        self.wrapper_level = set()
        self.expected = collections.Counter()    # (plat, class demanded by the table) over delivered faults

    def keys(self, plat):
        return sorted(self.plat_out[plat]["slots"])

    def ok_value_acceptable(self, plat, row, ans, via):
        """The method returned although a native access failed: the value must be
        the value it documents (from the primary or the fallback record), a
        documented 'unknown', or -- for list results -- the list without the
        items whose access failed."""
        m = row["m"]
        got = ans["val"]
        base = self.baselines.get((plat, via, m, row["pid"]))
        scale, name = row.get("scale", 1), row.get("name", sim.PROCNAME)
        lay = self.layouts.get((plat, m))
        if lay and not (via == "package" and m == "name"):
            for mode in ("primary", "alt"):
                if mode in lay and not match_layout(got, lay[mode], self.keys(plat), self.plat_out[plat]["lists"], scale, name, False):
                    return True
        if base is not None and base.get("cls") == "ok" and base["val"] == got:
            return True
        if m in UNKNOWN_VALUES and got in UNKNOWN_VALUES[m]:
            return True
        if m in LIST_METHODS and base and base.get("cls") == "ok" and isinstance(got, dict) and "l" in got:
            # an entry (thread, file) that went away while the list was built may be left out -- the
            # system says so with ENOENT; ESRCH is about the process itself and is never "recovered"
            return row["e"] != "ESRCH" and all(x in base["val"]["l"] for x in got["l"])
        return False

    def judge(self, plat, row, out, ans, via="module"):
        ctx = self.ctx
        m = row["m"]
        key = ("err", plat, m, row["e"], row["site"], row["z"], row["pid"], row["p0"], via,
               row.get("name"), row.get("scale"), row.get("oneshot"))
        cls = ans.get("cls")
        if cls == "RunnerError":
            raise core.Machinery("runner error on %s %r: %s" % (plat, row, ans.get("text")))
        if front_end_zombie(via, m, ans):
            # psutil.Process.status() documents: a ZombieProcess of the platform layer becomes STATUS_ZOMBIE
            ans = dict(ans, cls="ZombieProcess", pid=row["pid"], name=ans.get("cached"))
            cls = "ZombieProcess"
        if not ans.get("fired"):
            # the method makes fewer per-process native calls than row.site: nothing failed
            ctx.case(key, nontrivial=False)
            self.stats["unfired"] += 1
            base = self.baselines.get((plat, via, m, row["pid"]))
            if base is not None and (cls != base.get("cls") or (cls == "ok" and base.get("val") != ans.get("val")
                                                               and row.get("scale", 1) == 1 and not row.get("name"))):
                ctx.disagree("conf:%s:%s:unarmed" % (plat, m),
                             "%s.%s() answered %r although no native access failed (baseline %r)" % (plat, m, ans, base),
                             {"platform": plat, "row": row, "answer": ans})
            return None
        ctx.case(key)
        self.stats["fired"] += 1
        self.fired[(plat, m)] += 1
        kind = ans["kind"]
        self.kinds[(plat, kind)] += 1
        allowed = out[kind]
        where = "%s %s.%s() [pid %d, %s, %s error %s at per-process native access #%d = %s]" % (
            via, plat, m, row["pid"], pidclass(row), kind, row["e"], row["site"], ans["fn"])
        replay = {"platform": plat, "row": row, "via": via, "allowed": allowed, "answer": ans}
        for a in allowed:
            self.expected[(plat, a)] += 1
        if row["pid"] == 0 and "AccessDenied" in allowed and row["e"] in ("EIO", "EINVAL"):
            self.pid0[plat] += 1
        if cls in allowed:
            self.seen[(plat, cls)] += 1
            if cls in PSUTIL_EXC:
                if ans.get("pid") != row["pid"] or ans.get("name") != ans.get("cached"):
                    ctx.disagree("conf:%s:%s:exc-fields" % (plat, m),
                                 "%s raised %s(pid=%r, name=%r); the exception must carry pid %d and the cached name %r"
                                 % (where, cls, ans.get("pid"), ans.get("name"), row["pid"], ans.get("cached")), replay)
            return cls
        if cls == "ok":
            if self.ok_value_acceptable(plat, row, ans, via):
                self.recovered[(plat, m)] += 1
                self.seen[(plat, "recovered")] += 1
                return "ok"
            self.deviate(plat, row, via, allowed, "returned",
                         "%s returned %r instead of raising %s, and that is neither the method's documented value "
                         "nor a documented 'unknown'" % (where, ans["val"], "/".join(allowed)), replay)
            return "ok"
        self.deviate(plat, row, via, allowed, cls, "%s raised %s%s; the contract demands %s" % (
            where, cls, " (%s)" % ans.get("text", "")[-300:] if "text" in ans else "", "/".join(sorted(allowed))), replay)
        return cls

    # -- signatures ------------------------------------------------------------
    # base = conf:<platform>:<error>:<pid class>:<expected>-><observed>.  A deviation
    # shown by two or more methods of a platform on the rows with site = 1 (always
    # replayed completely, in both tiers) is a property of the platform's wrapper and
    # keeps the base signature; otherwise the method is appended.
    def deviate(self, plat, row, via, allowed, got, desc, replay):
        base = "conf:%s:%s:%s:%s->%s" % (plat, row["e"], pidclass(row), "/".join(sorted(allowed)), got)
        self.devs.append((base, plat, row["m"], row["site"], via, desc, replay))

    def flush(self, table_rows):
        if table_rows:
            methods = collections.defaultdict(set)
            for base, plat, m, site, via, desc, replay in self.devs:
                if site == 1 and via == "module":
                    methods[base].add(m)
            self.wrapper_level = {b for b, ms in methods.items() if len(ms) >= 2}
        for base, plat, m, site, via, desc, replay in self.devs:
            if base in self.wrapper_level:
                sig = base
            elif base.endswith("->returned"):
                # one method swallowing one error is one behaviour, whatever the PID class
                sig = "conf:%s:%s:returned:%s" % (plat, replay["row"]["e"], m)
            else:
                sig = base + ":" + m
            self.ctx.disagree(sig, desc, replay)
        self.devs = []


# ---------------------------------------------------------------------------
# platform rows (exports), front end rows
# ---------------------------------------------------------------------------

def judge_platform(ctx, plat, pe, ans):
    if ans.get("cls") == "RunnerError":
        raise core.Machinery("runner error on platform row %s: %s" % (plat, ans.get("text")))
    for n in sorted(pe["exports"]):
        ctx.case(("export", plat, n))
        if not ans["has"].get(n):
            ctx.disagree("export:%s:%s" % (plat, n),
                         "on %s the documentation promises psutil.%s but the package does not expose it" % (plat, n),
                         {"platform": plat, "name": n})
        elif not n.startswith("Process.") and n not in ans["all"]:
            ctx.disagree("export:%s:%s:not-in-__all__" % (plat, n),
                         "on %s psutil.%s exists but is not listed in psutil.__all__" % (plat, n),
                         {"platform": plat, "name": n})
    for n in ans["all_unresolved"]:
        ctx.disagree("export:%s:%s:unresolved" % (plat, n),
                     "on %s psutil.__all__ lists %s which the package does not define" % (plat, n),
                     {"platform": plat, "name": n})
    flags = ans["flags"]
    want = {"POSIX": plat != "windows", "WINDOWS": plat == "windows", "LINUX": False, "MACOS": plat == "macos",
            "FREEBSD": plat == "freebsd", "OPENBSD": plat == "openbsd", "NETBSD": plat == "netbsd",
            "BSD": plat in ("freebsd", "openbsd", "netbsd"), "SUNOS": plat == "sunos", "AIX": plat == "aix"}
    if flags != want:
        raise core.Machinery("the package was not imported for %s: platform flags %r" % (plat, flags))
    extra = [m for m in ans["module_methods"] if m not in NOT_TABLE and m not in pe["methods"]
             and not (m == "rlimit" and "rlimit_get" in pe["methods"])]
    return extra


def judge_net_if_addrs(ctx, plat, pe, ans):
    ctx.case(("frontend", plat, "net_if_addrs"))
    if ans.get("cls") != "ok":
        ctx.disagree("frontend:%s:net_if_addrs:raised" % plat, "psutil.net_if_addrs() on %s: %r" % (plat, ans),
                     {"platform": plat, "answer": ans})
        return
    sep = pe["macsep"]
    nic = "Ethernet" if plat == "windows" else "eth0"
    rows = dict(ans["val"]["d"]).get(nic, {"l": []})["l"]
    def famname(x):      # the stub AF_LINK is 18 (BSD value; the host's enum may call it otherwise), -1 on Windows
        v = x["v"] if isinstance(x, dict) else x
        return "AF_LINK" if v in (sim.KNOWN_CONST["AF_LINK"], -1) else (x["n"] if isinstance(x, dict) else x)
    byfam = {famname(r["v"][0]): dict(zip(r["f"], r["v"])) for r in rows}
    replay = {"platform": plat, "answer": ans}
    mac = byfam.get("AF_LINK")
    want_mac = sep.join(["aa", "bb", "cc"] + ["00"] * (pe["macgroups"] - 3))
    if not mac or mac["address"] != want_mac:
        ctx.disagree("frontend:%s:net_if_addrs:mac-padding" % plat,
                     "psutil.net_if_addrs() on %s: native MAC 'aa%sbb%scc' must be padded to %r, got %r"
                     % (plat, sep, sep, want_mac, mac and mac["address"]), replay)
    win = plat == "windows"      # arch/windows/net.c hands back a netmask for IPv4 only and never a broadcast address
    for fam, addr, mask, native_bc in (("AF_INET", "192.168.1.7", "255.255.255.0", None if win else "192.168.1.255"),
                                      ("AF_INET6", "fe80::7", None if win else "ffff:ffff:ffff:ffff::", None)):
        r = byfam.get(fam)
        if r is None:
            ctx.disagree("frontend:%s:net_if_addrs:%s-missing" % (plat, fam), "no %s row: %r" % (fam, rows), replay)
            continue
        if pe["computes_broadcast"] and mask is not None:
            net = (ipaddress.IPv4Network if fam == "AF_INET" else ipaddress.IPv6Network)("%s/%s" % (addr, mask), strict=False)
            want = str(net.broadcast_address)
        else:
            want = native_bc
        if r["broadcast"] != want:
            ctx.disagree("frontend:%s:net_if_addrs:broadcast:%s" % (plat, fam),
                         "psutil.net_if_addrs() on %s: %s address %s netmask %s must report broadcast %r "
                         "(%s), got %r" % (plat, fam, addr, mask, want,
                                           "computed by the front end" if pe["computes_broadcast"] and mask is not None else "as handed back by the native layer",
                                           r["broadcast"]), replay)
        if r["address"] != addr or r["netmask"] != mask or r["ptp"] is not None:
            ctx.disagree("frontend:%s:net_if_addrs:slots:%s" % (plat, fam), "row %r" % (r,), replay)


# ---------------------------------------------------------------------------
# the check
# ---------------------------------------------------------------------------

def model_check(c, res):
    cfg = os.path.join(tlc.scratch(), "platform.cfg")
    tlc.write_cfg(cfg, c, invariants=INVS)
    res.append(tlc.run("Platform", cfg, workers=4, timeout=900))
    shutil.rmtree(os.path.dirname(cfg), ignore_errors=True)


def load_events(ctx, c):
    rd = tlc.dump_cached("Platform", c, view=None)
    ctx.tlc("rows-dump", rd)
    evs = [e for e in functional.events_of(rd) if e.get("op") == "observe"]
    if not evs:
        raise core.Machinery("TLC produced no rows")
    return evs


def warm(ctx):
    for ms in (3, 4):
        rd = tlc.dump_cached("Platform", consts(ms), view=None)
        functional.events_of(rd)


def module_row(e, **kw):
    r = e["row"]
    d = {"k": "err", "m": r["m"], "pid": r["pid"], "z": r["z"], "p0": r["p0"], "site": r["site"], "e": r["e"]}
    d.update(kw)
    return d


def check(ctx):
    thorough = ctx.tier == "thorough"
    rnd = random.Random(ctx.seed)
    ctx.cov["rule"] = ("cases = rows of the decision table (platform x Process method x OS error x index of the failing "
                       "per-process native access x zombie-listed x pid in {0,5} x pid0-listed) replayed on the real "
                       "platform module and on psutil.Process, + layout rows (named tuple <- C record slots, primary and "
                       "fallback record) + promised names; distinct = distinct rows (incl. route, name, scale, oneshot)")
    ctx.assumptions += [
        "the native C of the non-Linux platforms is out of the loop: psutil._psutil_{bsd,osx,sunos,aix,windows,posix} are "
        "stubs generated from the slot tables of spec/Platform.tla (transcribed from the Py_BuildValue calls of the C sources)",
        "one native access fails per row (the site-th per-process access); afterwards the stub OS is consistent with the row: "
        "a 'no such process' error leaves the PID gone, or a zombie (kinfo/psinfo still answer, status zombie, kill(pid,0) "
        "succeeds, /proc/<pid> exists) when the row says it is still listed as a zombie; other errors leave it alive",
        "system-wide native calls (pids, per_cpu_times, ppid_map, getpagesize) never fail; POSIX wait() (os.waitpid, "
        "property C15) and AIX open_files() (shells out to procfiles) make no native call of the C extension and are not rows",
        "a method may recover from the failed access and return: then the value must be its documented value built from the "
        "primary or the fallback record, a documented 'unknown' (exe ''/cwd ''/terminal None, status 'zombie' for a zombie), "
        "or, for list results, the list without the items whose access failed; such rows are counted as 'recovered'",
        "a listed PID 0 for which the OS answers 'no such process' is contradictory input: NoSuchProcess and ZombieProcess "
        "are both accepted there (spec operator Contradictory)",
        "ERROR_PARTIAL_COPY is injected on its own rows: transient (1 or 5 native accesses) must not show; persistent may end as AccessDenied (by design, issue #875) or as the error itself",
        "exported names are checked with hasattr(psutil, name) and membership in psutil.__all__",
    ]
    c = consts(4 if thorough else 3)
    # the decision table does not mention the fault site (TLC checks MethodIndependent;
    # Expected has no site parameter), so its meta-properties are checked on the rows with site 1
    cm = consts(1)
    mc = []
    th = threading.Thread(target=model_check, args=(cm, mc))
    th.start()
    evs = load_events(ctx, c)
    by_kind = collections.defaultdict(list)
    for e in evs:
        by_kind[e["row"]["k"]].append(e)
    plat_out = {e["row"]["p"]: e["out"] for e in by_kind["platform"]}
    if sorted(plat_out) != sorted(PLATFORMS):
        raise core.Machinery("platform rows missing: %r" % sorted(plat_out))
    cfgs = {p: platform_cfg(plat_out[p], p) for p in PLATFORMS}
    layouts = collections.defaultdict(dict)
    for e in by_kind["layout"]:
        layouts[(e["row"]["p"], e["row"]["m"])][e["row"]["mode"]] = e["out"]

    # ---- choose the error rows of this tier --------------------------------
    errs = by_kind["err"]
    chosen = []
    for e in errs:
        r = e["row"]
        must = r["site"] == 1          # complete in both tiers (signatures are derived from these rows)
        if thorough or must or rnd.random() < 0.2:
            chosen.append(e)

    # ---- build the per-platform batches -------------------------------------
    batches = {p: [] for p in PLATFORMS}      # (tag, payload, row)
    for p in PLATFORMS:
        pe = plat_out[p]
        batches[p].append(("platform", None, {"k": "platform", "names": sorted(pe["exports"])}))
        batches[p].append(("frontend", None, {"k": "frontend", "what": "net_if_addrs"}))
        batches[p].append(("sysconn", None, {"k": "frontend", "what": "net_connections"}))
        for m in sorted(pe["methods"]):
            for pid in (5, 0):
                batches[p].append(("baseline", ("module", m, pid), {"k": "baseline", "m": m, "pid": pid}))
                if m in PACKAGE_METHODS:
                    batches[p].append(("baseline", ("package", m, pid), {"k": "baseline", "m": m, "pid": pid, "via": "package"}))
    for (p, m), modes in sorted(layouts.items()):
        for mode, out in sorted(modes.items()):
            alt_err = "ERROR_ACCESS_DENIED" if p == "windows" else "EACCES"
            for via in ("module", "package"):
                if via == "package" and m not in PACKAGE_METHODS:
                    continue
                for oneshot in (False, True):
                    row = {"k": "layout", "m": m, "pid": 5, "z": False, "p0": True, "oneshot": oneshot,
                           "site": 1 if mode == "alt" else 0, "e": alt_err}
                    if via == "package":
                        row["via"] = "package"
                    batches[p].append(("layout", (m, mode, via, oneshot, out), row))
    # a process that vanishes where the native call answers "nothing" instead of ESRCH (BSD)
    VANISH = {"openbsd": ("net_connections", "threads", "num_threads"), "netbsd": ("net_connections", "num_fds"),
              "freebsd": ("net_connections",)}
    for p, ms in VANISH.items():
        for m in ms:
            if m not in plat_out[p]["methods"]:
                continue
            for via in ("module", "package"):
                if via == "package" and m not in PACKAGE_METHODS:
                    continue
                for oneshot in (False, True):
                    row = {"k": "vanished", "m": m, "pid": 5, "oneshot": oneshot}
                    if via == "package":
                        row["via"] = "package"
                    batches[p].append(("vanished", (m, via, oneshot), row))
    # a process the caller may not look at: exe() through the front end (with its guess from the command line)
    for p in PLATFORMS:
        if p != "windows" and "exe" in plat_out[p]["methods"]:
            for e in ("EACCES", "EPERM"):
                batches[p].append(("refused", ("exe", e), {"k": "refused", "m": "exe", "pid": 5, "e": e}))
    # NetBSD: the command line of a process the kernel answers EINVAL for
    if "cmdline" in plat_out["netbsd"]["methods"]:
        for state in ("zombie", "gone"):
            for via in ("module", "package"):
                for oneshot in (False, True):
                    row = {"k": "einval", "m": "cmdline", "pid": 5, "state": state, "oneshot": oneshot}
                    if via == "package":
                        row["via"] = "package"
                    batches["netbsd"].append(("einval", (state, via, oneshot), row))
    # POSIX front end: signals to a live / zombie / vanished process, then queries on the same object
    for p in PLATFORMS:
        if p != "windows":
            for state in ("alive", "zombie", "gone"):
                batches[p].append(("sigseq", state, {"k": "sigseq", "pid": 5, "state": state}))
    # Windows: ReadProcessMemory-based methods retry on ERROR_PARTIAL_COPY; a transient one must not
    # show, a persistent one ends as AccessDenied (by design, issue #875) or as the error itself
    for m in ("cmdline", "environ", "cwd"):
        if m in plat_out["windows"]["methods"]:
            for via in ("module", "package"):
                for n in (1, 5, 10 ** 6):
                    row = {"k": "partial", "m": m, "pid": 5, "n": n}
                    if via == "package":
                        row["via"] = "package"
                    batches["windows"].append(("partial", (m, via, n), row))
    for e in chosen:
        p = e["row"]["p"]
        batches[p].append(("err", ("module", e), module_row(e)))
        if e["row"]["m"] in PACKAGE_METHODS and (thorough or rnd.random() < 0.35):
            batches[p].append(("err", ("package", e), module_row(e, via="package", oneshot=rnd.random() < 0.3)))

    answers = run_all(cfgs, {p: [b[2] for b in batches[p]] for p in PLATFORMS}, 3 if thorough else 2)

    # ---- judge ---------------------------------------------------------------
    baselines = {}
    for p in PLATFORMS:
        for (tag, payload, row), ans in zip(batches[p], answers[p]):
            if tag == "baseline":
                if ans.get("cls") == "RunnerError":
                    raise core.Machinery("baseline of %s.%s failed: %s" % (p, row["m"], ans.get("text")))
                baselines[(p,) + payload] = ans
    judge = Judge(ctx, plat_out, layouts, baselines)
    unknown_methods = {}
    lay_ok = collections.Counter()
    for p in PLATFORMS:
        pe = plat_out[p]
        keys = sorted(pe["slots"])
        for (tag, payload, row), ans in zip(batches[p], answers[p]):
            if tag == "platform":
                extra = judge_platform(ctx, p, pe, ans)
                if extra:
                    unknown_methods[p] = extra
            elif tag == "frontend":
                judge_net_if_addrs(ctx, p, pe, ans)
            elif tag == "sysconn":
                # the system-wide listing: every record is the 7-slot sconn, its last slot the owner's PID
                # -- also when that PID is 0
                ctx.case(("sysconn", p))
                rows = ans.get("val", {}).get("l") if ans.get("cls") == "ok" else None
                if p in ("macos",):
                    pass        # macOS builds the system-wide listing from per-process calls
                elif not rows:
                    ctx.disagree("conf:%s:net_connections:system-wide" % p, "psutil.net_connections() on %s -> %r" % (p, ans),
                                 {"platform": p, "answer": ans})
                else:
                    shapes = [(r.get("nt"), r.get("f", [])[-1:], r.get("v", [])[-1:]) for r in rows]
                    pids = sorted(v[0] for _, f, v in shapes if f == ["pid"])
                    if any(nt != "sconn" for nt, _, _ in shapes) or pids != [0, 5]:
                        ctx.disagree("conf:%s:net_connections:system-wide:record" % p,
                                     "psutil.net_connections() on %s: records %r; expected two sconn records owned by PIDs 0 and 5"
                                     % (p, [(nt, f, v) for nt, f, v in shapes]), {"platform": p, "answer": ans})
            elif tag == "baseline":
                via, m, pid = payload
                if pid == 5 and ans.get("cls") != "ok":
                    ctx.disagree("conf:%s:%s:baseline" % (p, m),
                                 "%s %s.%s() fails on a healthy process although no native access failed: %r" % (via, p, m, ans),
                                 {"platform": p, "row": row, "answer": ans})
            elif tag == "layout":
                m, mode, via, oneshot, out = payload
                ctx.case(("layout", p, m, mode, via, oneshot))
                if ans.get("cls") == "RunnerError":
                    raise core.Machinery("runner error on layout row %s.%s: %s" % (p, m, ans.get("text")))
                if mode == "alt" and not ans.get("fired"):
                    raise core.Machinery("layout row %s.%s/alt: the primary native access was never made" % (p, m))
                if ans.get("cls") != "ok":
                    ctx.disagree("layout:%s:%s:%s:raised" % (p, m, mode),
                                 "%s %s.%s() (%s record%s) raised %r" % (via, p, m, mode, ", in oneshot()" if oneshot else "", ans),
                                 {"platform": p, "row": row, "answer": ans})
                    continue
                bad = match_layout(ans["val"], out, keys, pe["lists"])
                if via == "package" and m == "name":
                    bad = []
                for b in bad:
                    what = "type" if "named tuple type" in b else ("fields" if b.startswith("fields") else b.split(" ")[1] if b.startswith("field ") else "value")
                    ctx.disagree("layout:%s:%s:%s" % (p, m, what),
                                 "%s %s.%s() (%s record%s): %s   [every slot of the native record holds a distinct value]"
                                 % (via, p, m, mode, ", in oneshot()" if oneshot else "", b),
                                 {"platform": p, "row": row, "expected": out, "answer": ans})
                if not bad:
                    lay_ok[(p, mode)] += 1
            elif tag == "sigseq":
                state = payload
                ctx.case(("sigseq", p, state))
                if ans.get("cls") != "ok":
                    raise core.Machinery("runner error on signal row %s/%s: %s" % (p, state, ans.get("text")))
                got = [(s0["what"], s0["cls"]) for s0 in ans["steps"]]
                zsig = "ZombieProcess" if (state == "zombie" and p == "openbsd") else "ok"
                want = {"alive": ["ok", "ok", "ok", "ok"], "zombie": [zsig, zsig, "ok", "ok"],
                        "gone": ["NoSuchProcess", "NoSuchProcess", "NoSuchProcess", "ok"]}[state]
                run_val = ans["steps"][3].get("val")
                ok = [c for _, c in got] == want and run_val == (state != "gone")
                if not ok:
                    ctx.disagree("conf:%s:signal-sequence:%s" % (p, state),
                                 "kill(), kill(), ppid(), is_running() on one object of a process that is %s on %s -> %r "
                                 "(is_running() = %r); expected outcome classes %r and is_running() = %r"
                                 % (state, p, got, run_val, want, state != "gone"), {"platform": p, "row": row, "answer": ans})
            elif tag == "partial":
                m, via, n = payload
                ctx.case(("partial", p, m, via, n))
                if ans.get("cls") == "RunnerError":
                    raise core.Machinery("runner error on partial-copy row %s.%s: %s" % (p, m, ans.get("text")))
                base = baselines.get((p, via, m, 5), {})
                if n < 33:
                    ok = ans.get("cls") == "ok" and ans.get("val") == base.get("val")
                else:
                    ok = (ans.get("cls") == "AccessDenied" and ans.get("pid") == 5) or ans.get("cls") == "Unchanged"
                if not ok:
                    ctx.disagree("conf:windows:partial-copy:%s:%s" % (m, "transient" if n < 33 else "persistent"),
                                 "%s windows.%s() with ERROR_PARTIAL_COPY on %s -> %r; expected %s"
                                 % (via, m, "its first %d native accesses" % n if n < 33 else "every native access",
                                    {k: v for k, v in ans.items() if k != "log"},
                                    "the value of an undisturbed call" if n < 33 else "AccessDenied(pid=5) (or the OSError itself)"),
                                 {"platform": p, "row": row, "answer": ans})
            elif tag == "vanished":
                m, via, oneshot = payload
                ctx.case(("vanished", p, m, via, oneshot))
                if ans.get("cls") == "RunnerError":
                    raise core.Machinery("runner error on vanished row %s.%s: %s" % (p, m, ans.get("text")))
                if ans.get("cls") != "NoSuchProcess" or ans.get("pid") != 5:
                    ctx.disagree("conf:%s:vanished:%s%s" % (p, m, ":oneshot" if oneshot else ""),
                                 "%s %s.%s()%s on a process that exited and was reaped (the native call answers with an empty "
                                 "result, not ESRCH) -> %r, expected NoSuchProcess(pid=5)"
                                 % (via, p, m, " inside the oneshot() block that had looked at it alive" if oneshot else "",
                                    {k: v for k, v in ans.items() if k != "log"}),
                                 {"platform": p, "row": row, "answer": ans})
            elif tag == "refused":
                m, e = payload
                ctx.case(("refused", p, m, e))
                if ans.get("cls") == "RunnerError":
                    raise core.Machinery("runner error on refused row: %s" % ans.get("text"))
                sec = ans.get("second", {})
                ok1 = ans.get("cls") == "AccessDenied" and ans.get("pid") == 5
                ok2 = sec.get("cls") == "ok" and sec.get("val") == ans.get("fresh", {}).get("val")
                if not ok1 or not ok2:
                    ctx.disagree("conf:%s:refused:%s" % (p, m),
                                 "%s.%s() through the front end with every native access refused (%s) -> %r; asked again once access "
                                 "is granted -> %r (a new object: %r); expected AccessDenied(pid=5), then the answer a new object gets"
                                 % (p, m, e, {k: v for k, v in ans.items() if k not in ("log", "second", "fresh")}, sec, ans.get("fresh")),
                                 {"platform": p, "row": row, "answer": ans})
            elif tag == "einval":
                state, via, oneshot = payload
                ctx.case(("einval", p, state, via, oneshot))
                if ans.get("cls") == "RunnerError":
                    raise core.Machinery("runner error on einval row: %s" % ans.get("text"))
                want = "ZombieProcess" if state == "zombie" else "NoSuchProcess"
                if ans.get("cls") != want or ans.get("pid") != 5:
                    ctx.disagree("conf:netbsd:cmdline-einval:%s" % state,
                                 "%s netbsd.cmdline()%s with the native call answering EINVAL for a %s process -> %r, expected %s(pid=5)"
                                 % (via, " inside oneshot()" if oneshot else "", state, {k: v for k, v in ans.items() if k != "log"}, want),
                                 {"platform": p, "row": row, "answer": ans})
            elif tag == "err":
                via, e = payload
                judge.judge(p, dict(e["row"], **{k: v for k, v in row.items() if k in ("oneshot",)}), e["out"], ans, via)
    judge.flush(True)
    ctx.cov["traces_validated_against_impl"] += sum(len(b) for b in batches.values())
    ctx.cov["replayed_transitions"] += len(chosen)
    for p, tag_want in (("freebsd", "err"), ("windows", "err"), ("sunos", "layout")):
        for (tag, payload, row), ans in zip(batches[p], answers[p]):
            if tag == tag_want and (tag != "err" or ans.get("fired")):
                ctx.sample({"kind": "table row replayed on " + p, "row": row,
                            "allowed": payload[1]["out"] if tag == "err" else payload[4],
                            "answer": {k: v for k, v in ans.items() if k != "log"}}, limit=3)
                break
    ctx.cov.setdefault("replay", {})["table-rows"] = {
        "rows_enumerated": len(errs), "rows_replayed_module": len(chosen),
        "rows_replayed_package": sum(1 for p in PLATFORMS for b in batches[p] if b[0] == "err" and b[1][0] == "package"),
        "layout_rows": sum(1 for p in PLATFORMS for b in batches[p] if b[0] == "layout"),
        "fired": judge.stats["fired"], "site_beyond_last_native_access": judge.stats["unfired"],
        "outcomes": {"%s:%s" % k: v for k, v in sorted(judge.seen.items())},
        "recovered_by_method": {"%s.%s" % k: v for k, v in sorted(judge.recovered.items())}}
    if unknown_methods:
        ctx.notes.append("platform Process attributes outside the table (not replayed): %r" % unknown_methods)

    # ---- mode 4 ----------------------------------------------------------------
    trace_validate(ctx, judge, plat_out, cfgs, 30000 if thorough else 2500)

    # ---- the model check that ran meanwhile -------------------------------------
    th.join()
    r = mc[0]
    ctx.tlc("decision-table", r, {k: (sorted(v) if isinstance(v, set) else v) for k, v in cm.items()})
    if r.violated:
        tr = tlc.trace_events(r.trace)
        ctx.disagree("model:%s" % r.violated, "TLC: meta-property %s of the decision table is violated\n%s"
                     % (r.violated, r.out[-1500:]), {"trace": tr})

    # ---- vacuity ----------------------------------------------------------------
    for p in PLATFORMS:
        want = ["NoSuchProcess", "AccessDenied", "Unchanged"] + ([] if p == "windows" else ["ZombieProcess"])
        for cls in want:
            if not judge.expected[(p, cls)]:
                core.vacuity("no delivered fault on %s demanded %s" % (p, cls))
            if not judge.seen[(p, cls)] and not ctx.violations:
                core.vacuity("outcome class %s was never observed on %s" % (cls, p))
        if plat_out[p]["pid0rule"] and not judge.pid0[p]:
            core.vacuity("the PID 0 rule was never exercised on %s" % p)
        for m in plat_out[p]["methods"]:
            if not judge.fired[(p, m)]:
                core.vacuity("no native access of %s.%s() was ever made to fail" % (p, m))
        if not lay_ok[(p, "primary")]:
            core.vacuity("no layout row of %s matched" % p)
    for p in ("netbsd", "sunos", "aix"):
        if not judge.kinds[(p, "procfs")] or not judge.kinds[(p, "sys")]:
            core.vacuity("%s: both kinds of native access must fail at least once (%r)" % (p, dict(judge.kinds)))
    if not lay_ok[("windows", "alt")] and not any(v[0].startswith("layout:windows") for v in ctx.violations):
        core.vacuity("no fallback-record layout row of windows matched")
    site1 = sum(1 for e in chosen if e["row"]["site"] == 1)
    if judge.stats["fired"] < 0.8 * site1:
        core.vacuity("only %d faults were delivered for %d rows with site 1" % (judge.stats["fired"], site1))


# ---------------------------------------------------------------------------
# mode 4: random larger rows through psutil.Process, judged by TLC
# ---------------------------------------------------------------------------

def trace_validate(ctx, judge, plat_out, cfgs, n):
    rnd = random.Random(ctx.seed * 7919 + 13)
    rows_by_plat = {p: [] for p in PLATFORMS}
    for i in range(n):
        p = PLATFORMS[i % len(PLATFORMS)]
        pe = plat_out[p]
        via = "package" if rnd.random() < 0.75 else "module"
        ms = sorted(m for m in pe["methods"] if via == "module" or m in PACKAGE_METHODS)
        errs = ERRNOS + (WINCODES if p == "windows" else [])
        pid = rnd.choice([0, 0, 1, 5, 77, 4321, 2 ** 22, 2 ** 31 - 1])
        row = {"k": "err", "m": rnd.choice(ms), "pid": pid, "z": (p != "windows" and pid != 0 and rnd.random() < 0.4),
               "p0": rnd.random() < 0.6, "site": rnd.choice([1, 1, 1, 2, 2, 3, 4, 5, 6]), "e": rnd.choice(errs),
               "name": "".join(rnd.choice("abcXYZ-_. 09") for _ in range(rnd.randint(1, 14))).strip() or "x",
               "scale": rnd.choice([1, 2 ** 20, 2 ** 40 + 1]), "oneshot": rnd.random() < 0.3}
        if via == "package":
            row["via"] = "package"
        rows_by_plat[p].append(row)
    # baselines for the (method, pid) pairs are value-independent of name/scale only in shape;
    # here 'ok' values are judged against the layout of the spec (scale and name applied) or ignored
    answers = run_all(cfgs, rows_by_plat, 2)
    lines, meta = [], []
    for p in PLATFORMS:
        for row, ans in zip(rows_by_plat[p], answers[p]):
            if ans.get("cls") == "RunnerError":
                raise core.Machinery("runner error in trace driver on %s %r: %s" % (p, row, ans.get("text")))
            via = row.get("via", "module")
            key = ("trace", p, json.dumps(row, sort_keys=True))
            if not ans.get("fired"):
                ctx.case(key, nontrivial=False)
                continue
            ctx.case(key)
            if front_end_zombie(via, row["m"], ans):
                ans = dict(ans, cls="ZombieProcess", pid=row["pid"], name=ans.get("cached"))
            cls = ans["cls"]
            if cls == "ok":
                lay = judge.layouts.get((p, row["m"]))
                okv = True
                if lay and not (via == "package" and row["m"] == "name"):
                    okv = any(not match_layout(ans["val"], lay[mode], judge.keys(p), plat_out[p]["lists"], row["scale"], row["name"], False)
                              for mode in lay)
                    if not okv and row["m"] in LIST_METHODS and isinstance(ans["val"], dict) and len(ans["val"].get("l", [])) < 2:
                        okv = True
                if not okv:
                    ctx.disagree("trace:%s:%s:%s:returned" % (p, row["m"], row["e"]),
                                 "%s %s.%s() returned %r after %s error %s at native access #%d (%s): not the documented value"
                                 % (via, p, row["m"], ans["val"], ans["kind"], row["e"], row["site"], ans["fn"]),
                                 {"platform": p, "row": row, "answer": ans})
            inp = {"k": "err", "p": p, "m": row["m"], "e": row["e"], "site": row["site"], "z": row["z"],
                   "pid": row["pid"], "p0": row["p0"], "mode": "-", "kind": ans["kind"]}
            got = {"cls": cls, "pid_ok": ans.get("pid") == row["pid"], "name_ok": ans.get("name") == ans.get("cached")}
            lines.append({"inp": inp, "got": got})
            meta.append((p, row, ans))
    if len(lines) < n // 4:
        raise core.Machinery("trace driver: only %d of %d random rows had their fault delivered" % (len(lines), n))
    d = tlc.scratch()
    tf = os.path.join(d, "trace.ndjson")
    with open(tf, "w") as f:
        for l in lines:
            f.write(json.dumps(l) + "\n")
    cfg = os.path.join(d, "t.cfg")
    tlc.write_cfg(cfg, consts(1), init="TInit", next_="TNext", invariants=["Match"])
    r = tlc.run("PlatformTrace", cfg, workers=4, env={"TRACE_FILE": tf}, timeout=900)
    ctx.tlc("trace-validation", r)
    ctx.cov["traces_validated_against_impl"] += len(lines)
    ctx.cov.setdefault("replay", {})["trace-validation"] = {
        "random_rows": n, "records_with_fault_delivered": len(lines),
        "outcomes": dict(collections.Counter(l["got"]["cls"] for l in lines))}
    if r.violated:
        rej = {}
        for tag, payload in r.printed:
            if tag == "REJECTED":
                v = tlc.parse_value("<<" + payload + ">>")
                rej[int(v[0])] = sorted(v[1])
        for i in sorted(rej)[:200]:
            p, row, ans = meta[i - 1]
            l = lines[i - 1]
            cls = l["got"]["cls"]
            via = row.get("via", "module")
            where = "%s %s.%s() [pid %d, %s, %s error %s at per-process native access #%d = %s, name %r, scale %d%s]" % (
                via, p, row["m"], row["pid"], pidclass(row), ans["kind"], row["e"], row["site"], ans["fn"], row["name"],
                row["scale"], ", in oneshot()" if row["oneshot"] else "")
            replay = {"platform": p, "row": row, "via": via, "allowed": rej[i], "answer": ans, "trace_line": l}
            if cls in rej[i]:
                ctx.disagree("conf:%s:%s:exc-fields" % (p, row["m"]),
                             "TLC rejects a recorded outcome: %s raised %s(pid=%r, name=%r); the exception must carry pid %d "
                             "and the cached name %r" % (where, cls, ans.get("pid"), ans.get("name"), row["pid"], ans.get("cached")), replay)
            else:
                judge.deviate(p, row, via, rej[i], cls, "TLC rejects a recorded outcome: %s raised %s%s; the contract demands %s"
                              % (where, cls, " (%s)" % ans.get("text", "")[-300:] if "text" in ans else "", "/".join(rej[i])), replay)
        judge.flush(False)
        if not rej:
            raise core.Machinery("trace validation failed without naming a record: %s" % r.violated)
    shutil.rmtree(d, ignore_errors=True)
    if lines:
        ctx.sample({"kind": "recorded trace line", "line": lines[0]})
        ctx.sample({"kind": "recorded trace line", "line": lines[len(lines) // 2]})


def main(prop, argv):
    core.main_wrapper(check, prop, argv)

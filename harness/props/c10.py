"""C10 -- nowrap=True counters (spec/WrapNumbers.tla).

TLC decides res = exp (code-shaped result equals what the property demands)
for every bounded history; the real net_io_counters()/disk_io_counters() over
rendered /proc/net/dev, /proc/diskstats and /sys/block are bound to `res` by
transition-tour replay, simulation replay and a two-thread line-level
scheduler run (lock discipline)."""
import json
import os
import random
import shutil

from harness import core, forkpool, graph, tlc
from harness.simkernel import World, import_psutil

FIXES = {"C10empty"}
KNOWN = {"C10-form-switch"}

# per-output-column scales (distinct, even, up to 2^64-1 magnitudes): every
# formula involved is positively homogeneous so scaling commutes with it
NET_COLS = [8, 0, 9, 1, 2, 10, 3, 11]      # psutil field j -> kernel column
SCALES = [1, 2 ** 10, 2 ** 31 + 6, 2 ** 53 + 2, 3, 5, 7, (2 ** 64 - 1) // 64]
DISK_OUT = ["reads", "writes", "rbytes", "wbytes", "rtime", "wtime", "rmerged", "wmerged", "busy"]
# psutil output index j -> index among the 11 diskstats counters
DISK_COLS = [0, 4, 2, 6, 3, 7, 1, 5, 9]


def consts(maxv, nf, maxcalls, fixes=None, known=None, active=("net", "disk"),
           nowraps=(True, False), forms=("per", "tot")):
    return {"MaxV": maxv, "NF": nf, "MaxCalls": maxcalls, "Active": set(active),
            "NowrapSet": "@{" + ", ".join("TRUE" if x else "FALSE" for x in nowraps) + "}",
            "FormSet": set(forms),
            "Fixes": set(FIXES if fixes is None else fixes),
            "KnownFindings": set(KNOWN if known is None else known)}


PROPS = ["C10_ExactOffset", "C10_GhostMonotone", "C10_Isolation", "C10_NowrapFalsePure"]


class Adapter:
    def __init__(self, w, ps, nf):
        self.w, self.ps, self.nf = w, ps, nf
        w.netdev = {}
        w.disks = []
        w.sysblock = {"sda"}
        self.raw = {"net": {}, "disk": {}}

    def fld(self, j):
        return j % self.nf          # model field (0-based) feeding output column j

    def sync(self):
        w = self.w
        w.netdev = {}
        for k, val in self.raw["net"].items():
            cols = [0] * 16
            for j, kc in enumerate(NET_COLS):
                cols[kc] = val[self.fld(j)] * SCALES[j % len(SCALES)]
            w.netdev[k] = cols
        w.disks = []
        for i, (k, val) in enumerate(sorted(self.raw["disk"].items())):
            c = [0] * 17
            for j, kc in enumerate(DISK_COLS):
                c[kc] = val[self.fld(j)] * SCALES[j % len(SCALES)]
            w.disks.append((8, i, k, c, 20))

    def expect(self, name, tup):
        """model tuple -> expected psutil tuple"""
        n = 8 if name == "net" else 9
        out = []
        for j in range(n):
            v = tup[self.fld(j)] * SCALES[j % len(SCALES)]
            if name == "disk" and j in (2, 3):
                v *= 512
            out.append(v)
        return tuple(out)

    def step(self, e):
        ps, op = self.ps, e["op"]
        if op == "k_set":
            self.raw[e["name"]][e["key"]] = list(e["val"])
            self.sync()
            return None
        if op == "k_del":
            self.raw[e["name"]].pop(e["key"], None)
            self.sync()
            return None
        fn = ps.net_io_counters if e["name"] == "net" else ps.disk_io_counters
        if op == "cache_clear":
            fn.cache_clear()
            return None
        per = e["form"] == "per"
        kw = {("pernic" if e["name"] == "net" else "perdisk"): per, "nowrap": e["nowrap"]}
        try:
            got = fn(**kw)
        except Exception as ex:  # noqa: BLE001
            return "%s(%r) raised %r" % (fn.__name__, kw, ex)
        if e["empty"]:
            exp = {} if per else None
        elif per:
            exp = {k: self.expect(e["name"], v) for k, v in e["res"].items()}
        else:
            exp = self.expect(e["name"], e["res"])
        if per and got is not None:
            got = {k: tuple(v) for k, v in got.items()}
        elif got is not None:
            got = tuple(got)
        if got != exp:
            if e.get("excused") and not e["empty"]:
                # a key carrying the signed form-switch taint: code that repairs the
                # finding returns what the statement demands (exp) -- accept that too
                alt = ({k: self.expect(e["name"], v) for k, v in e["exp"].items()} if per
                       else self.expect(e["name"], e["exp"]))
                if got == alt:
                    return None
            return "%s(%r) -> %r, specification predicts %r" % (fn.__name__, kw, got, exp)
        return None


from harness.tmpl import template  # noqa: E402


def run_events(job):
    nf, events = job
    w, ps = template()
    ad = Adapter(w, ps, nf)
    for i, e in enumerate(events):
        m = ad.step(e)
        if m is not None:
            return {"step": i, "mismatch": m, "event": e}
    return {"steps": len(events)}


def sig_of(e):
    return "%s:%s:%s:nowrap=%s" % (e.get("op"), e.get("name"), e.get("form"), e.get("nowrap"))


def record(ctx, jobs, res, name, kind):
    steps = 0
    for job, (st, val) in zip(jobs, res):
        if st != "ok":
            raise core.Machinery("replay worker failed: %s" % (val,))
        if "mismatch" in val:
            ctx.disagree("conf:" + sig_of(val["event"]),
                         "code and specification disagree at step %d of a %s behaviour: %s"
                         % (val["step"], kind, val["mismatch"]),
                         {"nf": job[0], "events": job[1][:val["step"] + 1]})
            steps += val["step"]
        else:
            steps += val["steps"]
        for e in job[1]:
            if e["op"] == "call":
                ctx.case(json.dumps(e, sort_keys=True))
    ctx.cov["replayed_transitions"] += steps
    ctx.cov["traces_validated_against_impl"] += len(jobs)
    ctx.cov.setdefault("replay", {})[name] = {"behaviours": len(jobs), "steps": steps}
    if jobs:
        ctx.sample({"kind": kind, "events": jobs[len(jobs) // 2][1][:10]})


def edge_class(g, ei):
    s, e, t = g.edges[ei]
    if e["op"] != "call":
        return (e["op"], e.get("name"))
    st = g.states[s]
    has = st[1][e["name"]]
    wrapped = any(any(v) for v in st[3][e["name"]].values())
    return ("call", e["name"], e["form"], e["nowrap"], e["empty"], has, wrapped,
            e["res"] == e["exp"], e["excused"])


def replay_graph(ctx, name, g, nf, per_class):
    only = None
    if per_class is not None:
        rnd = random.Random(ctx.seed)
        order = list(range(len(g.edges)))
        rnd.shuffle(order)
        cnt, only = {}, []
        for ei in order:
            c = edge_class(g, ei)
            if cnt.get(c, 0) < per_class:
                cnt[c] = cnt.get(c, 0) + 1
                only.append(ei)
    if g.unreachable:
        raise core.Machinery('dump has %d unreachable transitions' % g.unreachable)
    segs = g.tour(maxlen=40, only=only)
    jobs = [(nf, [g.edges[e][1] for e in seg]) for seg in segs]
    res = forkpool.map_fork(run_events, jobs, nproc=16)
    record(ctx, jobs, res, name, "replayed (transition tour)")
    return {e["op"] for j in jobs for e in j[1]}


def replay_sim(ctx, name, c, num, depth):
    d = tlc.scratch()
    cfg = os.path.join(d, name + ".cfg")
    tlc.write_cfg(cfg, c)
    r = tlc.run("WrapNumbers", cfg, workers=1, timeout=600,
                simulate="file=%s/b,num=%d" % (d, num), depth=depth, seed=ctx.seed)
    ctx.tlc(name, r)
    jobs = []
    for f in sorted(os.listdir(d)):
        if f.startswith("b_"):
            beh = tlc.parse_sim_file(os.path.join(d, f))
            if len(beh) >= 2:
                jobs.append((c["NF"], [st["ev"] for _, st in beh[1:]]))
    shutil.rmtree(d, ignore_errors=True)
    if not jobs:
        raise core.Machinery("simulation produced no behaviours")
    for j in jobs:   # TLC prints functions with string domains as records: fine
        for e in j[1]:
            if e["op"] == "call" and isinstance(e["res"], list) and e["form"] == "per":
                e["res"] = {}
    res = forkpool.map_fork(run_events, jobs, nproc=16)
    record(ctx, jobs, res, name, "simulated")


DUMPS = [("dump-disk", lambda: consts(1, 1, 4, active=("disk",))),
         ("dump-net", lambda: consts(1, 1, 4, active=("net",))),
         ("dump-net-deep", lambda: consts(1, 1, 8, active=("net",), nowraps=(True,), forms=("per",))),
         ("dump-disk-deep", lambda: consts(1, 1, 6, active=("disk",), nowraps=(True,))),
         ("dump-net-2fields", lambda: consts(1, 2, 4, active=("net",), nowraps=(True,), forms=("per",)))]


def warm(ctx):
    out = []
    for name, c in DUMPS:
        r = tlc.dump_cached("WrapNumbers", c(), constraints=["Bound"])
        ctx.tlc(name, r)
        graph.from_dump(r)
        out.append((name, r))
    return out


def model_violation(ctx, r, name, nf):
    evs = tlc.trace_events(r.trace)
    parsed = [tlc.parse_value(t) if t else {"op": "?"} for _, t in evs]
    job = (nf, parsed[1:])
    for e in job[1]:
        if e["op"] == "call" and e["form"] == "per" and isinstance(e["res"], list):
            e["res"] = {}
    st, val = forkpool.fork_call(run_events, job)
    confirmed = st == "ok" and "mismatch" not in val
    last = parsed[-1]
    ctx.disagree("model:%s:%s" % (r.violated, sig_of(last)),
                 "TLC: %s violated in %d steps (%s on the real code: %s)\n%s"
                 % (r.violated, len(parsed) - 1,
                    "behaviour reproduced" if confirmed else "NOT reproduced", val,
                    "\n".join("%s %s" % x for x in evs)),
                 {"nf": nf, "events": job[1], "property": r.violated})


def check(ctx):
    forkpool.start(16, init=template)
    thorough = ctx.tier == "thorough"
    ctx.cov["rule"] = ("cases = public calls net_io_counters/disk_io_counters (function, form, nowrap, "
                       "cache state, raw listing) replayed into the real code; distinct = distinct call event records")
    ctx.assumptions += [
        "a key's history ends only when a nowrap=True call observes it absent from the kernel's listing, or at cache_clear()",
        "counters are exercised at per-column scales up to (2^64-1)/64; every formula is positively homogeneous",
        "algorithm variant checked by TLC: Fixes = %s, signed findings = %s" % (sorted(FIXES), sorted(KNOWN)),
    ]
    # (1) exhaustive
    c = consts(2, 1, 4) if thorough else consts(1, 1, 4)   # (2 values, 5 calls: 9.4M states, 11 min -- run by hand)
    cfg = os.path.join(tlc.scratch(), "ex.cfg")
    tlc.write_cfg(cfg, c, view="view", properties=PROPS, invariants=["RemOnlyForCached"],
                  constraints=["Bound"])
    r = tlc.run("WrapNumbers", cfg, timeout=3000)
    ctx.tlc("exhaustive", r, {k: (sorted(v) if isinstance(v, set) else v) for k, v in c.items()})
    if r.violated:
        model_violation(ctx, r, "exhaustive", 1)
    if thorough:
        c2 = consts(1, 2, 4)
        cfg = os.path.join(tlc.scratch(), "ex2.cfg")
        tlc.write_cfg(cfg, c2, view="view", properties=PROPS, invariants=["RemOnlyForCached"],
                      constraints=["Bound"])
        r2 = tlc.run("WrapNumbers", cfg, timeout=3000)
        ctx.tlc("exhaustive-2fields", r2)
        if r2.violated:
            model_violation(ctx, r2, "exhaustive-2fields", 2)
    # signed finding: show it is still there (KNOWN-FINDING line) -- with the
    # carve-out removed TLC must report exactly that shape
    if KNOWN:
        c0 = consts(1, 1, 3, known=set())
        cfg = os.path.join(tlc.scratch(), "kf.cfg")
        tlc.write_cfg(cfg, c0, view="view", properties=["C10_ExactOffset"], constraints=["Bound"])
        r0 = tlc.run("WrapNumbers", cfg, timeout=600)
        ctx.tlc("known-finding-probe", r0)
        if r0.violated:
            evs = [tlc.parse_value(t) for _, t in tlc.trace_events(r0.trace)[1:]]
            last = evs[-1]
            forms = [e["form"] for e in evs if e["op"] == "call" and e["name"] == "disk" and e["nowrap"]]
            if last.get("name") == "disk" and "tot" in forms and "per" in forms:
                st, val = forkpool.fork_call(run_events, (1, evs))
                if st == "ok" and "mismatch" not in val:
                    ctx.disagree("C10-form-switch", "form switch", {"events": evs})
                else:
                    ctx.notes.append("C10-form-switch: model shape not reproduced on the code: %s" % (val,))
            else:
                ctx.disagree("model:C10_ExactOffset:unsigned",
                             "TLC without carve-outs reports a shape that is not the signed one:\n%s"
                             % "\n".join(map(str, evs)), {"events": evs})
    # (4) regression: the model exposes the empty-listing defect of 7.0.0
    if "C10empty" in FIXES:
        cr = consts(1, 1, 3, fixes=set())
        cfg = os.path.join(tlc.scratch(), "reg.cfg")
        tlc.write_cfg(cfg, cr, view="view", properties=["C10_ExactOffset"], constraints=["Bound"])
        rr = tlc.run("WrapNumbers", cfg, timeout=600)
        ctx.tlc("regression-without-C10empty", rr)
        if rr.violated != "C10_ExactOffset":
            raise core.Machinery("specification no longer exposes the empty-listing defect of 7.0.0")
    # (2) transition tour
    ops = set()
    for name, r in warm(ctx):
        g = graph.from_dump(r)
        ops |= replay_graph(ctx, name, g, 2 if "2fields" in name else 1,
                            None if (thorough or len(g.edges) < 60000) else 3)
    if {"call", "cache_clear", "k_set", "k_del"} - ops:
        core.vacuity("operations never replayed: %s" % ({"call", "cache_clear", "k_set", "k_del"} - ops))
    # (3) deep random behaviours, 2 fields, larger values
    replay_sim(ctx, "simulate-nf2", consts(3, 2, 30), 3000 if thorough else 500, 40)
    replay_sim(ctx, "simulate-nf1", consts(3, 1, 30), 3000 if thorough else 300, 40)
    check_threads(ctx, thorough)
    check_histories(ctx, thorough)
    if thorough:
        from .. import apalache
        apalache.discharge(ctx, "WrapCore")


# ---------------------------------------------------------------------------
# two real threads under the line-level scheduler, judged for linearizability
# ---------------------------------------------------------------------------

def unscale(name, tup, nf):
    """real tuple -> model tuple (exact division by the column scales)"""
    out = [None] * nf
    for j, v in enumerate(tup):
        s = SCALES[j % len(SCALES)] * (512 if name == "disk" and j in (2, 3) else 1)
        q, r = divmod(v, s)
        f = j % nf
        if r or (out[f] is not None and out[f] != q):
            return "garbled:%r" % (tup,)
        out[f] = q
    return out


def thread_chunk(job):
    from harness import sched
    seed, bound, limit = job
    w, ps = template()
    from psutil import _common
    rnd = random.Random(seed)
    traces = []
    state = {}
    name = "net" if seed % 2 == 0 else "disk"
    fn = ps.net_io_counters if name == "net" else ps.disk_io_counters
    perkw = "pernic" if name == "net" else "perdisk"
    keys = ["e0", "e1"] if name == "net" else ["sda", "sda1"]
    progs = [
        ([("call", True)], [("cache_clear",)]),
        ([("call", True), ("call", True)], [("cache_clear",), ("call", True)]),
        ([("call", True)], [("call", True)]),
    ][seed % 3]

    def make_bodies(run):
        fn.cache_clear()
        ad = Adapter(w, ps, 1)
        pre = []
        for val in ([1], [0], [1]):      # wrap history: 1 -> 0 -> 1 (offset 1 accumulated)
            for k in keys:
                ad.raw[name][k] = list(val)
                pre.append({"op": "k_set", "name": name, "key": k, "val": list(val)})
            ad.sync()
            got = fn(**{perkw: True, "nowrap": True})
            pre.append({"op": "call", "name": name, "nowrap": True, "form": "per", "empty": False,
                        "res": {k: unscale(name, tuple(v), 1) for k, v in got.items()}})
        for k in keys:
            ad.raw[name][k] = [0]
            pre.append({"op": "k_set", "name": name, "key": k, "val": [0]})
        ad.sync()
        if not sched.coop_locks(_common._wn, run):
            _common._wn.lock = sched.CoopLock(run)
        logs = {"A": [], "B": []}
        state["pre"], state["logs"] = pre, logs

        def body(tn, ops):
            def f():
                for op in ops:
                    if op[0] == "cache_clear":
                        fn.cache_clear()
                        logs[tn].append({"op": "cache_clear", "name": name})
                    else:
                        try:
                            got = fn(**{perkw: True, "nowrap": op[1]})
                            res = {k: unscale(name, tuple(v), 1) for k, v in got.items()}
                            logs[tn].append({"op": "call", "name": name, "nowrap": op[1], "form": "per",
                                             "empty": False, "res": res})
                        except BaseException as ex:  # noqa: BLE001
                            logs[tn].append({"op": "call", "name": name, "nowrap": op[1], "form": "per",
                                             "empty": False, "res": {"exception": [type(ex).__name__]}})
            return f
        return [body("A", progs[0]), body("B", progs[1])]

    def on_run(run, plan, err):
        tr = {"pre": state["pre"], "thr": state["logs"], "plan": plan}
        if err is not None:
            tr["deadlock"] = str(err)
        traces.append(tr)

    sched.explore(make_bodies, ("psutil/_common.py", "psutil/__init__.py"), bound=bound, limit=limit, rnd=rnd, on_run=on_run)
    import threading
    _common._wn.lock = threading.Lock()
    return traces


def check_threads(ctx, thorough):
    jobs = [(ctx.seed * 13 + i, 3 if thorough else 2, 500 if thorough else 120) for i in range(12)]
    res = forkpool.map_fork(thread_chunk, jobs, timeout=1500)
    traces = []
    for st, val in res:
        if st != "ok":
            raise core.Machinery("thread driver failed: %s" % (val,))
        traces.extend(val)
    for t in [t for t in traces if "deadlock" in t][:2]:
        ctx.disagree("threads:deadlock", "the two-thread execution did not finish: %s" % t["deadlock"], t)
    traces = [t for t in traces if "deadlock" not in t]
    if sum(1 for t in traces if t["plan"]) < 10:
        core.vacuity("hardly any pre-empted schedule")
    d = tlc.scratch()
    tf = os.path.join(d, "traces.ndjson")
    with open(tf, "w") as f:
        for t in traces:
            f.write(json.dumps({"pre": t["pre"], "thr": t["thr"]}) + "\n")
    cfg = os.path.join(d, "t.cfg")
    c = consts(1, 1, 99)
    tlc.write_cfg(cfg, c, init="TInit", next_="TNext", constraints=["Progress"], postcondition="AllLinearizable")
    r = tlc.run("WrapNumbersTrace", cfg, workers=1, env={"TRACE_FILE": tf}, timeout=1500)
    ctx.tlc("threads-linearizability", r)
    shutil.rmtree(d, ignore_errors=True)
    ctx.cov["traces_validated_against_impl"] += len(traces)
    ctx.cov.setdefault("replay", {})["threads"] = {"executions": len(traces),
                                                   "pre-empted": sum(1 for t in traces if t["plan"])}
    for t in traces:
        ctx.case(json.dumps([t["thr"], t["plan"]], sort_keys=True))
    import re
    m = re.search(r'<<\s*"REJECTED",\s*(\{.*?\})\s*>>', r.out, re.S)
    if m:
        ids = tlc.parse_value(m.group(1))
        ctx.cov["replay"]["threads"]["rejected"] = len(ids)
        for i in ids[:3]:
            t = traces[i - 1]
            ctx.disagree("threads:not-linearizable",
                         "no interleaving of the two threads' calls explains the recorded results: A=%s B=%s (plan %s)"
                         % (json.dumps(t["thr"]["A"])[:300], json.dumps(t["thr"]["B"])[:300], t["plan"]), t)
    elif r.violated:
        raise core.Machinery("linearizability run failed: %s" % r.violated)


# ---------------------------------------------------------------------------
# every short history of one device: code -> specification
# ---------------------------------------------------------------------------
# The transition tours visit every transition of the model, but what the code
# remembers beyond the model's state (which reminders it considers registered,
# what a previous quiet sample left behind) depends on the whole history.  So:
# every sequence of what ONE device shows at each of n successive nowrap=True
# calls -- absent, or a counter value 0..2 -- next to a second device that stays
# put, is run through the public API and the recorded answers are validated by
# TLC against WrapNumbers.tla (the sequential case of WrapNumbersTrace.tla).

SYMS = ("A", 0, 1, 2)


def history_events(name, seq):
    k0, k1 = ("e0", "e1") if name == "net" else ("sda1", "sda")
    ev = [{"op": "k_set", "name": name, "key": k1, "val": [1]}]
    cur = "A"
    for s_ in seq:
        if s_ != cur:
            if s_ == "A":
                ev.append({"op": "k_del", "name": name, "key": k0})
            else:
                ev.append({"op": "k_set", "name": name, "key": k0, "val": [s_]})
            cur = s_
        ev.append({"op": "call", "name": name, "nowrap": True, "form": "per", "empty": False})
    return ev


def history_chunk(job):
    """Forked: run the histories on the real code, fill in the answers."""
    name, seqs = job
    w, ps = template()
    ad = Adapter(w, ps, 1)
    fn = ps.net_io_counters if name == "net" else ps.disk_io_counters
    perkw = "pernic" if name == "net" else "perdisk"
    out = []
    other = ps.disk_io_counters if name == "net" else ps.net_io_counters
    okw, oname = ("perdisk", "disk") if name == "net" else ("pernic", "net")
    for si, seq in enumerate(seqs):
        fn.cache_clear()
        other.cache_clear()
        ad.raw = {"net": {}, "disk": {}}
        # every other history is interleaved with calls of the sister function, which watches devices
        # of its own: the two keep separate books
        mixed = si % 2 == 1
        if mixed:
            ad.raw[oname] = {"zz%d" % j: [3 + j] * max(1, ad.nf) for j in range(2)}
        ad.sync()
        evs = history_events(name, seq)
        for e in evs:
            if e["op"] != "call":
                ad.step(e)
                continue
            try:
                if mixed:
                    other(**{okw: True, "nowrap": True})
                got = fn(**{perkw: True, "nowrap": True})
                e["res"] = {k: unscale(name, tuple(v), 1) for k, v in got.items()}
            except BaseException as ex:  # noqa: BLE001
                e["res"] = {"exception": [type(ex).__name__]}
        out.append(evs)
    return out


def check_histories(ctx, thorough):
    import itertools
    n = 7 if thorough else 6
    seqs = [q for q in itertools.product(SYMS, repeat=n) if q[0] != "A"]
    jobs = []
    for name in ("net", "disk"):
        mine = seqs if (thorough or name == "net") else seqs[::7]
        jobs += [(name, mine[i::8]) for i in range(8)]
    res = forkpool.map_fork(history_chunk, jobs, timeout=1500)
    traces = []
    for st, val in res:
        if st != "ok":
            raise core.Machinery("history driver failed: %s" % (val,))
        traces.extend(val)
    d = tlc.scratch()
    tf = os.path.join(d, "traces.ndjson")
    with open(tf, "w") as f:
        for t in traces:
            f.write(json.dumps({"pre": t, "thr": {"A": [], "B": []}}) + "\n")
    cfg = os.path.join(d, "t.cfg")
    tlc.write_cfg(cfg, consts(2, 1, 99), init="TInit", next_="TNext", constraints=["Progress"], postcondition="AllLinearizable")
    r = tlc.run("WrapNumbersTrace", cfg, workers=1, env={"TRACE_FILE": tf}, timeout=1500)
    ctx.tlc("short-histories", r, {"calls": n, "symbols": "absent,0,1,2", "histories": len(traces)})
    shutil.rmtree(d, ignore_errors=True)
    ctx.cov["traces_validated_against_impl"] += len(traces)
    ctx.cov.setdefault("replay", {})["short-histories"] = {"histories": len(traces), "calls_each": n}
    ctx.cov["evaluations"] += len(traces)
    ctx._distinct.update(hash(json.dumps(t)) for t in traces)
    import re
    m = re.search(r'<<\s*"REJECTED",\s*(\{.*?\})\s*>>', r.out, re.S)
    if m:
        ids = tlc.parse_value(m.group(1))
        ctx.cov["replay"]["short-histories"]["rejected"] = len(ids)
        for i in sorted(ids)[:3]:
            t = traces[i - 1]
            ctx.disagree("history:%s:rejected" % t[0]["name"],
                         "the answers recorded along this history are not those of the specification: %s" % json.dumps(t)[:1500],
                         {"history": t})
    elif r.violated:
        raise core.Machinery("history validation failed: %s" % r.violated)
    elif r.distinct < len(traces):
        raise core.Machinery("history validation did not consume the traces")


def replay(ctx, data):
    """Re-run a recorded behaviour on the working tree; True if code and
    specification still disagree."""
    if "history" in data.get("replay", {}):
        t = data["replay"]["history"]
        name = t[0]["name"]
        seq, cur = [], "A"
        for e in t[1:]:
            if e["op"] == "k_del":
                cur = "A"
            elif e["op"] == "k_set":
                cur = e["val"][0]
            else:
                seq.append(cur)
        st, val = forkpool.fork_call(history_chunk, (name, [tuple(seq)]))
        same = st == "ok" and [e.get("res") for e in val[0]] == [e.get("res") for e in t]
        print("  -> the working tree", "gives the same answers as recorded" if same else "answers differently now")
        return same
    if "events" not in data.get("replay", {}):
        return False
    st, val = forkpool.fork_call(run_events, (data['replay'].get('nf', 1), data['replay']['events']))
    print("  ->", st, val if st != "ok" else {k: v for k, v in val.items() if k != "event"})
    return st != "ok" or "mismatch" in val


def main(prop, argv):
    core.main_wrapper(check, prop, argv)

"""C04 -- pids(), pid_exists(), process_iter() (spec/ProcIter.tla)."""
import json
import os

from harness import core, forkpool, graph, tlc
from harness import replay as rp
from harness.simkernel import Thread, World, import_psutil

FIXES = {"C04overflow", "C04race"}
KNOWN = {"C04-reused-skipped"}
TICK = 50
PROPS = ["C04_Order", "C04_Complete", "C04_Identity", "C04_Keys", "C04_PidExists"]
PROBE = {97: -1, 98: 2 ** 64, 99: 2 ** 31}


def consts(pids=(1, 2), iters=(1,), maxobj=3, maxinc=3, maxup=2, tids=(5,), probe=(0, 7, 97, 99),
           fixes=None, known=None, attr_iters=(2,)):
    return {"Pids": set(pids), "MaxInc": maxinc, "MaxUp": maxup, "Boots": {10}, "AttrIters": "@{" + ", ".join(map(str, sorted(attr_iters))) + "}",
            "Iters": set(iters), "MaxObj": maxobj, "Tids": set(tids), "TidOwnerPid": min(p for p in pids if p > 0),
            "Probe": set(probe), "Fixes": set(FIXES if fixes is None else fixes),
            "KnownFindings": set(KNOWN if known is None else known)}


class Adapter:
    def __init__(self, w, ps):
        self.w, self.ps = w, ps
        self.gens, self.objs, self.keep = {}, {}, []
        self.pending, self.queued = None, []

    def kernel(self, e):
        w, op = self.w, e["op"]
        if op == "k_spawn":
            w.next_inc = e["inc"]
            w.spawn(e["pid"], start=e["start"] * TICK, ppid=0)
        elif op == "k_exit":
            w.exit(e["pid"])
        elif op == "k_reap":
            w.reap(e["pid"])
        elif op == "k_thread":
            p = w.procs[e["pid"]]
            p.threads = dict(p.tids())
            p.threads[e["tid"]] = Thread(b"worker", 1, 2)

    def _next(self, k):
        w = self.w
        fired = []
        if self.pending == k:
            q, self.queued, self.pending = self.queued, [], None
            if q:
                idx = w.acc + 1      # right after the listdir('/proc') of this next()

                def hook():
                    fired.append(1)
                    for e in q:
                        self.kernel(e)
                w.hooks.setdefault(idx, []).append(hook)
                try:
                    return next(self.gens[k])
                finally:
                    if not fired:        # no access followed the listing: same as after the call
                        w.hooks.pop(idx, None)
                        for e in q:
                            self.kernel(e)
        return next(self.gens[k])

    def step(self, e):
        w, ps, op = self.w, self.ps, e["op"]
        if op.startswith("k_"):
            if op == "k_tick":
                return None
            if self.pending is not None:
                self.queued.append(e)
            else:
                self.kernel(e)
            return None
        try:
            return self._step(e)
        except (ps.Error, OSError, ValueError, KeyError, IndexError, TypeError, OverflowError, RuntimeError) as ex:
            return "%s raised %r" % (op, ex)

    def _step(self, e):
        w, ps, op = self.w, self.ps, e["op"]
        if op == "pids":
            got = ps.pids()
            exp = list(e["res"]) + [w.caller_pid]
            return None if got == exp else "pids() -> %r, specification predicts %r" % (got, exp)
        if op == "pid_exists":
            n = PROBE.get(e["n"], e["n"])
            try:
                got = str(ps.pid_exists(n))
            except OverflowError:
                got = "OverflowError"
            return None if got == e["res"] else "pid_exists(%r) -> %s, specification predicts %s" % (n, got, e["res"])
        if op == "new":
            pr = ps.Process(e["pid"])
            self.objs[e["o"]] = pr
            self.keep.append(pr)
            return None
        if op == "it_start":
            k = e["k"]
            # iterator 2 asks for something that is read from /proc (ProcIter!AttrIters = {2})
            self.gens[k] = ps.process_iter(attrs=["pid", "status"]) if k == 2 else ps.process_iter()
            self.pending, self.queued = k, []
            return None
        if op == "it_step":
            k = e["k"]
            try:
                pr = self._next(k)
            except StopIteration:
                return "iteration ended, specification predicts a yield of pid %d" % e["pid"]
            if pr.pid != e["pid"]:
                return "yielded pid %r, specification predicts %d" % (pr.pid, e["pid"])
            if k == 2 and (set(getattr(pr, "info", None) or ()) != {"pid", "status"} or pr.info["pid"] != e["pid"]):
                return "info == %r for attrs=['pid', 'status']" % (getattr(pr, "info", None),)
            if e["fresh"]:
                if any(pr is x for x in self.keep):
                    return "pid %d: a previously yielded object, specification predicts a fresh one" % e["pid"]
                self.objs[e["o"]] = pr
                self.keep.append(pr)
            elif pr is not self.objs.get(e["o"]):
                return "pid %d: not the cached object #%d" % (e["pid"], e["o"])
            return None
        if op == "it_finish":
            k = e["k"]
            try:
                pr = self._next(k)
            except StopIteration:
                return "iteration ended without yielding the calling process"
            if pr.pid != w.caller_pid:
                return "yielded pid %r, specification predicts the end of the listed PIDs" % (pr.pid,)
            try:
                pr = next(self.gens[k])
                return "yielded pid %r after the last listed PID" % (pr.pid,)
            except StopIteration:
                pass
            del self.gens[k]
            return None
        if op == "it_close":
            self.gens.pop(e["k"]).close()
            return None
        if op == "cache_clear":
            ps.process_iter.cache_clear()
            return None
        if op == "is_running":
            got = self.objs[e["o"]].is_running()
            return None if got == e["res"] else "is_running() -> %r, specification predicts %r" % (got, e["res"])
        raise core.Machinery("unknown op %r" % op)


from harness.tmpl import template  # noqa: E402


def run_events(job):
    events = job[-1]
    w, ps = template()
    ad = Adapter(w, ps)
    for i, e in enumerate(events):
        m = ad.step(e)
        if m is not None:
            return {"step": i, "mismatch": m, "event": e}
        for (pid, sig, inc) in w.kill_log:
            if pid <= 0 or sig != 0:
                return {"step": i, "mismatch": "os.kill(%d, %d) issued" % (pid, sig), "event": e}
    return {"steps": len(events)}


def sig_of(e):
    return "%s:%s" % (e.get("op"), e.get("res") if e.get("op") != "pids" else "")


def edge_class(g, ei):
    s, e, t = g.edges[ei]
    st = g.states[s]
    op = e["op"]
    if op == "it_step":
        return (op, e["fresh"], e["want"] != 0, e["dirty"], st[9] != 0)
    if op == "it_finish":
        return (op, bool(e["missed"]), e["dirty"], st[9] != 0)
    if op == "pid_exists":
        return (op, e["n"], e["res"])
    if op == "is_running":
        ob = st[4][e["o"] - 1]
        pid = ob["pid"]
        pids = sorted(int(k) for k in st[2]) if isinstance(st[2], dict) else None
        gp = st[2][str(pid)] if isinstance(st[2], dict) else st[2][pid - 1]
        tb = st[0][0]
        row = tb[str(pid)] if isinstance(tb, dict) else tb[pid - 1]
        return (op, e["res"], ob["gone"], ob["reused"], row["inc"] == ob["forInc"], gp == e["o"],
                pid in st[3], any(x["phase"] == "run" for x in (st[6].values() if isinstance(st[6], dict) else st[6])))
    return (op,)


DUMPS = [("dump-1pid-1iter-full", lambda: consts(pids=(1,), maxobj=3, maxinc=2, maxup=1, tids=(), probe=()), None),
         ("dump-1iter", lambda: consts(maxobj=2, maxinc=2, maxup=1, probe=(0, 7, 97, 98, 99)), 4),
         ("dump-2iter", lambda: consts(pids=(1,), iters=(1, 2), maxobj=2, maxinc=2, maxup=1, tids=(), probe=()), 3),
         # one iterator that reads attrs from /proc (slot 2 is the attrs iterator): a cached process that
         # vanishes between the listing and its visit is dropped and skipped
         ("dump-1pid-attrs-iter", lambda: consts(pids=(1,), iters=(2,), maxobj=3, maxinc=2, maxup=1, tids=(), probe=()), 6)]


def warm(ctx):
    out = []
    for name, c, pc in DUMPS:
        r = tlc.dump_cached("ProcIter", c())
        ctx.tlc(name, r)
        graph.from_dump(r)
        out.append((name, r, pc))
    return out


def tlc_check(ctx, name, c, props=PROPS, timeout=1500):
    cfg = os.path.join(tlc.scratch(), name + ".cfg")
    tlc.write_cfg(cfg, c, view="view", invariants=["TypeOK"], properties=props)
    r = tlc.run("ProcIter", cfg, timeout=timeout)
    ctx.tlc(name, r, {k: (sorted(v) if isinstance(v, set) else v) for k, v in c.items()})
    return r


def probe_variant():
    """Which algorithm does the working tree implement for recycled PIDs?  The
    signed finding (new PIDs diffed before _pids_reused is drained) and its
    canonical repair (drain first) are both modelled; pick the matching one so
    that a tree that repairs the finding is checked against the repaired model
    instead of being reported for no longer showing the defect."""
    evs = [{"op": "k_spawn", "pid": 1, "start": 0, "inc": 1}, {"op": "new", "pid": 1, "o": 1},
           {"op": "it_start", "k": 1}, {"op": "it_step", "k": 1, "pid": 1, "fresh": True, "o": 2},
           {"op": "it_finish", "k": 1}, {"op": "k_exit", "pid": 1}, {"op": "k_reap", "pid": 1}, {"op": "k_tick"},
           {"op": "k_spawn", "pid": 1, "start": 1, "inc": 2}, {"op": "is_running", "o": 1, "res": False},
           {"op": "it_start", "k": 1}]
    skipped = evs + [{"op": "it_finish", "k": 1}]
    yielded = evs + [{"op": "it_step", "k": 1, "pid": 1, "fresh": True, "o": 3}, {"op": "it_finish", "k": 1}]
    st1, v1 = forkpool.fork_call(run_events, (skipped,))
    st2, v2 = forkpool.fork_call(run_events, (yielded,))
    ok1 = st1 == "ok" and "mismatch" not in v1
    ok2 = st2 == "ok" and "mismatch" not in v2
    if ok2 and not ok1:
        return "drain-first"
    return "as-pinned"


def check(ctx):
    global FIXES, KNOWN
    if probe_variant() == "drain-first":
        FIXES = set(FIXES) | {"C04drain"}
        KNOWN = set()
        ctx.notes.append("the working tree drains _pids_reused before diffing: checked against the repaired algorithm (Fixes + C04drain); the signed finding C04-reused-skipped no longer applies")
    forkpool.start(16, init=template)
    thorough = ctx.tier == "thorough"
    ctx.cov["rule"] = ("cases = psutil-level transitions (pids/pid_exists/is_running/cache_clear and each next() of "
                       "process_iter with its predicted yield, identity and skips) replayed into the real code; "
                       "distinct = distinct event records")
    ctx.assumptions += [
        "one next() of the generator is atomic except for kernel events between the /proc listing and the first visit (injected through simkernel's before-access hook)",
        "object identity is demanded only in the non-overlapping regime (no other iterator alive, no cache_clear() under a running iteration); afterwards the written-back cache is the new baseline",
        "algorithm variant checked by TLC: Fixes = %s, signed findings = %s" % (sorted(FIXES), sorted(KNOWN)),
    ]
    # (1) exhaustive
    r = tlc_check(ctx, "exhaustive-1iter", consts(maxobj=4 if thorough else 3))
    if r.violated:
        rp.confirm_trace(ctx, r, run_events, lambda evs: (evs,), sig_of)
    r2 = tlc_check(ctx, "exhaustive-2iter",
                   consts(pids=(1, 2) if thorough else (1,), iters=(1, 2), maxobj=3, maxinc=3 if thorough else 2,
                          maxup=2 if thorough else 1, tids=(), probe=()))
    if r2.violated:
        rp.confirm_trace(ctx, r2, run_events, lambda evs: (evs,), sig_of)
    # signed finding still there?
    if KNOWN:
        r0 = tlc_check(ctx, "known-finding-probe", consts(maxobj=3, known=set()), props=["C04_Complete"])
        if r0.violated:
            evs = [tlc.parse_value(t) for _, t in tlc.trace_events(r0.trace)[1:]]
            last = evs[-1]
            shape = (last.get("op") == "it_finish" and set(last["missed"]) <= set(last["excused"])
                     and any(e["op"] == "is_running" and e["res"] is False for e in evs))
            st, val = forkpool.fork_call(run_events, (evs,))
            if shape and st == "ok" and "mismatch" not in val:
                ctx.disagree("C04-reused-skipped", "recycled PID skipped", {"events": evs})
            else:
                ctx.disagree("model:C04_Complete:unsigned",
                             "TLC without carve-outs reports a shape that is not the signed one (%s):\n%s"
                             % (val, "\n".join(map(str, evs))), {"events": evs})
    # regression: the model exposes the OverflowError defect of 7.0.0
    rr = tlc_check(ctx, "regression-without-C04overflow", consts(maxobj=1, maxinc=1, maxup=0, fixes=set()),
                   props=["C04_PidExists"])
    if rr.violated != "C04_PidExists":
        raise core.Machinery("specification no longer exposes the pid_exists() overflow defect of 7.0.0")
    replay_all(ctx, thorough)
    # the drain of _pids_reused by two iterators: design ...
    for fx, expect in ((set(FIXES), None), (set(FIXES) - {"C04race"}, "C04_NoError")):
        cfg = os.path.join(tlc.scratch(), "drain.cfg")
        tlc.write_cfg(cfg, {"Threads": {"A", "B"}, "Reused": {1, 2}, "Fixes": fx}, spec="Spec",
                      invariants=["C04_NoError", "C04_EachOnce"], properties=["C04_Terminates"])
        rd = tlc.run("ProcIterDrain", cfg, workers=4, timeout=300)
        ctx.tlc("drain-race" + ("" if expect is None else "-regression"), rd)
        if expect is None and rd.violated:
            ctx.disagree("model:drain:" + str(rd.violated), "TLC: %s violated by the drain loop" % rd.violated, {"trace": rd.trace[-2:]})
        if expect is not None and "C04race" in FIXES and rd.violated != expect:
            raise core.Machinery("specification no longer exposes the drain race of 7.0.0")
    # ... and code under every schedule with bounded pre-emptions
    check_threads(ctx, thorough)
    check_pid_exists_midcall(ctx)


# ---------------------------------------------------------------------------
# pid_exists() with the kernel moving under it
# ---------------------------------------------------------------------------

def _pe_midcall(job):
    """Forked.  One kernel event placed before the k-th OS access of one
    pid_exists(n) call.  The call is one step of ProcIter.tla (PidExists): its
    answer must be the truth either just before or just after the event."""
    what, ev, k = job
    w, ps = template()
    for pid in list(w.procs):
        if pid != w.caller_pid:
            del w.procs[pid]
    p = w.spawn(40, comm=b"holder", ppid=1, start=100)
    p.threads = {40: Thread(b"holder", 1, 2), 45: Thread(b"worker", 1, 2)}
    z = w.spawn(50, comm=b"zed", ppid=1, start=120)
    z.state = "Z"
    n = {"pid": 40, "tid": 45, "zombie": 50, "absent": 60}[what]

    def truth():
        return n in w.procs          # a process (zombie included) -- not a thread, not an absent number

    def event():
        if ev == "thread-exits":
            w.procs[40].threads.pop(45, None)
        elif ev == "process-exits":
            w.procs.pop(40, None)
        elif ev == "zombie-reaped":
            w.procs.pop(50, None)
        elif ev == "number-taken":
            w.spawn(60, comm=b"newcomer", ppid=1, start=300)
        elif ev == "number-taken-by-thread":
            w.procs[40].threads[60] = Thread(b"late", 1, 2)
    before = truth()
    a0 = w.acc
    w.hooks.setdefault(a0 + k, []).append(event)
    try:
        got = ps.pid_exists(n)
    except Exception as ex:  # noqa: BLE001
        got = "raised %r" % (ex,)
    fired = (a0 + k) not in w.hooks
    w.hooks.pop(a0 + k, None)
    if not fired:
        return {"fired": False, "accesses": w.acc - a0}
    after = truth()
    ok = got in (before, after)
    return {"fired": True, "ok": ok, "got": got, "before": before, "after": after,
            "log": [(o, pth) for _, o, pth in w.log[-(w.acc - a0):]]}


def check_pid_exists_midcall(ctx):
    plans = [("tid", "thread-exits"), ("tid", "process-exits"), ("pid", "process-exits"), ("pid", "thread-exits"),
             ("zombie", "zombie-reaped"), ("absent", "number-taken"), ("absent", "number-taken-by-thread")]
    jobs = [(what, ev, k) for what, ev in plans for k in range(0, 8)]
    res = forkpool.map_fork(_pe_midcall, jobs)
    nfired = 0
    for job, (st, val) in zip(jobs, res):
        if st != "ok":
            raise core.Machinery("pid_exists mid-call worker failed: %s" % (val,))
        if not val["fired"]:
            continue
        nfired += 1
        ctx.case(("pid_exists-midcall",) + job)
        if not val["ok"]:
            ctx.disagree("conf:pid_exists:midcall:%s:%s" % job[:2],
                         "pid_exists(%s) with '%s' just before its OS access #%d -> %r; the truth was %r before the event "
                         "and %r after it  [accesses of the call: %s]" % (job[0], job[1], job[2], val["got"], val["before"],
                                                                        val["after"], val["log"]),
                         {"pid_exists_midcall": list(job)})
    if nfired < 8:
        core.vacuity("only %d kernel events could be placed inside pid_exists() calls" % nfired)
    ctx.cov["pid_exists_midcall"] = {"placements": len(jobs), "inside_the_call": nfired}


def replay_all(ctx, thorough, vacuity=True, only=None):
    """(2) tours and (3) simulation of ProcIter.tla into the real code; also
    used by the C02 check (is_running() truth under process_iter() traffic)."""
    ops = set()
    for name, rd, pc in warm(ctx):
        if only is not None and name not in only:
            continue
        g = graph.from_dump(rd)
        jobs = rp.tour_jobs(ctx, g, None if thorough else pc, edge_class, maxlen=50)
        ctx.cov.setdefault('graphs', {})[name] = {'states': len(g.states), 'transitions': len(g.edges)}
        ops |= set(rp.run_jobs(ctx, name, [(evs,) for _, evs in jobs], run_events, sig_of,
                                   "replayed (transition tour)", nontrivial=lambda e: not e["op"].startswith("k_")))
    need = {"it_step:yield", "it_finish:None", "it_close:None", "cache_clear:None", "is_running:True",
            "is_running:False", "pid_exists:True", "pid_exists:False", "pids:.."}
    if vacuity and need - ops:
        core.vacuity("never replayed: %s" % sorted(need - ops))
    if only is not None:
        return
    # (3) deep random behaviours: 3 PIDs, 2 iterators
    cs = consts(pids=(1, 2, 3), iters=(1, 2), maxobj=9, maxinc=7, maxup=4, tids=(5, 6), probe=(0, 7, 97, 98, 99))
    beh = rp.sim_behaviours(ctx, "ProcIter", "simulate-3pid-2iter", cs, 3000 if thorough else 500, 50)
    rp.run_jobs(ctx, "simulate-3pid-2iter", [(evs,) for _, evs in beh], run_events, sig_of, "simulated",
                    nontrivial=lambda e: not e["op"].startswith("k_"))


# ---------------------------------------------------------------------------
# two threads iterating at once, under the line-level scheduler
# ---------------------------------------------------------------------------

def thread_chunk(job):
    from harness import sched
    import random
    seed, bound, limit = job[:3]
    steady = len(job) > 3
    w, ps = template()
    rnd = random.Random(seed)
    recs = []
    state = {}

    def make_steady(run):
        # nothing happens to the processes: both threads must be handed the objects an earlier,
        # completed pass cached, whatever the interleaving
        for q in list(w.procs):
            if q != w.caller_pid:
                del w.procs[q]
        ps.process_iter.cache_clear()
        for q in (1, 2, 3):
            w.spawn(q, start=50)
        cached = {p.pid: p for p in ps.process_iter()}
        out, foreign = [[], []], []
        state["out"], state["foreign"] = out, foreign

        def body(i):
            def f():
                for p in ps.process_iter():
                    out[i].append(p.pid)
                    if p is not cached.get(p.pid):
                        foreign.append(p.pid)
            return f
        return [body(0), body(1)]

    def on_steady(run, plan, err):
        rec = {"errs": [("" if t.exc is None else type(t.exc).__name__) for t in run.ts],
               "yielded": state["out"], "listing": sorted(list(w.procs)), "plan": plan, "stale": [],
               "foreign": sorted(set(state["foreign"]))}
        if err is not None:
            rec["errs"] = ["deadlock: %s" % err, ""]
        recs.append(rec)

    if steady:
        sched.explore(make_steady, ("psutil/__init__.py",), bound=1, limit=limit, rnd=rnd, on_run=on_steady)
        return recs

    def make_bodies(run):
        for q in list(w.procs):
            if q != w.caller_pid:
                del w.procs[q]
        ps.process_iter.cache_clear()
        w.spawn(1, start=50)
        w.spawn(2, start=50)
        olds = [ps.Process(1), ps.Process(2)]
        cached = {p.pid: p for p in ps.process_iter()}
        w.reap(1)
        w.reap(2)
        w.spawn(1, start=100)
        out = [[], []]
        state["out"], state["olds"] = out, olds

        def body(i):
            def f():
                for p in ps.process_iter():
                    out[i].append(p.pid)
            return f
        if seed % 4 >= 2:
            # one thread iterates while the other finds the second recycled PID through
            # is_running() on the stale object (the flag lands in the middle of the drain)
            w.spawn(2, start=100)
            olds[0].is_running()

            def flag():
                (cached[2] if seed % 4 == 3 else olds[1]).is_running()
            return [body(0), flag]
        if seed % 2:
            w.spawn(2, start=100)
        for o in olds:
            o.is_running()              # both PIDs found recycled -> _pids_reused
        return [body(0), body(1)]

    def on_run(run, plan, err):
        rec = {"errs": [("" if t.exc is None else type(t.exc).__name__) for t in run.ts],
               "yielded": state["out"], "listing": sorted(list(w.procs)), "plan": plan, "stale": []}
        if err is not None:
            rec["errs"] = ["deadlock: %s" % err, ""]
        elif not any(rec["errs"]) and seed % 4 >= 2:
            # (one iterator only: with two overlapping iterators the cache written back last wins,
            # which ProcIter.tla takes as the new baseline)
            # quiescent again: within three further passes every listed PID is served by a
            # fresh object (the signed finding costs one pass)
            try:
                for _ in range(3):
                    final = list(ps.process_iter())
                rec["stale"] = sorted(p.pid for p in final if p != ps.Process(p.pid))
            except Exception as ex:  # noqa: BLE001
                rec["errs"] = ["afterwards: " + type(ex).__name__, ""]
        recs.append(rec)

    if seed % 4 >= 2:
        # the flagging variant: every schedule with ONE pre-emption (the iterator interrupted at
        # each of its steps by the complete is_running(), and the other way round)
        bound, limit = 1, 1500
    sched.explore(make_bodies, ("psutil/__init__.py",), bound=bound, limit=limit, rnd=rnd, on_run=on_run)
    return recs


def check_threads(ctx, thorough):
    import shutil
    jobs = [(ctx.seed * 17 + i, 3 if thorough else 2, 600 if thorough else 150) for i in range(8)]
    jobs.append((ctx.seed, 1, 4000 if thorough else 1500, "steady"))
    res = forkpool.map_fork(thread_chunk, jobs, timeout=1500)
    recs = []
    for st, val in res:
        if st != "ok":
            raise core.Machinery("thread driver failed: %s" % (val,))
        recs.extend(val)
    if sum(1 for r0 in recs if r0["plan"]) < 10:
        core.vacuity("hardly any pre-empted schedule")
    d = tlc.scratch()
    tf = os.path.join(d, "t.ndjson")
    with open(tf, "w") as f:
        for r0 in recs:
            f.write(json.dumps({k: r0.get(k, []) for k in ("errs", "yielded", "listing", "stale", "foreign")}) + "\n")
    cfg = os.path.join(d, "t.cfg")
    tlc.write_cfg(cfg, {}, invariants=["Accepted"])
    r = tlc.run("ProcIterDrainTrace", cfg, workers=1, env={"TRACE_FILE": tf}, timeout=900)
    ctx.tlc("threads-trace-validation", r)
    shutil.rmtree(d, ignore_errors=True)
    if r.violated or r.distinct < len(recs):
        raise core.Machinery("thread trace validation did not complete: %s" % r.violated)
    ctx.cov["traces_validated_against_impl"] += len(recs)
    ctx.cov.setdefault("replay", {})["threads"] = {"executions": len(recs), "pre-empted": sum(1 for r0 in recs if r0["plan"])}
    for r0 in recs:
        ctx.case(json.dumps([r0["yielded"], r0["plan"]]))
    for tag, body in [p for p in r.printed if p[0] == "REJECTED"][:3]:
        vals = tlc.parse_value("<<" + body + ">>")
        r0 = recs[vals[0] - 1]
        names = [n for n, ok in zip(["NoError", "Ordered", "Listed", "Fresh", "Same"], vals[1]) if not ok]
        ctx.disagree("threads:" + ",".join(names) + ":" + ",".join(e for e in r0["errs"] if e),
                     "two threads at once (schedule %s): errors %s, yielded %s; PIDs still served by the object of their "
                     "former owner three passes later: %s; PIDs cached and untouched for which a thread was handed another "
                     "object: %s" % (r0["plan"], r0["errs"], r0["yielded"], r0["stale"], r0.get("foreign", [])), r0)


def replay(ctx, data):
    """Re-run a recorded behaviour on the working tree; True if code and
    specification still disagree."""
    if "pid_exists_midcall" in data.get("replay", {}):
        st, val = forkpool.fork_call(_pe_midcall, tuple(data["replay"]["pid_exists_midcall"]))
        print("  ->", st, val)
        return st != "ok" or (val["fired"] and not val["ok"])
    if "events" not in data.get("replay", {}):
        return False
    st, val = forkpool.fork_call(run_events, (data['replay']['events'],))
    print("  ->", st, val if st != "ok" else {k: v for k, v in val.items() if k != "event"})
    return st != "ok" or "mismatch" in val


def main(prop, argv):
    core.main_wrapper(check, prop, argv)

"""C15 -- wait() / wait_procs() in virtual time (spec/Wait.tla, spec/WaitProcs.tla)."""
import json
import os
import random
import shutil

from harness import core, forkpool, functional, tlc
from harness.tmpl import template

H = 0.00005            # one model half-unit in seconds
CAP = 800
NONE, NEG, NEVER = 9999, 9998, 9999
PID = 50
INVS = ["NeverEarly", "TimeoutHonoured", "BackoffShape", "ZeroNeverSleeps", "NegativeRejected",
        "NeverExistedAtOnce", "Prompt"]


def poll_instants(limit):
    t, iv, out = 0, 2, [0]
    while t < limit:
        t += iv
        out.append(t)
        iv = min(iv * 2, CAP)
    return out


def consts(thorough):
    pis = poll_instants(3000)
    if thorough:
        exits = set(range(1, 3002, 2))
        tos = {0, 1, 3, 5, 7, 15, 31, 63, 127, 201, 255, 511, 1023, 1501, 2001, 2801}
    else:
        exits = set()
        for p in pis + [201, 2001]:
            for d in (-3, -1, 1, 3):
                if p + d > 0:
                    exits.add(p + d)
        exits = {e for e in exits if e % 2 == 1 and e < 3000}
        tos = {0, 1, 7, 201, 2001}
    return {"Kinds": {"child", "nonchild", "never"}, "Exits": exits | {0, NEVER},
            "Timeouts": tos | {NONE, NEG}, "Statuses": {"exit0", "exit7", "sigkill", "sigterm", "sigrt35", "sigsegvcore"},
            "Cap": CAP, "MaxT": 6000}


_STATUS = {}


def status_words():
    """Wait-status words of real children (calibration of the encodings)."""
    if not _STATUS:
        import signal
        for name, how in (("exit0", 0), ("exit7", 7), ("sigkill", signal.SIGKILL), ("sigterm", signal.SIGTERM),
                          ("sigrt35", 35)):
            pid = os.fork()
            if pid == 0:
                if name.startswith("exit"):
                    os._exit(how)
                if how != signal.SIGKILL:
                    signal.signal(how, signal.SIG_DFL)
                os.kill(os.getpid(), how)
                os._exit(99)
            _, st = os.waitpid(pid, 0)
            _STATUS[name] = st
        # a core file cannot be had in the sandbox: the word is the one of a SIGSEGV death with the
        # kernel's "core dumped" flag set (include/linux/... : status = signr | 0x80)
        _STATUS["sigsegvcore"] = signal.SIGSEGV | 0x80
        assert os.WIFSIGNALED(_STATUS["sigsegvcore"]) and os.WTERMSIG(_STATUS["sigsegvcore"]) == signal.SIGSEGV
    return _STATUS


def setup_proc(w, pid, kind, exit_at, status, t0):
    """Create the process and schedule its end."""
    sw = status_words()
    if kind == "never":
        return
    p = w.spawn(pid, comm=b"child", ppid=w.caller_pid if kind == "child" else 1, start=5)
    p.child = kind == "child"
    if kind != "child" and pid % 2:
        # somebody else's process: the caller may not signal it (EPERM), which says that it exists
        import errno as _e
        p.deny["kill"] = _e.EPERM

    def end():
        if pid in w.procs:
            if kind == "child":
                w.exit(pid, sw[status])
            else:
                w.vanish(pid)
    if exit_at != NEVER and exit_at > 0:
        w.at(t0 + exit_at * H, end)
    return end if exit_at == 0 else None


U = 200            # trace units (0.5 us) per model half-unit (0.05 ms)


def run_wait(cases):
    """Forked: run model configurations on the real wait(); return for every
    case a record for the contract monitor (WaitTrace.tla) and the list of
    deviations from the reference poll schedule of Wait.tla."""
    w, ps = template()
    from psutil import _psposix
    out = []
    for i, (ret, again) in enumerate(cases):
        cfg = ret["cfg"]
        for p in list(w.procs):
            if p != w.caller_pid:
                del w.procs[p]
        w.timeline.clear()
        del w.sleep_log[:]
        t0 = w.mono
        pid = PID + i
        late_end = setup_proc(w, pid, cfg["kind"], cfg["exitAt"], cfg["status"], t0)
        to = cfg["timeout"]
        timeout = None if to == NONE else (-1 if to == NEG else to * H)
        proc = None
        if cfg["kind"] != "never":
            proc = ps.Process(pid)
        if late_end:
            late_end()
        nsys = len(w.log)
        w.waitpid_n, w.eintr_at = 0, set(ret.get("eintr", ()))
        exited_at = []
        if ret.get("exitacc"):
            # the child ends right before the k-th thing the call asks the OS (whatever that is)
            def ends(pid=pid, st=cfg["status"]):
                if pid in w.procs and w.procs[pid].state != "Z":
                    w.exit(pid, status_words()[st])
                    exited_at.append(w.mono - t0)
            w.hooks.setdefault(w.acc + ret["exitacc"] - 1, []).append(ends)

        def call():
            if proc is not None:
                return proc.wait(timeout)
            if timeout is not None and timeout < 0:
                raise ValueError("(wait_pid has no validation: Process.wait rejects it)")
            return _psposix.wait_pid(pid, timeout)
        try:
            val = call()
            got = {"kind": "none"} if val is None else {"kind": "value", "code": int(val)}
        except ps.TimeoutExpired as ex:
            got = {"kind": "TimeoutExpired", "seconds": ex.seconds, "pid": ex.pid}
        except ValueError:
            got = {"kind": "ValueError"}
        except Exception as ex:  # noqa: BLE001
            got = {"kind": repr(ex)[:60]}
        w.eintr_at = set()
        w.hooks.clear()
        at = w.mono - t0
        syscalls = len(w.log) - nsys
        sl = [d for (_, d) in w.sleep_log]
        dev = []
        exp = ret["res"]
        if got["kind"] != exp["kind"] or got.get("code") != exp.get("code"):
            dev.append("outcome %r, reference %r" % (got, exp))
        exp_sl = [s * H for s in ret["sleeps"]]
        if len(sl) != len(exp_sl) or any(abs(a - b) > 1e-12 for a, b in zip(sl, exp_sl)):
            dev.append("sleeps %r, reference %r" % (sl[:12], exp_sl[:12]))
        againr, againsys = "skipped", 0
        if again is not None and proc is not None and got["kind"] in ("none", "value"):
            n1, s1 = len(w.log), len(w.sleep_log)
            try:
                v2 = proc.wait(timeout)
                g2 = {"kind": "none"} if v2 is None else {"kind": "value", "code": int(v2)}
            except Exception as ex:  # noqa: BLE001
                g2 = {"kind": repr(ex)[:60]}
            againr = "same" if (g2.get("kind") == got["kind"] and g2.get("code") == got.get("code")) else "different"
            againsys = (len(w.log) - n1) + (len(w.sleep_log) - s1)
        # a negative timeout is refused whatever the object has already learnt
        negafter = "skipped"
        if proc is not None and got["kind"] in ("none", "value"):
            try:
                proc.wait([-1, -0.001, -1e9][i % 3])
                negafter = "returned"
            except ValueError:
                negafter = "ValueError"
            except Exception as ex:  # noqa: BLE001
                negafter = type(ex).__name__
        badkill = [(kp, ks) for (kp, ks, _) in w.kill_log if kp <= 0 or ks != 0]
        del w.kill_log[:]
        codes = {"exit0": 0, "exit7": 7, "sigkill": -9, "sigterm": -15, "sigrt35": -35, "sigsegvcore": -11}
        rec = {"kind": cfg["kind"],
               "exitAt": int(round(exited_at[0] / H * U)) if exited_at else (-1 if cfg["exitAt"] == NEVER else cfg["exitAt"] * U),
               "timeout": -1 if to == NONE else (-2 if to == NEG else to * U),
               "expcode": codes[cfg["status"]], "out": got["kind"] if got["kind"] in ("none", "value", "TimeoutExpired", "ValueError") else "other",
               "code": got.get("code", 0), "at": int(round(at / H * U)),
               "sleeps": [int(round(d / H * U)) for d in sl], "syscalls": syscalls,
               "secondsok": got.get("seconds") == timeout, "pidok": got.get("pid") == pid,
               "again": againr, "againsyscalls": againsys, "negafter": negafter, "badkill": len(badkill), "raw": repr(got)[:80]}
        out.append((rec, dev))
    return out


def sig_wait(case, text):
    cfg = case[0]["cfg"]
    return "wait:%s:%s" % (cfg["kind"], text.split(" ")[0])


# ---------------------------------------------------------------------------
# wait_procs: seeded executions, judged by TLC against WaitProcs.tla
# ---------------------------------------------------------------------------

def run_wait_procs(job):
    seed, n = job
    w, ps = template()
    rnd = random.Random(seed)
    sw = status_words()
    codes = {"exit0": 0, "exit7": 7, "sigkill": -9, "sigterm": -15, "sigrt35": -35, "sigsegvcore": -11}
    lines = []
    for r in range(n):
        for p in list(w.procs):
            if p != w.caller_pid:
                del w.procs[p]
        w.timeline.clear()
        del w.sleep_log[:]
        t0 = w.mono
        k = rnd.choice([1, 2, 2, 3, 3, 4])
        to = rnd.choice([NONE, 0, 1, 7, 201, 801, 2001, 20001, 40001])
        kinds, exits, sts, procs = [], [], [], []
        for i in range(k):
            kind = rnd.choice(["child", "child", "nonchild"])
            ex = rnd.choice([0, NEVER if to != NONE else 1, 1, 3, 29, 127, 255, 1023, 1999, 2003, 2803, 19999, 40003, 40801])
            st = rnd.choice(list(codes)) if kind == "child" else "exit0"
            pid = 300 + r * 8 + i
            late = setup_proc(w, pid, kind, ex, st, t0)
            procs.append(ps.Process(pid))
            if late:
                late()
            kinds.append(kind)
            exits.append(ex)
            sts.append(st)
        cbs = []
        timeout = None if to == NONE else to * H
        try:
            gone, alive = ps.wait_procs(procs, timeout=timeout, callback=lambda p: cbs.append(procs.index(p) + 1))
        except Exception as ex:  # noqa: BLE001
            lines.append({"error": repr(ex), "kind": kinds, "exitAt": exits, "timeout": to})
            continue
        rc = []
        for p in procs:
            if not hasattr(p, "returncode"):
                rc.append(9997)
            elif p.returncode is None:
                rc.append(9996)
            else:
                rc.append(int(p.returncode))
        lines.append({"kind": kinds, "exitAt": exits, "code": [codes[s] for s in sts], "timeout": to,
                      "gone": [procs.index(p) + 1 for p in gone], "alive": [procs.index(p) + 1 for p in alive],
                      "callbacks": cbs, "rc": rc, "ret": int(round((w.mono - t0) / H)),
                      "maxsleep": max([int(round(d / H)) for (_, d) in w.sleep_log] or [0])})
    return lines


def check_wait_procs(ctx, n):
    jobs = [(ctx.seed * 7919 + i, n // 16 + 1) for i in range(16)]
    res = forkpool.map_fork(run_wait_procs, jobs)
    lines = []
    for st, val in res:
        if st != "ok":
            # (a tree that breaks wait() may also hang this driver: a machinery failure only if
            # nothing else was found)
            core.vacuity("wait_procs driver failed: %s" % (val,))
            continue
        lines.extend(val)
    for l in [x for x in lines if "error" in x][:3]:
        ctx.disagree("wait_procs:exception", "wait_procs raised %s (%r)" % (l["error"], l), l)
    lines = [l for l in lines if "error" not in l]
    for l in lines:
        if l["maxsleep"] > CAP:
            ctx.disagree("wait_procs:poll>40ms", "a poll slept %d half-units: %r" % (l["maxsleep"], l), l)
            break
    d = tlc.scratch()
    tf = os.path.join(d, "trace.ndjson")
    with open(tf, "w") as f:
        for l in lines:
            f.write(json.dumps(l) + "\n")
    cfg = os.path.join(d, "t.cfg")
    tlc.write_cfg(cfg, {"Cap": CAP}, invariants=["Contract"])
    r = tlc.run("WaitProcs", cfg, workers=4, env={"TRACE_FILE": tf}, timeout=900)
    ctx.tlc("wait_procs-trace-validation", r)
    ctx.cov["traces_validated_against_impl"] += len(lines)
    ctx.cov.setdefault("replay", {})["wait_procs"] = {
        "executions": len(lines),
        "with_timeout_hit": sum(1 for l in lines if l["alive"]),
        "all_gone": sum(1 for l in lines if not l["alive"])}
    for l in lines:
        ctx.case(json.dumps(l, sort_keys=True))
    if r.violated:
        rej = [p for p in r.printed if p[0] == "REJECTED"]
        for tag, body in rej[:3]:
            vals = tlc.parse_value("<<" + body + ">>")
            l = lines[vals[0] - 1]
            names = ["Partition", "GoneReallyEnded", "ReturnCodes", "Callbacks", "InTime"]
            failed = [nm for nm, ok in zip(names, vals[1]) if not ok]
            ctx.disagree("wait_procs:" + ",".join(failed),
                         "TLC rejects a recorded wait_procs execution (clauses %s): %r" % (failed, l), l)
        if not rej:
            raise core.Machinery("wait_procs validation failed without naming a record")
    shutil.rmtree(d, ignore_errors=True)
    if lines:
        ctx.sample({"kind": "wait_procs execution", "record": lines[0]})


def judge_wait(ctx, cases, name="wait-configurations"):
    chunks = [cases[i:i + 60] for i in range(0, len(cases), 60)]
    res = forkpool.map_fork(run_wait, chunks)
    recs, devs = [], 0
    for ch, (st, val) in zip(chunks, res):
        if st != "ok":
            raise core.Machinery("wait runner failed: %s" % (val,))
        for (rec, dev), case in zip(val, ch):
            recs.append(rec)
            if dev:
                devs += 1
                if len(ctx.notes) < 6:
                    ctx.notes.append("deviation from the reference poll schedule (not a violation by itself): %s [cfg %r]"
                                     % ("; ".join(dev), case[0]["cfg"]))
            if rec["badkill"]:
                ctx.disagree("wait:kill", "wait() signalled a process: %r" % (rec,), rec)
    d = tlc.scratch()
    tf = os.path.join(d, "t.ndjson")
    with open(tf, "w") as f:
        for r0 in recs:
            f.write(json.dumps(r0) + "\n")
    cfg = os.path.join(d, "t.cfg")
    tlc.write_cfg(cfg, {"Cap": CAP * U, "First": 2 * U}, invariants=["Accepted"])
    r = tlc.run("WaitTrace", cfg, workers=1, env={"TRACE_FILE": tf}, timeout=1500)
    ctx.tlc(name + "-trace-validation", r)
    shutil.rmtree(d, ignore_errors=True)
    if r.violated or r.distinct < len(recs):
        raise core.Machinery("wait trace validation did not complete: %s" % r.violated)
    ctx.cov["traces_validated_against_impl"] += len(recs)
    ctx.cov.setdefault("replay", {})[name] = {"executions": len(recs),
                                                               "deviating_from_reference_schedule": devs}
    for r0 in recs:
        ctx.case(json.dumps(r0, sort_keys=True))
    names = ["OnlyKnownOutcomes", "NeverEarly", "TimeoutHonoured", "Polls", "ZeroNeverSleeps", "Negative",
             "NegativeBeforeSyscalls", "NeverExisted", "Prompt", "Cached", "NegativeAlways"]
    for tag, body in [p for p in r.printed if p[0] == "REJECTED"]:
        vals = tlc.parse_value("<<" + body + ">>")
        r0 = recs[vals[0] - 1]
        failed = [n for n, ok in zip(names, vals[1]) if not ok]
        ctx.disagree("wait:%s:%s" % (r0["kind"], ",".join(failed)),
                     "TLC rejects a recorded wait() execution (clauses %s): %r" % (failed, r0), r0)
    if recs:
        ctx.sample({"kind": "wait() execution", "record": recs[len(recs) // 2]})


def warm(ctx):
    rd = tlc.dump_cached("Wait", consts(False), view=None, constraints=["Horizon"])
    functional.events_of(rd)


def check(ctx):
    forkpool.start(16, init=template)
    status_words()
    thorough = ctx.tier == "thorough"
    ctx.cov["rule"] = ("cases = (process kind, exit instant, timeout, exit status) configurations of one wait() call in "
                       "virtual time, plus seeded wait_procs executions; distinct = distinct configurations / executions")
    ctx.assumptions += [
        "time advances only inside sleep(); exit instants and deadlines sit on odd half-units (0.05 ms) so that no float rounding tie decides a comparison, except timeout=0",
        "EINTR reaches wait_pid() only for a child that is still running (a waitpid that has a status to report returns it); CPython itself retries EINTR (PEP 475), so this is the legacy path kept in wait_pid()",
        "wait status words are taken from real children of the harness",
        "wait_procs: only the clauses of the statement are demanded (partition, really ended, returncode, callback once, back by timeout + 40 ms)",
    ]
    c = consts(thorough)
    cfg = os.path.join(tlc.scratch(), "wait.cfg")
    tlc.write_cfg(cfg, c, spec="Spec", invariants=INVS, properties=["Cached", "Terminates"], constraints=["Horizon"])
    r = tlc.run("Wait", cfg, timeout=3000)
    ctx.tlc("wait-exhaustive", r, {k: (len(v) if isinstance(v, set) and len(v) > 20 else (sorted(v, key=str) if isinstance(v, set) else v))
                                    for k, v in c.items()})
    if r.violated:
        evs = tlc.trace_events(r.trace)
        ctx.disagree("model:" + str(r.violated), "TLC: %s violated by the wait_pid algorithm\n%s"
                     % (r.violated, "\n".join("%s %s" % x for x in evs)), {"trace": evs})
    rd = tlc.dump_cached("Wait", c, view=None, constraints=["Horizon"])
    ctx.tlc("wait-dump", rd)
    evs = functional.events_of(rd)
    rets = {}
    for e in evs:
        if e.get("op") in ("return", "again"):
            key = json.dumps(e["cfg"], sort_keys=True)
            rets.setdefault(key, {})[e["op"]] = e
    cases = [(v["return"], v.get("again")) for v in rets.values() if "return" in v]
    kinds = {(c0["cfg"]["kind"], c0["res"]["kind"]) for c0, _ in cases}
    need = {("child", "value"), ("child", "TimeoutExpired"), ("nonchild", "none"), ("nonchild", "TimeoutExpired"),
            ("never", "none"), ("child", "ValueError")}
    if need - kinds:
        core.vacuity("outcome classes never enumerated: %s" % sorted(need - kinds))
    judge_wait(ctx, cases)
    # ... and with a signal interrupting the 1st, 2nd, 1st+2nd or 3rd waitpid() of a child that is
    # still running (EINTR is a poll that learnt nothing: every clause of the contract stands)
    ei = [(dict(c0, eintr=list(ks)), None) for c0, _ in cases if c0["cfg"]["kind"] == "child"
          for ks in ((1,), (2,), (1, 2), (3,))]
    if not thorough:
        ei = ei[::3]
    judge_wait(ctx, ei, name="wait-eintr")
    # ... and with the child ending right before the k-th question the call puts to the OS
    ea = [(dict(c0, exitacc=k), None) for c0, _ in cases
          if c0["cfg"]["kind"] == "child" and c0["cfg"]["exitAt"] == NEVER and c0["cfg"]["timeout"] not in (NONE, NEG)
          for k in (1, 2, 3, 4, 5, 6)]
    judge_wait(ctx, ea if thorough else ea[::2], name="wait-exit-at-access")
    check_wait_procs(ctx, 20000 if thorough else 2500)
    check_popen_live(ctx)
    if thorough:
        from .. import apalache
        apalache.discharge(ctx, "WaitCore")


# ---------------------------------------------------------------------------
# psutil.Popen: wait() interleaved with the subprocess-level calls, real children
# ---------------------------------------------------------------------------

POPEN_SCRIPT = r"""
import itertools, json, os, signal, subprocess, sys, time
import psutil
out = []
for ending, want in (("term", -signal.SIGTERM), ("exit7", 7), ("exit0", 0)):
    for seq in itertools.product("WPZ", repeat=3):
        code = "import time; time.sleep(60)" if ending == "term" else "import sys; sys.exit(%d)" % want
        p = psutil.Popen([sys.executable, "-c", code], stdout=subprocess.DEVNULL)
        if ending == "term":
            p.terminate()
        # the child is left unreaped until the first call of the sequence
        deadline = time.time() + 60
        settled = False
        while time.time() < deadline:
            try:
                if psutil.Process(p.pid).status() == psutil.STATUS_ZOMBIE:
                    settled = True
                    break
            except psutil.Error:
                break
            time.sleep(0.005)
        if not settled:             # (machine too slow: nothing can be said about this one)
            p.kill()
            p.wait()
            out.append({"ending": ending, "want": want, "seq": "".join(seq), "obs": [], "skipped": True})
            continue
        obs = []
        for op in seq:
            try:
                if op == "W":
                    obs.append(["wait", p.wait()])
                elif op == "Z":
                    obs.append(["wait0", p.wait(timeout=0)])
                else:
                    obs.append(["poll", p.poll()])
            except Exception as ex:
                obs.append([op, "raised " + type(ex).__name__])
        obs.append(["returncode", p.returncode])
        out.append({"ending": ending, "want": want, "seq": "".join(seq), "obs": obs})
print(json.dumps(out))
"""


def check_popen_live(ctx):
    """'returns the same cached value on every later call' for psutil.Popen objects of real
    children: every order of wait() / wait(0) / poll() after the child ended."""
    import subprocess
    env = dict(os.environ, PYTHONPATH=os.environ["VERIF_SNAPSHOT"])
    env.pop("PYTHONHASHSEED", None)
    p = subprocess.run(["/venv/bin/python", "-c", POPEN_SCRIPT], env=env, cwd="/", capture_output=True, text=True, timeout=600)
    if p.returncode != 0:
        raise core.Machinery("Popen driver failed: %s" % p.stderr[-800:])
    recs = json.loads(p.stdout.strip().splitlines()[-1])
    if sum(1 for r in recs if r.get("skipped")) > len(recs) // 2:
        raise core.Machinery("Popen driver: most children never settled")
    recs = [r for r in recs if not r.get("skipped")]

    def enc(v):          # statuses as PopenLife.tla writes them
        if v is None:
            return 9998
        if isinstance(v, int):
            return v if v >= 0 else 1000 - v
        return 9001      # an exception: no model answer equals it
    # (1) the model: the claim holds with the write-back of 7.0.0 and fails without it
    d = tlc.scratch()
    cfg = os.path.join(d, "m.cfg")
    for wb, expect in ((True, None), (False, "C15_Attribute")):
        tlc.write_cfg(cfg, {"Status": {1015, 0, 7}, "WriteBack": wb}, spec="Spec",
                      invariants=["C15_TrueStatus", "C15_Attribute"])
        r = tlc.run("PopenLife", cfg, workers=2, timeout=300)
        ctx.tlc("popen-model" + ("" if wb else "-without-write-back"), r)
        if wb and r.violated:
            ctx.disagree("model:popen:" + str(r.violated), "TLC: %s violated by PopenLife.tla" % r.violated, {"trace": r.trace[-3:]})
        if not wb and not r.violated:
            raise core.Machinery("PopenLife.tla no longer needs the write-back: the model has lost its point")
    # (2) recorded answers of real children against the model
    tf = os.path.join(d, "traces.ndjson")
    with open(tf, "w") as f:
        for r in recs:
            f.write(json.dumps({"want": enc(r["want"]), "obs": [[o[0], enc(o[1])] for o in r["obs"]]}) + "\n")
    tlc.write_cfg(cfg, {"Status": {1015, 0, 7}, "WriteBack": True}, init="TInit", next_="TNext", invariants=["Agrees"])
    r = tlc.run("PopenLifeTrace", cfg, workers=1, env={"TRACE_FILE": tf}, timeout=600)
    ctx.tlc("popen-trace-validation", r)
    shutil.rmtree(d, ignore_errors=True)
    nev = sum(len(x["obs"]) for x in recs)
    if r.distinct < nev:
        raise core.Machinery("Popen trace validation consumed %d of %d recorded answers" % (r.distinct, nev))
    seen = set()
    for tag, body in r.printed:
        if tag != "REJECTED":
            continue
        tid, l, model = tlc.parse_value("<<" + body + ">>")
        if tid in seen:
            continue
        seen.add(tid)
        x = recs[tid - 1]
        ctx.disagree("popen:%s:%s" % (x["ending"], x["obs"][l - 1][0]),
                     "psutil.Popen of a child that %s: the calls %s answered %r; the specification's answer to call %d is %r "
                     "(every answer must be the child's status)"
                     % ({"term": "was terminated by SIGTERM", "exit7": "exited with code 7", "exit0": "exited with code 0"}[x["ending"]],
                        x["seq"], x["obs"], l, x["want"]), {"popen": x})
    for x in recs:
        ctx.case(("popen", x["ending"], x["seq"]))
    ctx.cov.setdefault("replay", {})["popen-live"] = {"sequences": len(recs), "answers": nev, "rejected": len(seen)}
    ctx.cov["traces_validated_against_impl"] += len(recs)


def main(prop, argv):
    core.main_wrapper(check, prop, argv)

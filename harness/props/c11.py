"""C11 -- net_connections(): every socket once, right kind, right addresses,
right owner (spec/NetConn.tla, spec/NetConnTrace.tla; binding in harness/sim_c11.py)."""
import collections
import gzip
import hashlib
import json
import os
import random
import shutil
import socket
import threading
import zlib

from harness import core, forkpool, graph, sim_c11, tlc
from harness.tmpl import template

FIXES = set()       # the specification states the ideal function; nothing of psutil's algorithm is modelled
INVS = ["ErrorIffUnknownKind", "KindLattice", "EverySocketOnce", "PerProcessIsProjection", "StatusRule",
        "AddrRule", "OwnerRule", "OracleDiscriminates", "ShapesAreDefects"]
ADDR4 = ["0.0.0.0", "127.0.0.1", "10.0.0.5", "255.255.255.255"]
ADDR6 = ["::", "::1", "::ffff:127.0.0.1", "fe80::1", "2001:db8::1"]
PIDS, IDLE, FDS = (11, 12), 13, (3, 4)
EMPTY = "@{}"
SPACES = ("kind", "addr", "state", "path", "table")


def consts(thorough, spaces=SPACES, tables=(2, 3, 4)):
    c = {"PIDs": set(PIDS), "IdlePid": IDLE, "FDs": set(FDS), "Addr4": set(ADDR4), "Addr6": set(ADDR6),
         "Ports": {0, 22, 65535},
         "PathNames": {"unbound", "plain", "abstract", "spaced", "absspace"},
         "BadKinds": {"", "TCP"}, "Spaces": set(spaces), "NTempl": 7,
         "T2Kinds": {"all", "unix", "inet4"}, "T2Whos": {0, 11, 12},
         "T3Kinds": {"all"}, "T3Whos": {0, 12}, "T3Slots": {11003, 11004, 12003},
         "T4Kinds": EMPTY, "T4Whos": EMPTY, "T4Slots": EMPTY}
    if thorough:
        c.update({"PathNames": {"unbound", "plain", "abstract", "spaced", "absspace", "twospace", "atsign", "long"},
                  "BadKinds": {"", "TCP", "tcp5", "inet "}, "NTempl": 11,
                  "T2Kinds": {"all", "inet", "unix", "tcp4", "udp6", "inet6", "TCP"}, "T2Whos": {0, 11, 12},
                  "T3Kinds": {"all"}, "T3Whos": {0, 11, 12}, "T3Slots": {11003, 11004, 12003, 12004},
                  "T4Kinds": {"all"}, "T4Whos": {0}, "T4Slots": {11003, 11004, 12003}})
    for n in (2, 3, 4):
        if n not in tables or "table" not in spaces:
            c["T%dKinds" % n] = EMPTY
            c["T%dWhos" % n] = EMPTY
    return c


def units(thorough):
    """The dump is split into units that TLC enumerates in parallel."""
    u = [("kind", consts(thorough, ("kind",))), ("addr", consts(thorough, ("addr",))),
         ("state", consts(thorough, ("state",))), ("path", consts(thorough, ("path",))),
         ("table2", consts(thorough, ("table",), (2,))), ("table3", consts(thorough, ("table",), (3,)))]
    if thorough:
        u.append(("table4", consts(thorough, ("table",), (4,))))
    return u


def raw_events(rd):
    """The JSON text of every Observe event of a dump (not parsed here: the
    children parse their own share)."""
    path = getattr(rd, "cache_path", None)
    ep = path[:-len(".txt.gz")] + ".c11.jsonl.gz" if path else None
    if ep and os.path.exists(ep):
        with gzip.open(ep, "rt") as f:
            return f.read().splitlines()
    out, seen = [], set()
    for line in rd.tr:
        parts = graph._STR.findall(line)
        if len(parts) != 4:
            continue
        txt = json.loads('"' + parts[2] + '"')
        if txt in seen:
            continue
        seen.add(txt)
        out.append(txt)
    if ep:
        tmp = ep + ".tmp%d" % os.getpid()
        with gzip.open(tmp, "wt", compresslevel=1) as f:
            f.write("\n".join(out))
        os.replace(tmp, ep)
    return out


def dumps(thorough):
    """[(unit name, TLCResult)] -- cached; missing ones are computed concurrently."""
    us = units(thorough)
    res = [None] * len(us)

    def one(i):
        res[i] = tlc.dump_cached("NetConn", us[i][1], view=None)
    ths = [threading.Thread(target=one, args=(i,)) for i in range(len(us))]
    for t in ths:
        t.start()
    for t in ths:
        t.join()
    return [(us[i][0], res[i]) for i in range(len(us))]


def warm(ctx):
    for name, rd in dumps(False):
        if rd is None or rd.error or not rd.tr:
            raise core.Machinery("dump %s failed: %s" % (name, rd and rd.error))
        raw_events(rd)


# ---- spec -> code -----------------------------------------------------------

def variation(h, inp):
    """Presentation details the specification does not fix (all legal for a
    kernel): inode numbers, order of the lines, IPv6 tables absent."""
    n = len(inp["socks"])
    base = (101, 70001, 4026531841)[h % 3]
    order = list(range(n))
    if (h >> 2) & 1:
        order.reverse()
    return dict(inodes=[base + 7 * k for k in range(n)], order=order, omit_v6=bool((h >> 3) & 1),
                extra_pids=(IDLE,) + PIDS)


def classes(inp, exp, cov):
    """Input classes and -- when the specification's expectation *exp* is at
    hand -- expected result classes exercised (vacuity guard; the code's own
    answers are deliberately not counted: a broken answer is a violation, not
    a hole in the coverage)."""
    cov["form:" + ("process" if inp["who"] else "system")] += 1
    cov["kind:" + (inp["kind"] if inp["kind"] in sim_c11.KINDS else "<unknown>")] += 1
    by = collections.defaultdict(set)
    for pid, fd, k in inp["hold"]:
        by[k].add((pid, fd))
    for k, s in enumerate(inp["socks"], 1):
        cov["sock:%s/%s" % (s["fam"], s["type"])] += 1
        hs = by.get(k, ())
        pids = {p for p, _ in hs}
        cov["holders:" + ("none" if not hs else "one" if len(hs) == 1 else
                          "shared-between-pids" if len(pids) > 1 else "two-fds-one-pid")] += 1
        if s["fam"] == "unix":
            p = bytes(s["path"])
            cov["name:" + ("unbound" if not p else "abstract" if p[:1] == b"@" else "path")] += 1
            if b" " in p:
                cov["name:with-space"] += 1
        else:
            cov["st:%s:%s" % (s["type"], s["st"])] += 1
            for a in (s["l"], s["r"]):
                cov["addr:" + a[0]] += 1
                cov["port:" + ("0" if a[1] == 0 else "65535" if a[1] == 65535 else "n")] += 1
    if exp is None:
        return
    cov["expect:" + ("rows" if exp["groups"] else "empty" if exp["err"] == "none" else exp["err"])] += 1
    for g in exp["groups"]:
        f = g["f"]
        cov["row:%s/%s" % (f["fam"], f["type"])] += 1
        cov["status:" + f["status"]] += 1
        cov["owner:" + ("nobody" if [0, -1] in g["owners"] else "pid")] += 1
        cov["rows-of-socket:" + ("optional" if g["need"] == [[]] else "any-one-holder" if len(g["need"]) > 1
                                 else "every-holder" if len(g["need"][0]) > 1 else "one")] += 1
        if f["fam"] != "unix":
            cov["laddr:" + ("empty" if not f["laddr"] else "set")] += 1
            cov["raddr:" + ("empty" if not f["raddr"] else "set")] += 1
            for a in (f["laddr"], f["raddr"]):
                if a:
                    cov["text:" + str(a[0])] += 1


def input_key(inp):
    txt = json.dumps([inp["socks"], sorted(inp["hold"]), inp["kind"], inp["who"]], sort_keys=True)
    return hashlib.blake2b(txt.encode(), digest_size=10).digest()


def run_chunk(raws):
    """Forked child: replay Observe events into the real API."""
    w, ps = template()
    cov = collections.Counter()
    bad, rec, keys = [], [], []
    for i, raw in enumerate(raws):
        ev = json.loads(raw)
        inp = ev["inp"]
        keys.append(input_key(inp))
        h = zlib.crc32(raw.encode())
        sim_c11.build_world(w, inp, **variation(h, inp))
        got = sim_c11.query(ps, inp)
        classes(inp, ev["out"], cov)
        v, y = sim_c11.verdict(ev, got)
        if v:
            bad.append((i, v, y, got))
        if v or h % 23 == 0:
            rec.append({"inp": inp, "got": got, "py": v})
    return {"bad": bad, "cov": cov, "rec": rec, "keys": keys}


def describe(inp, got, v, y):
    return ("net_connections(%r)%s on the table %s with holders (pid, fd, socket#) %s answered %s; rejected because %s%s"
            % (inp["kind"], " of Process(%d)" % inp["who"] if inp["who"] else "",
               json.dumps(inp["socks"]), json.dumps(sorted(inp["hold"])), json.dumps(got),
               "; ".join("/".join(str(x) for x in t) for t in y),
               "" if v == [["other"]] else " (explained by the defect shape(s) %s)" % ", ".join(v[0])))


def replay(ctx, name, raws, cov, rec, seen, chunk=60):
    chunks = [raws[i:i + chunk] for i in range(0, len(raws), chunk)]
    res = forkpool.map_fork(run_chunk, chunks, timeout=600)
    nbad = 0
    for ch, (st, val) in zip(chunks, res):
        if st != "ok":
            raise core.Machinery("case runner failed (%s): %s" % (st, val))
        cov.update(val["cov"])
        rec.extend(val["rec"])
        for i, v, y, got in val["bad"]:
            nbad += 1
            inp = json.loads(ch[i])["inp"]
            for sig in sim_c11.signatures(v, y):
                ctx.disagree(sig, "code and specification disagree: " + describe(inp, got, v, y),
                             {"case": json.loads(ch[i])})
        for k in val["keys"]:
            ctx.case(k)
        seen.update(val["keys"])
    ctx.cov["traces_validated_against_impl"] += len(raws)
    ctx.cov.setdefault("replay", {})[name] = {"cases": len(raws), "disagreements": nbad}
    if raws:
        ev = json.loads(raws[len(raws) // 2])
        ctx.sample({"kind": "enumerated input '%s'" % name, "input": ev["inp"], "expected": ev["out"]}, limit=2)


# ---- code -> spec -----------------------------------------------------------

BAD_KINDS = ["", "TCP", "tcp5", "inet ", " all", "unix6", "udp46", "raw", "sctp", "All", "tcp4,tcp6", "inet4+inet6", "x"]
NAME_ALPHABET = [b"/", b"a", b"b", b".", b" ", b" ", b"@", b"\xc3\xa9", b"-", b"0"]


def rand_addr(rnd, fam):
    r = rnd.random()
    if r < 0.6:
        return rnd.choice(ADDR4 if fam == "inet4" else ADDR6)
    n = 4 if fam == "inet4" else 16
    if r < 0.8:
        b = bytes(rnd.randrange(256) for _ in range(n))
    else:      # sparse: runs of zero words, which the text form compresses
        b = bytes(rnd.choice([0, 0, 0, 1, 255]) for _ in range(n))
    return socket.inet_ntop(socket.AF_INET if n == 4 else socket.AF_INET6, b)


def rand_name(rnd):
    r = rnd.random()
    if r < 0.2:
        return []
    body = b"".join(rnd.choice(NAME_ALPHABET) for _ in range(rnd.choice([1, 2, 4, 7, 12, 30])))
    # (a name may end in blanks -- the line ends at the newline, not at the last visible character)
    if rnd.random() < 0.8:
        body = body.rstrip(b" ")
    elif rnd.random() < 0.5:
        body += b"\t"
    return list((b"@" if r < 0.45 else b"/") + body)


def dup_input(rnd):
    """One process whose descriptors are copies of few sockets (an inetd-style service: the same
    socket as stdin and stdout) next to sockets it holds once; asked about itself."""
    pid, idle = rnd.randrange(20, 60), 77
    socks = []
    for _ in range(rnd.choice([2, 3, 4])):
        if rnd.random() < 0.75:
            socks.append({"fam": "unix", "type": rnd.choice(["stream", "dgram"]), "l": ["-", 0], "r": ["-", 0],
                          "st": "-", "path": rand_name(rnd)})
        else:
            fam = rnd.choice(["inet4", "inet6"])
            socks.append({"fam": fam, "type": "dgram", "l": [rand_addr(rnd, fam), 53], "r": [rand_addr(rnd, fam), 0],
                          "st": "CLOSE", "path": []})
    fds = rnd.sample([0, 1, 2, 3, 4, 5, 6, 7, 8, 63], len(socks) + rnd.choice([1, 2, 3]))
    hold = [[pid, fd, k + 1] for k, fd in enumerate(fds[:len(socks)])]
    hold += [[pid, fd, rnd.randrange(1, len(socks) + 1)] for fd in fds[len(socks):]]
    return {"socks": socks, "hold": hold, "kind": rnd.choice(["unix", "all", "all", "inet", "udp"]), "who": pid}, idle


def rand_input(rnd):
    if rnd.random() < 0.12:
        return dup_input(rnd)
    pids = rnd.sample(range(20, 60), rnd.choice([1, 2, 2, 3, 4]))
    idle = 77
    socks = []
    for _ in range(rnd.choice([0, 1, 2, 3, 3, 5, 8])):
        c = rnd.choice(["tcp4", "tcp6", "udp4", "udp6", "unix", "unix"])
        if c == "unix":
            socks.append({"fam": "unix", "type": rnd.choice(["stream", "stream", "dgram", "seqpacket"]),
                          "l": ["-", 0], "r": ["-", 0], "st": "-", "path": rand_name(rnd)})
            if socks[-1]["path"] and rnd.random() < 0.3:     # an accepted connection: same name, other inode
                socks.append(dict(socks[-1]))
            continue
        fam = "inet6" if c.endswith("6") else "inet4"
        ty = "stream" if c.startswith("tcp") else "dgram"
        port = lambda: rnd.choice([0, 0, 1, 22, 80, 1023, 1024, 32768, 65535, rnd.randrange(65536)])  # noqa: E731
        socks.append({"fam": fam, "type": ty, "l": [rand_addr(rnd, fam), port()], "r": [rand_addr(rnd, fam), port()],
                      "st": rnd.choice(sorted(sim_c11.TCP_ST)) if ty == "stream" else rnd.choice(["CLOSE", "ESTABLISHED"]),
                      "path": []})
    holdable = [k for k, s in enumerate(socks, 1)
                if not (s["fam"] != "unix" and s["type"] == "stream" and s["st"] in sim_c11.UNHELD)]
    hold = []
    for p in pids:
        fds = rnd.sample([3, 4, 5, 6, 7, 8, 63, 1023, 65000], rnd.choice([0, 1, 2, 3, 5]))
        for fd in fds:
            if holdable and rnd.random() < 0.85:
                # descriptors are often copies of few sockets (fork, dup)
                hold.append([p, fd, rnd.choice(holdable[:max(1, len(holdable) // 2)] if rnd.random() < 0.5 else holdable)])
    kind = rnd.choice(sim_c11.KINDS * 3 + BAD_KINDS)
    who = rnd.choice([0, 0, 0] + pids + [idle])
    return {"socks": socks, "hold": hold, "kind": kind, "who": who}, idle


def rand_chunk(job):
    """Forked: feed random larger tables to the real code; return trace lines."""
    seed, n = job
    w, ps = template()
    rnd = random.Random(seed)
    lines, cov = [], collections.Counter()
    for _ in range(n):
        inp, idle = rand_input(rnd)
        ns = len(inp["socks"])
        order = list(range(ns))
        rnd.shuffle(order)
        inodes = rnd.sample(range(1, 2 ** 32 - 1), ns) if rnd.random() < 0.5 else rnd.sample(range(1000, 99999), ns)
        sim_c11.build_world(w, inp, inodes=inodes, order=order, omit_v6=rnd.random() < 0.3,
                            extra_pids=[idle] + [h[0] for h in inp["hold"]] + rnd.sample(range(20, 60), 2))
        got = sim_c11.query(ps, inp)
        classes(inp, None, cov)
        lines.append({"inp": inp, "got": got})
    return lines, cov


def live_lines(live):
    socks = [{k: s[k] for k in ("fam", "type", "l", "r", "st", "path")} for s in live["socks"]]
    out = []
    for a in live["answers"]:
        out.append({"inp": {"socks": socks, "hold": live["hold"], "kind": a["kind"], "who": a["who"]},
                    "got": a["got"], "live": True})
    return out


def judge(ctx, lines, name="trace-validation"):
    """TLC judges every recorded answer; returns {line index: (verdict, why)} of the rejected ones."""
    d = tlc.scratch()
    tf = os.path.join(d, "trace.ndjson")
    with open(tf, "w") as f:
        for l in lines:
            f.write(json.dumps({"inp": l["inp"], "got": l["got"]}) + "\n")
    cfg = os.path.join(d, "t.cfg")
    c = consts(False, ())
    tlc.write_cfg(cfg, c, init="TInit", next_="TNext", invariants=["Match", "Judged"])
    r = tlc.run("NetConnTrace", cfg, workers=8, env={"TRACE_FILE": tf}, timeout=1500)
    ctx.tlc(name, r)
    shutil.rmtree(d, ignore_errors=True)
    if r.violated:
        raise core.Machinery("trace validation stopped: %s\n%s" % (r.violated, r.out[-1500:]))
    if r.distinct != 2 * len(lines):
        raise core.Machinery("TLC judged %d states for %d records (every record must be evaluated)"
                             % (r.distinct, len(lines)))
    rej = {}
    for tag, rest in r.printed:
        if tag != "REJECTED":
            continue
        idx = int(rest.split(",")[0])
        strs = graph._STR.findall(rest)
        v = json.loads(json.loads('"' + strs[0] + '"'))
        y = json.loads(json.loads('"' + strs[1] + '"'))
        rej[idx - 1] = (sorted(sorted(k) for k in v), sorted(tuple(t) for t in y))
    return rej


def trace_validate(ctx, n, rec, live, cov):
    jobs = [(ctx.seed * 1000 + i, n // 16 + 1) for i in range(16)]
    res = forkpool.map_fork(rand_chunk, jobs, timeout=900)
    lines = []
    for st, val in res:
        if st != "ok":
            raise core.Machinery("trace driver failed: %s" % (val,))
        lines.extend(val[0])
        cov.update(val[1])
    nrand = len(lines)
    if not isinstance(live, str):
        lines.extend(live_lines(live))
    nlive = len(lines) - nrand
    lines.extend(rec)          # answers already judged by the harness: both judges must agree
    rej = judge(ctx, lines)
    for i, l in enumerate(lines):
        v, y = rej.get(i, ([], []))
        if "py" in l:
            if v != l["py"]:
                raise core.Machinery("the harness's and TLC's evaluation of the acceptance relation differ on %s: %s vs %s"
                                     % (json.dumps(l["inp"]), l["py"], v))
            continue
        ctx.case(json.dumps(l["inp"], sort_keys=True))
        if v:
            where = "live kernel" if l.get("live") else "simulated kernel"
            for sig in sim_c11.signatures(v, y):
                ctx.disagree(sig, "TLC rejects a recorded answer (%s): %s" % (where, describe(l["inp"], l["got"], v, y)), l)
    ctx.cov["traces_validated_against_impl"] += nrand + nlive
    ctx.cov.setdefault("replay", {})["trace-validation"] = {
        "random_records": nrand, "live_records": nlive, "cross_checked_records": len(rec),
        "rejected": sum(1 for i in rej if "py" not in lines[i])}
    if nrand:
        ctx.sample({"kind": "recorded trace line", "line": lines[0]}, limit=3)
    if nlive:
        ctx.sample({"kind": "recorded on the live kernel", "line": lines[nrand]}, limit=4)


# ---- vacuity ----------------------------------------------------------------

def required():
    req = ["form:system", "form:process", "kind:<unknown>", "expect:rows", "expect:empty", "expect:ValueError",
           "rows-of-socket:optional", "rows-of-socket:any-one-holder", "rows-of-socket:every-holder", "rows-of-socket:one",
           "owner:nobody", "owner:pid", "laddr:empty", "laddr:set", "raddr:empty", "raddr:set",
           "holders:none", "holders:one", "holders:two-fds-one-pid", "holders:shared-between-pids",
           "name:unbound", "name:abstract", "name:path", "name:with-space", "status:NONE",
           "port:0", "port:65535", "port:n", "st:dgram:CLOSE", "st:dgram:ESTABLISHED"]
    req += ["kind:" + k for k in sim_c11.KINDS]
    req += ["status:" + s for s in sim_c11.TCP_ST] + ["st:stream:" + s for s in sim_c11.TCP_ST]
    req += ["addr:" + a for a in ADDR4 + ADDR6] + ["text:" + a for a in ADDR4 + ADDR6]
    for c in ("inet4/stream", "inet4/dgram", "inet6/stream", "inet6/dgram", "unix/stream", "unix/dgram", "unix/seqpacket"):
        req += ["sock:" + c, "row:" + c]
    return req


def replay_one(ctx, path):
    case = json.load(open(path))["replay"]
    if "case" in case:
        raw = json.dumps(case["case"])
        cov, rec = collections.Counter(), []
        replay(ctx, "replay", [raw], cov, rec, set())
        return
    if not case.get("live"):
        st, val = forkpool.map_fork(_again, [case])[0]
        if st != "ok":
            raise core.Machinery("replay failed: %s" % (val,))
        case = dict(case, got=val)
    rej = judge(ctx, [case], "replay")
    ctx.case(json.dumps(case["inp"], sort_keys=True))
    if 0 in rej:
        v, y = rej[0]
        for sig in sim_c11.signatures(v, y):
            ctx.disagree(sig, "TLC rejects the answer: " + describe(case["inp"], case["got"], v, y), case)


def _again(case):
    w, ps = template()
    inp = case["inp"]
    sim_c11.build_world(w, inp, extra_pids=[h[0] for h in inp["hold"]])
    return sim_c11.query(ps, inp)


def check(ctx):
    forkpool.start(16, init=template)
    thorough = ctx.tier == "thorough"
    ctx.cov["rule"] = ("cases = abstract socket tables (tcp/tcp6/udp/udp6/unix records x holders (pid, fd) x kind x "
                       "system-wide or per-process caller) rendered by simkernel into /proc/net/* and /proc/<pid>/fd and "
                       "asked of psutil.net_connections / Process.net_connections; distinct = distinct (table, holders, kind, caller)")
    ctx.assumptions += [
        "rows are compared as a set; a row may repeat only as often as distinct sockets produce that very row",
        "an inet socket held through several descriptors/processes may be reported with any one of its holders "
        "(or once per holder): the statement fixes 'one row per holder' only for UNIX sockets",
        "a SOCK_SEQPACKET UNIX socket may or may not be listed by the kinds 'unix' and 'all' (the kind table speaks of "
        "'both UDP and TCP protocols'); when listed its fields must be right; it must not appear under any inet kind",
        "any textual form of the right address is accepted (compared through inet_pton); an abstract UNIX name may start "
        "with NUL or with the kernel's '@'; raddr of a UNIX socket is not compared (not stated)",
        "TIME_WAIT and SYN_RECV entries are kernel mini-sockets (inode 0) and never have holders; the st column of a UDP "
        "line is 07 or 01",
        "family/type/status are compared by value (enum or plain constant both fine)",
        "simkernel renders /proc/net/{tcp,tcp6,udp,udp6,unix} as tcp4_seq_show/tcp6/udp4/udp6/unix_seq_show do; "
        "when a table holds no IPv6 socket the tcp6/udp6 files are absent in part of the cases (kernel without IPv6)",
    ]
    err = sim_c11.self_check()
    if err:
        raise core.Machinery(err)
    if ctx.replay_file:
        return replay_one(ctx, ctx.replay_file)
    # live probe (subprocess over the unsimulated psutil) runs beside TLC
    box = {}
    snap = os.environ.get("VERIF_SNAPSHOT")

    def probe():
        box["live"] = sim_c11.live_probe(snap) if snap else "no snapshot directory"
    tp = threading.Thread(target=probe)
    tp.start()

    # (1) structural invariants over the whole enumerated space
    def exhaustive():
        c = consts(thorough)
        cfg = os.path.join(tlc.scratch(), "inputs.cfg")
        tlc.write_cfg(cfg, c, invariants=INVS)
        box["ex"] = (tlc.run("NetConn", cfg, workers=10, timeout=1800), c)
    te = threading.Thread(target=exhaustive)
    te.start()
    ds = dumps(thorough)
    te.join()
    r, c = box["ex"]
    ctx.tlc("inputs", r, {k: (sorted(v, key=str) if isinstance(v, (set, frozenset)) else v) for k, v in c.items()})
    if r.violated:
        evs = tlc.trace_events(r.trace)
        ctx.disagree("model:%s" % r.violated,
                     "TLC: structural property %s of the specification's function is violated\n%s"
                     % (r.violated, "\n".join("%s %s" % x for x in evs)), {"trace": evs})
    # (5) spec -> code
    cov, rec = collections.Counter(), []
    total, seen = 0, set()
    for name, rd in ds:
        ctx.tlc("dump-" + name, rd)
        raws = raw_events(rd)
        if not raws:
            core.vacuity("the input space '%s' is empty" % name)
        total += len(raws)
        replay(ctx, name, raws, cov, rec, seen)
    # the sub-spaces overlap in a few inputs: count distinct inputs
    if r.distinct and len(seen) != r.distinct // 2:
        raise core.Machinery("the dumps hold %d distinct inputs but the exhaustive run checked %d"
                             % (len(seen), r.distinct // 2))
    # (4) code -> spec
    tp.join()
    live = box["live"]
    if isinstance(live, str):
        ctx.notes.append("live calibration skipped: " + live)
        ctx.cov["live"] = {"skipped": live}
    else:
        n, bad = sim_c11.calibrate(live)
        if bad:
            raise core.Machinery("renderer calibration against the live kernel failed: " + "; ".join(bad[:3]))
        ctx.cov["live"] = {"sockets": len(live["socks"]), "kernel_lines_compared_with_renderer": n,
                           "shared_with_child": sum(1 for h in live["hold"] if h[0] == live["child"]),
                           "skipped": live["skipped"]}
    if len(rec) > 6000:
        rec = random.Random(ctx.seed).sample(rec, 6000)
    trace_validate(ctx, 20000 if thorough else 3000, rec, live, cov)
    missing = [k for k in required() if not cov.get(k)]
    if missing:
        core.vacuity("classes never exercised: %s" % ", ".join(missing))
    ctx.cov["classes_exercised"] = {k: cov[k] for k in sorted(cov) if not k.startswith(("text:", "addr:"))}


def main(prop, argv):
    core.main_wrapper(check, prop, argv)

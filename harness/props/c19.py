"""C19 -- sensors, battery, CPU frequency/count, boot time mirror the kernel's
tables (spec/Sensors.tla, spec/SensorsTrace.tla).

Mode 5: TLC enumerates hardware trees / CPU tables as abstract data and
publishes, for each, the answers the statement demands (exact rationals, bags,
sets of acceptable answers); sim_c19 renders the tree into simkernel's sysfs /
procfs and the real public API is compared with the specification.
Mode 4: a seeded driver builds larger random trees, records the real answers
and TLC (SensorsTrace) judges them."""
import collections
import json
import os
import random
import shutil
import threading

from harness import core, forkpool, functional, tlc
from harness import sim_c19 as sk

FIXES = set()          # the specification is written from the statement, no repaired algorithm to follow
BAD = 2 ** 31 - 7      # marker for a value that is not a (reasonable) number
PCT_DEN = 10000
SCALES = [1, 1000, 10 ** 6, 2 ** 40 + 2]                 # micro-units of the power-supply class
STAT_SCALES = [1, 2 ** 10, 2 ** 31 + 6, 2 ** 53 + 2, (2 ** 64 - 1) // 1000]
BTIME_SCALES = [1, 1000, 1700000]                        # btime stays below 2^53
KINDS = ["hwmon", "thermal", "battery", "freq", "count", "stat"]
INVS = ["SkipUnreadable", "NoSensorsEmpty", "BackfillBoth", "FahrenheitAffine", "ChipIndependence",
        "BatterySane", "BatteryDialect", "FreqMean", "CountSane"]


def consts(kinds, wide):
    return {"Kinds": set(kinds),
            "TempVals": {0, 1000, 45000, 100000} | ({80000} if wide else set()),
            "NegTemps": {5000} if wide else set(),
            "MaxCpus": 4 if wide else 3, "Wide": wide}


# ---------------------------------------------------------------------------
# asking the real code; answers in the specification's shape
# ---------------------------------------------------------------------------

def call(fn, *a, **k):
    try:
        return None, fn(*a, **k)
    except Exception as ex:  # noqa: BLE001
        return "%s: %s" % (type(ex).__name__, ex), None


def q(x, den):
    """float -> exact rational over the specification's denominator."""
    if x is None:
        return []
    if isinstance(x, bool) or not isinstance(x, (int, float)) or x != x or abs(x) * den >= BAD:
        return [BAD, den]
    return [round(x * den), den]


def shape_temps(res, den):
    err, val = res
    if err is None and not isinstance(val, dict):
        err = "returned %r instead of a dict" % (val,)
    if err is not None:
        return {"err": err, "list": []}
    L = []
    for name, ents in val.items():
        for e in ents:
            L.append([str(name), str(e.label), q(e.current, den), q(e.high, den), q(e.critical, den)])
    return {"err": "", "list": L}


def shape_fans(res):
    err, val = res
    if err is None and not isinstance(val, dict):
        err = "returned %r instead of a dict" % (val,)
    if err is not None:
        return {"err": err, "list": []}
    L = []
    for name, ents in val.items():
        for e in ents:
            c = e.current
            L.append([str(name), str(e.label), c if isinstance(c, int) and abs(c) < BAD else BAD])
    return {"err": "", "list": L}


def ask(ps, inp, S=1, SB=1):
    k = inp["kind"]
    if k == "hwmon":
        return {"tc": shape_temps(call(ps.sensors_temperatures), 1000),
                "tf": shape_temps(call(ps.sensors_temperatures, fahrenheit=True), 5000),
                "fans": shape_fans(call(ps.sensors_fans))}
    if k == "battery":
        err, b = call(ps.sensors_battery)
        g = {"err": err or "", "none": True, "pct": [0, 1], "secs": {"k": "unknown", "v": 0}, "plugged": "none"}
        if err is None and b is not None:
            g["none"] = False
            p = b.percent
            ok = isinstance(p, (int, float)) and not isinstance(p, bool) and p == p and abs(p) <= 1000
            g["pct"] = [round(p * PCT_DEN), PCT_DEN] if ok else [-10 * PCT_DEN, PCT_DEN]   # small: TLC multiplies it
            s = b.secsleft
            if s == ps.POWER_TIME_UNLIMITED:
                g["secs"] = {"k": "unlimited", "v": 0}
            elif s == ps.POWER_TIME_UNKNOWN:
                g["secs"] = {"k": "unknown", "v": 0}
            else:
                g["secs"] = {"k": "num", "v": s if isinstance(s, int) and abs(s) < 10 ** 7 else 10 ** 7}
            g["plugged"] = {True: "true", False: "false", None: "none"}.get(b.power_plugged, "bad")
        return g
    if k == "freq":
        err, lst = call(ps.cpu_freq, percpu=True)
        err2, mean = call(ps.cpu_freq)
        g = {"err": err or err2 or "", "list": [], "mean": []}
        if not g["err"]:
            def khz(x, n=1):
                return -1 if x is None else q(x, 1000 * n)[0]
            g["list"] = [[khz(e.current), khz(e.min), khz(e.max)] for e in lst]
            if mean is not None:
                n = max(1, len(lst))
                g["mean"] = [khz(mean.current, n), khz(mean.min, n), khz(mean.max, n)]
        return g
    if k == "count":
        err, a = call(ps.cpu_count)
        err2, b = call(ps.cpu_count, logical=False)
        return {"err": err or err2 or "", "logical": a or 0, "cores": b or 0}
    if k == "stat":
        err, st = call(ps.cpu_stats)
        err2, bt = call(ps.boot_time)
        g = {"err": err or err2 or "", "ctx": -1, "intr": -1, "soft": -1, "btime": -1}
        if not g["err"]:
            def unscale(v, s):
                if isinstance(v, float) and v.is_integer():
                    v = int(v)
                return v // s if isinstance(v, int) and not isinstance(v, bool) and v % s == 0 and v // s < BAD else -1
            g.update(ctx=unscale(st.ctx_switches, S), intr=unscale(st.interrupts, S),
                     soft=unscale(st.soft_interrupts, S), btime=unscale(bt, SB))
        return g
    raise ValueError(k)


# ---------------------------------------------------------------------------
# agreement between the specification's answer and the recorded one
# (the Python twin of Agree in SensorsTrace.tla); returns [(class, text)]
# ---------------------------------------------------------------------------

def bag_diff(got, must, may=()):
    key = json.dumps
    cg, cm, cy = (collections.Counter(map(key, x)) for x in (got, must, may))
    missing, extra = [], []
    for k in sorted(set(cg) | set(cm)):
        if cg[k] < cm[k]:
            missing += [json.loads(k)] * (cm[k] - cg[k])
        if cg[k] > cm[k] + cy[k]:
            extra += [json.loads(k)] * (cg[k] - cm[k] - cy[k])
    return missing, extra


def _celsius(qv, unit):
    x = qv[0] / qv[1]
    return x if unit == "C" else (x - 32) * 5 / 9


def agree_temps(api, unit, g, must, may, inp):
    if g["err"]:
        return [("raised", "%s raised %s" % (api, g["err"]))]
    missing, extra = bag_diff(g["list"], must, may)
    out = []
    zone_names = {z["type"] for z in inp["zones"]}
    zero = [0, 1000]
    for m in missing:
        p = next((x for x in extra if x[:3] == m[:3]), None)
        if p is None:
            out.append(("entry-missing", "%s lacks the entry %r" % (api, m)))
            continue
        extra.remove(p)
        classes = set()
        for i in (3, 4):
            if m[i] == p[i]:
                continue
            if unit == "C" and m[i] == zero and (p[i] == [] or p[i] == p[7 - i]):
                # a threshold of exactly 0 C treated as missing (dropped, or overwritten by the other one)
                classes.add("zero-threshold-backfill")
            elif (m[i] and p[i] and p[i][0] != BAD and m[0] in zone_names and m[1] == "" and m[i][0] != 0 and
                  any(abs(_celsius(p[i], unit) - _celsius(m[i], unit) / 1000 ** k) <= 1e-3 for k in (1, 2, 3))):
                # a trip point divided by 1000 more than once
                classes.add("thermal-trip-rescaled")
            else:
                classes.add("threshold")
        for c in sorted(classes):
            out.append((c, "%s reports %r where the kernel's tree says %r (label, current, high, critical as "
                           "<<num, den>> in %s)" % (api, p, m, unit)))
    for x in extra:
        out.append(("entry-unexpected", "%s reports %r which the tree does not contain" % (api, x)))
    return out


def agree_fans(g, must, inp):
    if g["err"]:
        return [("raised", "sensors_fans() raised %s" % g["err"])]
    missing, extra = bag_diff(g["list"], must)
    out = []
    nested = {c["name"] for c in inp["chips"] if c["nest"] == "device"}
    direct_has = any(c["nest"] == "direct" and any(f["input"]["st"] != "absent" or f["label"] != "absent"
                                                   for f in c["fans"]) for c in inp["chips"])
    for m in missing:
        if direct_has and m[0] in nested:
            out.append(("mixed-nesting", "sensors_fans() lacks %r: the fans of a chip nested under device/ are "
                                         "dropped because another chip lists its fans directly" % m))
        else:
            out.append(("entry-missing", "sensors_fans() lacks the entry %r" % m))
    for x in extra:
        out.append(("entry-unexpected", "sensors_fans() reports %r which the tree does not contain" % x))
    return out


def secs_ok(a, gs):
    if a["k"] == "any":
        return gs["k"] == "unknown" or (gs["k"] == "num" and gs["v"] >= 0)
    if a["k"] == "num":
        return gs["k"] == "num" and abs(gs["v"] * a["q"][1] - a["q"][0]) <= a["q"][1]
    return gs["k"] == a["k"]


def agree_battery(o, g, inp):
    if g["err"]:
        if g["err"].startswith("FileNotFoundError") and not inp["psdir"] and not inp["bats"] and inp["ac"]["name"] == "none":
            return [("no-power-supply-class", "sensors_battery() raised %s although the kernel simply has no "
                                              "power-supply class (expected None)" % g["err"])]
        return [("raised", "sensors_battery() raised %s" % g["err"])]
    best = None
    for a in o["acc"]:
        d = []
        if a["none"] != g["none"]:
            d.append("none")
        elif not a["none"]:
            if abs(g["pct"][0] * a["pct"][1] - a["pct"][0] * g["pct"][1]) > a["pct"][1]:
                d.append("percent")
            if a["plugged"] != g["plugged"]:
                d.append("power_plugged")
            if not secs_ok(a["secs"], g["secs"]):
                d.append("secsleft")
        if not d:
            return []
        if best is None or len(d) < len(best):
            best = d
    return [(f, "sensors_battery() -> %r, acceptable answers: %r" % (g, o["acc"])) for f in best]


def agree_freq(o, g, inp):
    if g["err"]:
        return [("raised", "cpu_freq() raised %s" % g["err"])]
    best = None
    for a in o["acc"]:
        d = []
        n = len(a["list"])
        if len(g["list"]) != n:
            d.append("length")
        else:
            for x, y in zip(g["list"], a["list"]):
                if abs(x[0] - y[0]) > o["tol"]:
                    d.append("current")
                if o["mm"] and (x[1] != y[1] or x[2] != y[2]):
                    d.append("minmax")
            if (a["mean"] == []) != (g["mean"] == []):
                d.append("mean-none")
            elif a["mean"]:
                if abs(g["mean"][0] - a["mean"][0][0]) > n * o["tol"]:
                    d.append("mean")
                if o["mm"] and (g["mean"][1] != a["mean"][1][0] or g["mean"][2] != a["mean"][2][0]):
                    d.append("mean-minmax")
        if not d:
            return []
        d = sorted(set(d))
        if best is None or len(d) < len(best):
            best = d
    return [(f, "cpu_freq(percpu=True) / cpu_freq() in kHz -> %r / %r (x n), acceptable: %r"
             % (g["list"], g["mean"], o["acc"])) for f in best]


def agree(o, g, inp):
    k = o["kind"]
    if k == "hwmon":
        res = [("sensors_temperatures", c, t) for c, t in
               agree_temps("sensors_temperatures()", "C", g["tc"], o["c_must"], o["c_may"], inp)]
        res += [("sensors_temperatures", c, t) for c, t in
                agree_temps("sensors_temperatures(fahrenheit=True)", "F", g["tf"], o["f_must"], o["f_may"], inp)]
        res += [("sensors_fans", c, t) for c, t in agree_fans(g["fans"], o["fans"], inp)]
        return res
    if k == "battery":
        return [("sensors_battery", c, t) for c, t in agree_battery(o, g, inp)]
    if k == "freq":
        return [("cpu_freq", c, t) for c, t in agree_freq(o, g, inp)]
    if k == "count":
        if g["err"]:
            return [("cpu_count", "raised", "cpu_count() raised %s" % g["err"])]
        return [("cpu_count", f, "cpu_count(%s) -> %r, expected %r (0 stands for None)" % (arg, g[f], o[f]))
                for f, arg in (("logical", ""), ("cores", "logical=False")) if g[f] != o[f]]
    if k == "stat":
        if g["err"]:
            return [("cpu_stats", "raised", "cpu_stats()/boot_time() raised %s" % g["err"])]
        names = {"ctx": "cpu_stats().ctx_switches", "intr": "cpu_stats().interrupts",
                 "soft": "cpu_stats().soft_interrupts", "btime": "boot_time()"}
        return [("boot_time" if f == "btime" else "cpu_stats", f,
                 "%s -> %r, expected %r (symbolic, before scaling)" % (names[f], g[f], o[f]))
                for f in ("ctx", "intr", "soft", "btime") if g[f] != o[f]]
    raise ValueError(k)


# ---------------------------------------------------------------------------
# mode 5: replay of the enumerated inputs
# ---------------------------------------------------------------------------

def run_case(w, ps, case, big=False):
    ev, S, SB, seed = case[:4]
    inp = ev["inp"]
    sk.build(w, inp, random.Random(seed), S, SB, big)
    return ask(ps, inp, S, SB)


def result_classes(inp, g):
    """Classes of real outcomes (vacuity guard on the result side)."""
    k = inp["kind"]
    if k == "hwmon":
        c = set()
        if not g["tc"]["err"]:
            c.add("temps:{}" if not g["tc"]["list"] else "temps:entries")
            if any(e[3] == [] for e in g["tc"]["list"]):
                c.add("temps:no-thresholds")
            if any(e[3] != [] for e in g["tc"]["list"]):
                c.add("temps:thresholds")
        if not g["fans"]["err"]:
            c.add("fans:{}" if not g["fans"]["list"] else "fans:entries")
        return c
    if k == "battery":
        if g["err"]:
            return {"battery:raised"}
        return {"battery:None"} if g["none"] else {"battery:" + g["secs"]["k"], "battery:plugged-" + g["plugged"]}
    if k == "freq":
        c = {"freq:None" if not g["mean"] else "freq:mean"}
        if any(e == [0, 0, 0] for e in g["list"]):
            c.add("freq:offline-zeros")
        return c
    if k == "count":
        return {"count:cores-None" if not g["cores"] else "count:cores", "count:logical" if g["logical"] else "count:logical-None"}
    return {"stat"}


def run_chunk(cases):
    w, ps = sk.template(sk._T.get("variant", "sysfs"))
    out = []
    seen = set()
    rec = []
    for i, case in enumerate(cases):
        ev = case[0]
        try:
            g = run_case(w, ps, case)
            bad = agree(ev["out"], g, ev["inp"])
            seen |= result_classes(ev["inp"], g)
            if len(case) > 4 and case[4]:
                rec.append((i, g, bool(bad)))
        except Exception as ex:  # noqa: BLE001
            import traceback
            raise RuntimeError("harness error on input %r: %s" % (ev["inp"], traceback.format_exc())) from ex
        for api, cls, text in bad:
            out.append((i, "[%s:%s] %s  [input %s]" % (api, cls, text, json.dumps(ev["inp"], sort_keys=True))))
    out.append((-1, sorted(seen)))
    out.append((-2, rec))
    return out


def sig_fn(case, text):
    return text[1:text.index("]")]


def input_classes(ev):
    """Classes of enumerated inputs (vacuity guard on the input side)."""
    inp, o = ev["inp"], ev["out"]
    k = inp["kind"]
    c = set()
    if k == "hwmon":
        for ch in inp["chips"]:
            c.add("nest:" + ch["nest"])
            if ch["dup"]:
                c.add("coretemp-double-listing")
            for s in ch["temps"]:
                c.add("input:" + s["input"]["st"])
                c.add("max:" + s["max"]["st"])
                c.add("crit:" + s["crit"]["st"])
                c.add("label:" + ("text" if s["label"] not in ("absent", "unreadable") else s["label"]))
                if s["input"]["st"] == "num":
                    hn, cn = s["max"]["st"] == "num", s["crit"]["st"] == "num"
                    c.add("backfill:" + ("both" if hn and cn else "crit<-high" if hn else "high<-crit" if cn else "none"))
            for f in ch["fans"]:
                c.add("fan:" + f["input"]["st"])
        if len(inp["chips"]) > 1:
            c.add("two-chips")
            if len({ch["name"] for ch in inp["chips"]}) == 1:
                c.add("same-name-chips")
        for z in inp["zones"]:
            c.add("zone:" + z["temp"]["st"])
            c.add("trips:%d" % len(z["trips"]))
            for t in z["trips"]:
                c.add("trip:" + t["type"] + ":" + t["temp"]["st"])
        if not inp["chips"] and not inp["zones"]:
            c.add("no-sensors:hwdir=%s,tzdir=%s" % (inp["hwdir"], inp["tzdir"]))
        if o["c_may"]:
            c.add("thermal-tolerated")
        if inp["zones"] and o["c_must"] and not o["c_may"]:
            c.add("thermal-required")
    elif k == "battery":
        c.add("bats:%d" % len(inp["bats"]))
        c.add("psdir:%s" % inp["psdir"])
        c.add("ac:%s" % inp["ac"]["name"])
        for b in inp["bats"]:
            c.add("layout:" + b["layout"])
            c.add("status:" + b["status"])
            c.add("pct:" + ("now/full" if b["now"]["st"] == "num" and b["full"]["st"] == "num" else "capacity"))
        for a in o["acc"]:
            c.add("secs:" + a["secs"]["k"])
            c.add("plugged:" + a["plugged"])
        if len(o["acc"]) > 1:
            c.add("several-acceptable")
    elif k == "freq":
        c.add("variant:" + inp["variant"])
        c.add("layout:" + inp["layout"])
        c.add("mhz:%s" % inp["mhz"])
        c.add("ncpu:%d" % len(inp["cpus"]))
        for x in inp["cpus"]:
            c.add("mode:" + x["mode"])
    elif k == "count":
        c.add("topo:" + inp["topo"])
        c.add("sysconf:%s" % inp["sysconf"])
        c.add("proc:%s,physid:%s" % (inp["proc"], inp["physid"]))
        c.add("offline:%d" % inp["offline"])
        c.add("cores:%s" % ("None" if not o["cores"] else "n"))
    else:
        c.add("ncpu:%d" % inp["ncpu"])
    return {k + "/" + x for x in c}


REQUIRED_INPUT = {
    "hwmon/nest:direct", "hwmon/nest:device", "hwmon/coretemp-double-listing",
    "hwmon/input:absent", "hwmon/input:unreadable", "hwmon/input:num",
    "hwmon/max:absent", "hwmon/max:junk", "hwmon/max:unreadable", "hwmon/max:num",
    "hwmon/crit:absent", "hwmon/crit:junk", "hwmon/crit:unreadable", "hwmon/crit:num",
    "hwmon/label:absent", "hwmon/label:text",
    "hwmon/backfill:both", "hwmon/backfill:crit<-high", "hwmon/backfill:high<-crit", "hwmon/backfill:none",
    "hwmon/fan:num", "hwmon/fan:unreadable", "hwmon/fan:absent", "hwmon/two-chips", "hwmon/same-name-chips",
    "hwmon/zone:num", "hwmon/zone:absent", "hwmon/zone:unreadable", "hwmon/trips:0", "hwmon/trips:1", "hwmon/trips:2",
    "hwmon/trips:3", "hwmon/trip:critical:num", "hwmon/trip:high:num", "hwmon/trip:passive:num", "hwmon/trip:critical:junk",
    "hwmon/no-sensors:hwdir=False,tzdir=False", "hwmon/no-sensors:hwdir=True,tzdir=True",
    "hwmon/thermal-tolerated", "hwmon/thermal-required",
    "battery/bats:0", "battery/bats:1", "battery/bats:2", "battery/psdir:False", "battery/psdir:True",
    "battery/ac:none", "battery/ac:AC0", "battery/ac:AC", "battery/layout:energy", "battery/layout:charge", "battery/layout:both",
    "battery/status:absent", "battery/status:Discharging", "battery/status:Charging", "battery/status:Full",
    "battery/status:Not charging", "battery/pct:now/full", "battery/pct:capacity",
    "battery/secs:num", "battery/secs:unknown", "battery/secs:unlimited", "battery/secs:any",
    "battery/plugged:true", "battery/plugged:false", "battery/plugged:none", "battery/several-acceptable",
    "freq/variant:sysfs", "freq/variant:cpuinfo", "freq/layout:policy", "freq/layout:percpu", "freq/mhz:True",
    "freq/mhz:False", "freq/ncpu:1", "freq/ncpu:2", "freq/ncpu:3", "freq/mode:scaling", "freq/mode:cpuinfo_cur",
    "freq/mode:both", "freq/mode:offline-nodir", "freq/mode:offline-dir",
    "count/topo:core_cpus", "count/topo:siblings", "count/topo:both", "count/topo:none", "count/sysconf:True",
    "count/sysconf:False", "count/proc:True,physid:True", "count/proc:True,physid:False",
    "count/proc:False,physid:False", "count/offline:0", "count/offline:1", "count/cores:None", "count/cores:n",
    "stat/ncpu:1", "stat/ncpu:3",
}
REQUIRED_RESULT = {
    "temps:{}", "temps:entries", "temps:no-thresholds", "temps:thresholds", "fans:{}", "fans:entries",
    "battery:None", "battery:num", "battery:unknown", "battery:unlimited", "battery:plugged-true",
    "battery:plugged-false", "battery:plugged-none", "freq:None", "freq:mean", "freq:offline-zeros",
    "count:cores-None", "count:cores", "count:logical", "stat",
}


def replay_cases(ctx, name, cases, seen_results, recorded=None):
    """functional.run_cases plus collection of the result classes and of the
    answers of the cases flagged for the TLC cross-check (case[4])."""
    def fn_sig(case, text):
        return sig_fn(case, text)
    chunks = [cases[i:i + 40] for i in range(0, len(cases), 40)]
    res = forkpool.map_fork(run_chunk, chunks)
    bad = 0
    for ch, (st, val) in zip(chunks, res):
        if st != "ok":
            raise core.Machinery("case runner failed (%s): %s" % (st, val))
        for idx, text in val:
            if idx == -1:
                seen_results.update(text)
                continue
            if idx == -2:
                if recorded is not None:
                    recorded.extend({"inp": ch[i][0]["inp"], "got": g, "scale": [ch[i][1], ch[i][2]], "twin_rejects": b}
                                    for i, g, b in text)
                continue
            bad += 1
            ctx.disagree("conf:" + fn_sig(ch[idx], text),
                         "code and specification disagree: %s" % text, {"case": ch[idx]})
        for c in ch:
            ctx.case(json.dumps(c, sort_keys=True, default=str))
    ctx.cov["traces_validated_against_impl"] += len(cases)
    ctx.cov.setdefault("replay", {})[name] = {"cases": len(cases), "disagreements": bad}
    if cases:
        ctx.sample({"kind": name, "case": cases[len(cases) // 2]})
    return bad


# ---------------------------------------------------------------------------
# mode 4: random larger trees through the code, judged by TLC
# ---------------------------------------------------------------------------

def rfile(rnd, kinds, vals):
    st = rnd.choice(kinds)
    return {"st": st, "v": rnd.choice(vals) if st == "num" else 0}


def rand_input(rnd, variant):
    """A random abstract input, larger than the enumerated ones and inside the
    property's quantifier (see the comments in Sensors.tla)."""
    temps = [-40000, -5000, -1, 0, 1, 999, 1000, 20500, 45000, 62125, 80000, 99999, 100000, 125000]
    labels = ["absent", "absent", "Core 0", "Package id 0", "Composite", "temp with spaces", "unreadable"]
    kind = rnd.choice(["hwmon", "hwmon", "thermal", "battery", "battery", "freq", "freq", "count", "stat"])
    if kind in ("hwmon", "thermal"):
        chips = []
        for _ in range(rnd.choice([0, 1, 2, 3, 4])):
            place = rnd.choice([("direct", False), ("direct", True), ("device", False)])
            ts = [] if kind == "thermal" else [
                {"input": rfile(rnd, ["num", "num", "num", "absent", "unreadable"], temps),
                 "max": rfile(rnd, ["num", "num", "absent", "junk", "unreadable"], temps),
                 "crit": rfile(rnd, ["num", "num", "absent", "junk", "unreadable"], temps),
                 "label": rnd.choice(labels)} for _ in range(rnd.choice([0, 1, 2, 3, 5]))]
            fs = [{"input": rfile(rnd, ["num", "num", "absent", "unreadable"], [0, 600, 1200, 4800, 65535]),
                   "label": rnd.choice(labels)} for _ in range(rnd.choice([0, 0, 1, 3]))]
            chips.append({"name": rnd.choice(["coretemp", "nct6775", "nvme", "k10temp", "acpitz"]),
                          "nest": place[0], "dup": place[1], "temps": ts, "fans": fs})
        zones = []
        for _ in range(rnd.choice([0, 1, 2, 3]) if kind == "thermal" else rnd.choice([0, 0, 1])):
            types = ["critical", "high"]
            rnd.shuffle(types)
            trips = []
            for _ in range(rnd.choice([0, 1, 2, 3, 5])):
                ty = rnd.choice(["critical", "high", "passive", "active", "passive"])
                if ty in ("critical", "high"):
                    if ty not in types:
                        ty = "active"
                    else:
                        types.remove(ty)
                trips.append({"type": ty, "temp": rfile(rnd, ["num", "num", "num", "junk"], temps)})
            zones.append({"type": rnd.choice(["acpitz", "x86_pkg_temp", "cpu-thermal"]),
                          "temp": rfile(rnd, ["num", "num", "num", "absent", "unreadable"], temps), "trips": trips})
        return {"kind": "hwmon", "hwdir": bool(chips) or rnd.random() < 0.5, "chips": chips,
                "tzdir": bool(zones) or rnd.random() < 0.5, "zones": zones}
    if kind == "battery":
        def opt(vals, p=0.75):
            return {"st": "num", "v": rnd.choice(vals)} if rnd.random() < p else {"st": "absent", "v": 0}
        bats = []
        for _ in range(rnd.choice([0, 1, 1, 1, 2, 3])):
            full = rnd.randrange(1, 201)
            b = {"layout": rnd.choice(["energy", "charge", "both"]), "now": opt(list(range(0, min(200, 2 * full) + 1))),
                 "full": opt([full]), "power": opt([0] + list(range(0, 120))),
                 "capacity": opt(list(range(0, 101)), 0.5), "tte": opt([0, 5, 90], 0.3),
                 "status": rnd.choice(["absent", "Discharging", "Charging", "Full", "Not charging", "Unknown"])}
            if not (b["now"]["st"] == "num" and b["full"]["st"] == "num") and b["capacity"]["st"] != "num":
                b["capacity"] = {"st": "num", "v": rnd.randrange(0, 101)}
            bats.append(b)
        ac = rnd.choice([{"name": "none", "online": 0}, {"name": "AC0", "online": 0}, {"name": "AC0", "online": 1},
                         {"name": "AC", "online": 0}, {"name": "AC", "online": 1}])
        return {"kind": "battery", "psdir": bool(bats) or ac["name"] != "none" or rnd.random() < 0.7,
                "bats": bats, "ac": ac}
    if kind == "freq":
        n = rnd.choice([1, 2, 4, 6, 8, 12, 24])     # >= 11: cpu10 sorts before cpu2 as text
        off = rnd.choice(["offline-nodir", "offline-dir"])
        cpus = []
        for k in range(n):
            mode = rnd.choice(["scaling", "scaling", "cpuinfo_cur", "both"] + ([off] if k else []))
            if variant == "cpuinfo" and mode != "offline-nodir":
                mode = "scaling"
            lo = rnd.randrange(400000, 1200001)
            cpus.append({"cur": rnd.randrange(400000, 5000001), "min": lo,
                         "max": lo + rnd.randrange(0, 3000000), "mode": mode})
        return {"kind": "freq", "variant": variant, "layout": "none" if variant == "cpuinfo" else rnd.choice(["policy", "percpu"]),
                "cpus": cpus, "mhz": rnd.random() < 0.6}
    if kind == "count":
        t = rnd.choice([1, 2])
        proc = rnd.random() < 0.7
        return {"kind": "count", "pk": rnd.choice([1, 2, 4]), "cores": rnd.choice([1, 2, 3, 8]), "threads": t,
                "offline": rnd.choice([0, 1]) if t == 2 else 0, "sysconf": rnd.random() < 0.5, "proc": proc,
                "statcpus": True, "topo": rnd.choice(["core_cpus", "siblings", "both", "none"]),
                "physid": proc and rnd.random() < 0.6}
    return {"kind": "stat", "ctxt": rnd.randrange(0, 1000), "intr": rnd.randrange(0, 1000),
            "softirq": rnd.randrange(0, 1000), "btime": rnd.randrange(1, 1000), "ncpu": rnd.choice([1, 2, 5, 16])}


def rand_chunk(job):
    """Forked: feed random trees to the real code; return trace lines."""
    seed, n = job
    variant = sk._T.get("variant", "sysfs")
    w, ps = sk.template(variant)
    rnd = random.Random(seed)
    lines = []
    for _ in range(n):
        inp = rand_input(rnd, variant)
        S = rnd.choice(SCALES if inp["kind"] == "battery" else STAT_SCALES)
        SB = rnd.choice(BTIME_SCALES)
        sk.build(w, inp, rnd, S, SB, big=True)
        lines.append({"inp": inp, "got": ask(ps, inp, S, SB), "scale": [S, SB]})
    return lines


def trace_validate(ctx, n, name, twin=()):
    """*twin*: answers of enumerated cases already judged by the Python twin of
    Agree; TLC judges them again and the two verdicts must coincide."""
    jobs = [(ctx.seed * 1000 + i + (500 if name.endswith("cpuinfo") else 0), n // 16 + 1) for i in range(16)]
    res = forkpool.map_fork(rand_chunk, jobs)
    lines = []
    for st, val in res:
        if st != "ok":
            raise core.Machinery("trace driver failed: %s" % (val,))
        lines.extend(val)
    nrand = len(lines)
    lines = lines + list(twin)
    d = tlc.scratch()
    tf = os.path.join(d, "trace.ndjson")
    with open(tf, "w") as f:
        for l in lines:
            f.write(json.dumps({"inp": l["inp"], "got": l["got"]}) + "\n")
    cfg = os.path.join(d, "t.cfg")
    tlc.write_cfg(cfg, consts([], False), init="TInit", next_="TNext", invariants=["Match"] + INVS)
    r = tlc.run("SensorsTrace", cfg, workers=8, env={"TRACE_FILE": tf}, timeout=900)
    ctx.tlc(name, r)
    if r.distinct != 2 * len(lines) and not r.violated:
        raise core.Machinery("trace validation evaluated %d states for %d records" % (r.distinct, len(lines)))
    ctx.cov["traces_validated_against_impl"] += len(lines)
    rej = {}
    for tag, rest in r.printed:
        if tag == "REJECTED":
            i, js = rest.split(", ", 1)
            rej[int(i)] = json.loads(json.loads(js))
    ctx.cov.setdefault("replay", {})[name] = {"records": nrand, "rejected_by_tlc": sum(1 for i in rej if i <= nrand),
                                               "by_kind": dict(collections.Counter(l["inp"]["kind"] for l in lines[:nrand])),
                                               "twin_cross_checked": len(lines) - nrand}
    for i, l in enumerate(lines[nrand:], nrand + 1):
        if (i in rej) != l["twin_rejects"]:
            raise core.Machinery("TLC's Agree and its Python twin differ (TLC rejects: %s) on %r" % (i in rej, l))
    rej = {i: o for i, o in rej.items() if i <= nrand}
    lines = lines[:nrand]
    if r.violated:
        ctx.disagree("model:%s" % r.violated, "TLC: structural property %s fails on a recorded input\n%s"
                     % (r.violated, "\n".join("%s %s" % x for x in tlc.trace_events(r.trace))), {"trace": r.out[-3000:]})
    for i, exp in sorted(rej.items()):
        l = lines[i - 1]
        why = agree(exp, l["got"], l["inp"])
        if not why:
            raise core.Machinery("TLC rejects record %d but the Python twin of Agree accepts it: %r" % (i, l))
        for api, cls, text in why:
            ctx.disagree("conf:%s:%s" % (api, cls), "TLC rejects a recorded answer: %s  [input %s, scales %r]"
                         % (text, json.dumps(l["inp"], sort_keys=True), l["scale"]),
                         {"case": [{"inp": l["inp"], "out": exp}, l["scale"][0], l["scale"][1], None], "got": l["got"]})
    for l in lines:
        ctx.case(json.dumps(l["inp"], sort_keys=True))
    shutil.rmtree(d, ignore_errors=True)
    if lines:
        ctx.sample({"kind": "recorded trace line", "line": lines[0]})
    return lines


# ---------------------------------------------------------------------------
# non-binding observations (outside the statement)
# ---------------------------------------------------------------------------

def observe_extras(_):
    w, ps = sk.template(sk._T.get("variant", "sysfs"))
    rnd = random.Random(0)
    obs = []
    base = {"kind": "hwmon", "hwdir": True, "tzdir": False, "zones": []}
    chip = {"name": "nct6775", "nest": "direct", "dup": False, "temps": [],
            "fans": [{"input": {"st": "junk", "v": 0}, "label": "absent"}]}
    sk.build(w, dict(base, chips=[chip]), rnd)
    obs.append("sensors_fans() with a non-numeric fan1_input: %r" % (call(ps.sensors_fans),))
    chip = dict(chip, fans=[{"input": {"st": "num", "v": 1200}, "label": "absent"}])
    sk.build(w, dict(base, chips=[chip]), rnd)
    del w.files[sk.HWMON + "/hwmon0/name"]
    obs.append("sensors_fans() with a missing name file: %r" % (call(ps.sensors_fans),))
    chip = {"name": "coretemp", "nest": "direct", "dup": True, "fans": [],
            "temps": [{"input": {"st": "num", "v": 45000}, "max": {"st": "absent", "v": 0},
                       "crit": {"st": "absent", "v": 0}, "label": "absent"}]}
    sk.build(w, dict(base, chips=[chip]), rnd)
    del w.links[sk.HWMON + "/hwmon0"]
    obs.append("sensors_temperatures() with a coretemp chip listed only under /sys/devices/platform: %r"
               % (call(ps.sensors_temperatures),))
    bat = {"layout": "energy", "now": {"st": "absent", "v": 0}, "full": {"st": "absent", "v": 0},
           "power": {"st": "absent", "v": 0}, "capacity": {"st": "num", "v": 50}, "tte": {"st": "num", "v": 90},
           "status": "Discharging"}
    sk.build(w, {"kind": "battery", "psdir": True, "bats": [bat], "ac": {"name": "none", "online": 0}}, rnd)
    obs.append("sensors_battery() with only capacity=50 and time_to_empty_now=90: %r" % (call(ps.sensors_battery),))
    return obs


# ---------------------------------------------------------------------------

def tlc_parallel(jobs):
    """Run TLC jobs (callables) concurrently; results in order."""
    res = [None] * len(jobs)

    def run(i):
        try:
            res[i] = jobs[i]()
        except BaseException as ex:  # noqa: BLE001
            res[i] = ex
    th = [threading.Thread(target=run, args=(i,)) for i in range(len(jobs))]
    for t in th:
        t.start()
    for t in th:
        t.join()
    for r in res:
        if isinstance(r, BaseException):
            raise r
    return res


def enumerate_inputs(ctx, wide):
    """Structural invariants over the whole enumerated space (exhaustive TLC
    run) and, concurrently, the cached dump of the Observe events."""
    c = consts(KINDS, wide)

    def chk():
        d = tlc.scratch()
        cfg = os.path.join(d, "inputs.cfg")
        tlc.write_cfg(cfg, c, invariants=INVS)
        r = tlc.run("Sensors", cfg, workers=12, timeout=1500)
        shutil.rmtree(d, ignore_errors=True)
        return r

    r, rd = tlc_parallel([chk, lambda: tlc.dump_cached("Sensors", c, view=None, timeout=1500)])
    ctx.tlc("inputs", r, {k: (sorted(v, key=str) if isinstance(v, (set, frozenset)) else v) for k, v in c.items()})
    if r.violated:
        t = tlc.trace_events(r.trace)
        ctx.disagree("model:%s" % r.violated, "TLC: structural property %s of the specification's function is violated\n%s"
                     % (r.violated, "\n".join("%s %s" % x for x in t)), {"trace": t})
    ctx.tlc("inputs-dump", rd)
    if rd.timed_out or not rd.tr:
        raise core.Machinery("the dump of the input space is empty or timed out")
    evs = [x for x in functional.events_of(rd) if x.get("op") == "observe"]
    if 2 * len(evs) != r.distinct and not r.violated:
        raise core.Machinery("the dump has %d inputs, the exhaustive run %d states" % (len(evs), r.distinct))
    return evs


def warm(ctx):
    tlc_parallel([(lambda wide=wide: functional.events_of(tlc.dump_cached("Sensors", consts(KINDS, wide), view=None)))
                  for wide in (False, True)])


def replay_one(ctx):
    rep = json.load(open(ctx.replay_file))["replay"]
    case = rep["case"]
    variant = case[0]["inp"].get("variant", "sysfs")
    forkpool.start(1, init=sk.template_cpuinfo if variant == "cpuinfo" else sk.template_sysfs)
    if case[3] is None:
        case[3] = 0
    seen = set()
    bad = replay_cases(ctx, "replay-file", [tuple(case[:4])], seen)
    print("replayed %s: %d disagreement(s)" % (ctx.replay_file, bad))


def check(ctx):
    if getattr(ctx, "replay_file", None):
        return replay_one(ctx)
    forkpool.start(16, init=sk.template_sysfs)
    thorough = ctx.tier == "thorough"
    ctx.cov["rule"] = ("cases = abstract hardware trees / CPU tables (hwmon chips x sensors x file presence x content "
                       "class, thermal zones x trip points, batteries x adapter x status, cpufreq policies x sources x "
                       "offline CPUs, topology x count sources, /proc/stat counters x scale) rendered into simkernel's "
                       "sysfs/procfs and queried through sensors_temperatures (C and F), sensors_fans, sensors_battery, "
                       "cpu_freq (both forms), cpu_count (both forms), cpu_stats, boot_time; distinct = distinct "
                       "(tree, scale, unreadable-flavour seed)")
    ctx.assumptions += [
        "sim_c19 renders the trees as sysfs does: one decimal integer and a newline per file, hwmonN/[device/]tempK_{input,max,"
        "crit,label}, thermal_zoneN/{type,temp,trip_point_J_{type,temp,hyst}}, power_supply/BATn and AC0|AC, cpufreq/policyN or "
        "cpuN/cpufreq, x86 /proc/cpuinfo blocks each closed by an empty line",
        "'unreadable' is EACCES at open or EIO/ENODATA/ENXIO at read (chosen per case by the seed); an unreadable or "
        "non-numeric OPTIONAL file (threshold, label) counts as a missing one",
        "results whose order the statement leaves open are compared as bags (entries of the temperature/fan dicts)",
        "thermal zones must be reported when /sys/class/hwmon has no temp* file at all and are tolerated (not required) next to hwmon sensors",
        "a non-numeric temp*_input, a missing chip name file, a non-numeric fan*_input are outside the quantifier: not generated (recorded as observations)",
        "several batteries: the answer for any one of them is accepted; adapter 'online' and battery status contradicting each "
        "other: either reading is accepted; energy_full = 0 and batteries without any charge information are not generated",
        "secsleft within 1 s of now/power*3600 (the code truncates a float product); from time_to_empty_now alone (not in the "
        "statement) any non-negative number or UNKNOWN is accepted; percent within 1e-4",
        "an offline CPU whose cpufreq directory stays (without *_cur_freq) may be reported as zeros or left out; one tree does "
        "not mix that with offline CPUs whose directory is gone; cpufreq policies are per CPU (no shared policies)",
        "all exposures of a CPU's current frequency (scaling_cur_freq, cpuinfo_cur_freq, 'cpu MHz') carry the same number; "
        "1 kHz tolerance where 'cpu MHz' (three decimals) is a source; min/max are compared only in the sysfs variant",
        "cpu_count: every available source (sysconf, 'processor' lines, cpuN lines of /proc/stat; core_cpus_list, "
        "thread_siblings_list, physical id/cpu cores) describes the same machine; the offline CPU is a second hardware thread",
        "cpu_stats().syscalls is not compared (not a kernel table on Linux); counters scaled up to 2^64-1, btime below 2^53",
        "temperatures are compared with the exact rational up to half a unit of 1/1000 C (1/5000 F)",
    ]
    import time
    t0 = time.time()
    phases = ctx.cov.setdefault("phase_wall_s", {})

    def mark(name):
        nonlocal t0
        phases[name] = round(time.time() - t0, 2)
        t0 = time.time()
    evs = enumerate_inputs(ctx, thorough)
    mark("tlc-enumeration")
    rnd = random.Random(ctx.seed)
    seen_inputs = set()
    main, alt = [], []
    for n, e in enumerate(evs):
        seen_inputs |= input_classes(e)
        k = e["inp"]["kind"]
        dest = alt if k == "freq" and e["inp"]["variant"] == "cpuinfo" else main
        seed = ctx.seed * 1000003 + n
        if k == "battery":
            dest.append((e, SCALES[0], 1, seed))
            if thorough or rnd.random() < 0.3:
                dest.append((e, rnd.choice(SCALES[1:]), 1, seed + 1))
        elif k == "stat":
            for S in STAT_SCALES:
                dest.append((e, S, rnd.choice(BTIME_SCALES), seed))
        else:
            dest.append((e, 1, 1, seed))
            if thorough and k == "hwmon":
                dest.append((e, 1, 1, seed + 7919))     # the other unreadable flavours / junk texts
    missing = REQUIRED_INPUT - seen_inputs
    if thorough:
        missing |= {"hwmon/label:unreadable", "count/sysconf:False"} - seen_inputs
    if missing:
        core.vacuity("input classes never enumerated: %s" % sorted(missing))
    seen_results = set()
    every = 2 if thorough else 5          # share of the enumerated cases TLC judges a second time
    main = [c + (n % every == 0,) for n, c in enumerate(main)]
    alt = [c + (True,) for c in alt]
    recorded = []
    replay_cases(ctx, "enumerated-trees", main, seen_results, recorded)
    mark("replay")
    lines = trace_validate(ctx, 24000 if thorough else 3000, "trace-validation", recorded)
    mark("trace-validation")
    st, obs = forkpool.map_fork(observe_extras, [0])[0]
    if st == "ok":
        ctx.notes += ["observation (outside the statement, not judged): " + o for o in obs]
    # the cpu_freq implementation chosen at import time when sysfs has no cpufreq
    forkpool.shutdown()
    forkpool.start(16, init=sk.template_cpuinfo)
    recorded = []
    replay_cases(ctx, "enumerated-cpuinfo-variant", alt, seen_results, recorded)
    lines += trace_validate(ctx, 4000 if thorough else 600, "trace-validation-cpuinfo", recorded)
    mark("cpuinfo-variant")
    for l in lines:
        seen_results |= result_classes(l["inp"], l["got"])
    missing = REQUIRED_RESULT - seen_results
    if missing and not ctx.violations:
        core.vacuity("result classes never produced by the real code: %s" % sorted(missing))
    if missing:     # disagreements explain the gap and are reported instead
        ctx.notes.append("result classes never produced by the real code: %s" % sorted(missing))
    ctx.cov["input_classes"] = len(seen_inputs)
    ctx.cov["result_classes"] = sorted(seen_results)


def main(prop, argv):
    core.main_wrapper(check, prop, argv)

"""X17 -- the Python layer of C17 over the simulated kernel
(spec/SysTables.tla, spec/SysTablesTrace.tla): psutil.disk_partitions(),
psutil.net_if_stats(), psutil.net_if_addrs(), psutil.users() for mount /
interface / login tables the live kernel of the sandbox cannot produce.

check_extra(ctx, thorough) is called from c17.check; `./check X17` runs it alone."""
import json
import os
import random
import shutil

from harness import core, forkpool, functional, sim_x17, tlc
from harness.tmpl import template

FAMS = ("mounts", "rootfs", "mtab", "stats", "addrs", "users")
MOUNT_FAMS = ("mounts", "rootfs", "mtab")
INVS = ["AllKeepsEverything", "FilteredRowsAreDisks", "FilterKeepsDisks", "NoneIsNeverShown", "RootOnlyIfKnown",
        "AnySourceSuffices", "LocationIrrelevant", "IsUpIffRunning", "EnodevIsSkipped", "OtherErrorsPropagate",
        "StatsMirrorKernel", "SortedByFamily", "MacHasSixGroups", "PaddingOnlyAppends", "NoRowLost", "OneRowPerLogin"]
FAM_RANK = {"AF_INET": 2, "AF_INET6": 10, "AF_LINK": 17}

ASSUMPTIONS = [
    "X17: the C extension's answers (users(), disk_partitions(path), net_if_addrs(), net_if_mtu/flags/duplex_speed) are "
    "simulated: mount tables are rendered with getmntent's octal escapes into the simulated VFS and parsed back by an "
    "emulation of glibc's getmntent; the real extension is exercised by the C17 worker, not here",
    "X17: rows of disk_partitions()/users() and the rows of one interface and one family in net_if_addrs() are compared "
    "as multisets (no order is stated); across families the rows of an interface must be in ascending family order",
    "X17: interface flags are compared as a set of names (the flags string split at ',')",
    "X17: an empty host of a login record may be reported as '' or None",
    "X17: the three sources RootFsDeviceFinder consults are views of one kernel table: whenever more than one knows the "
    "device of '/', they name the same device; a mounted filesystem type is always listed in the filesystems table",
    "X17: a regular-file /etc/mtab has the content of the caller's /proc/self/mounts (which of the two is read when "
    "PROCFS_PATH is '/proc' is left open); with PROCFS_PATH elsewhere the table is PROCFS_PATH/self/mounts (HISTORY #1307) "
    "while partitions/filesystems have the same content under both roots",
    "X17: with several interfaces failing with errors other than ENODEV the errno of any of them may be raised",
    "X17: an interface that is 'running' is also 'up' (the kernel never reports IFF_RUNNING alone); MACs have 1..8 groups "
    "(sll_halen); families are AF_INET, AF_INET6, AF_PACKET",
]


def consts(thorough, big=False):
    return {"Families": set(FAMS), "MaxEnts": 3 if big else 2, "MaxNics": 3 if thorough else 2,
            "MaxRows": 3, "MaxLogins": 3 if thorough else 2}


# ---------------------------------------------------------------------------
# the real public API over the simulated kernel -> answers in the spec's shape
# ---------------------------------------------------------------------------

def _fam_name(ps, fam):
    import enum
    import socket
    if not isinstance(fam, enum.IntEnum):
        return "int:%r" % (fam,)
    if fam == ps.AF_LINK:
        return "AF_LINK"
    if fam == socket.AF_INET:
        return "AF_INET"
    if fam == socket.AF_INET6:
        return "AF_INET6"
    return "enum:%r" % (fam,)


def _groups(fam, s):
    if s is None:
        return []
    if not isinstance(s, str):
        return ["?%r" % (s,)]
    return s.split(":") if fam == "AF_LINK" else [s]


def _s(x):
    """A string answer as it is; anything else (None, bytes, ...) as a marked
    string, so that the judge sees one type per slot."""
    return x if isinstance(x, str) else "?%r" % (x,)


def _intlike(x):
    if isinstance(x, bool) or not isinstance(x, (int, float)) or x != int(x):
        return -1
    return int(x)


def query(w, ps, inp):
    """Build the world for *inp*, make the public call, return the answer in
    the specification's shape.  Exceptions other than the OSError the statement
    allows for net_if_stats() propagate."""
    sim_x17.install(w, ps)
    sim_x17.reset(w, ps)
    fam = inp["fam"]
    try:
        if fam in MOUNT_FAMS:
            sim_x17.set_mounts(w, ps, inp)
            res = ps.disk_partitions(all=inp["all"])
            return {"rows": [{"device": _s(r.device), "mountpoint": _s(sim_x17.RDIRS.get(r.mountpoint, r.mountpoint)),
                              "fstype": _s(r.fstype), "opts": _s(r.opts)} for r in res]}
        if fam == "stats":
            sim_x17.set_stats(w, ps, inp)
            try:
                res = ps.net_if_stats()
            except OSError as e:
                return {"raises": True, "errno": e.errno if isinstance(e.errno, int) else -1, "nics": []}
            dup = {ps.NIC_DUPLEX_FULL: "full", ps.NIC_DUPLEX_HALF: "half", ps.NIC_DUPLEX_UNKNOWN: "unknown"}
            return {"raises": False, "errno": 0,
                    "nics": [{"name": _s(n), "isup": {True: "true", False: "false"}[s.isup] if isinstance(s.isup, bool) else "?%r" % (s.isup,),
                              "duplex": dup.get(s.duplex, "?%r" % (s.duplex,)), "speed": _intlike(s.speed),
                              "mtu": _intlike(s.mtu),
                              "flags": [f for f in s.flags.split(",") if f] if isinstance(s.flags, str) else ["?%r" % (s.flags,)]}
                             for n, s in res.items()]}
        if fam == "addrs":
            sim_x17.set_addrs(w, ps, inp)
            res = ps.net_if_addrs()
            out = []
            for n, rows in res.items():
                rr = []
                for a in rows:
                    f = _fam_name(ps, a.family)
                    rr.append({"family": f, "address": _groups(f, a.address), "netmask": _groups(f, a.netmask),
                               "broadcast": _groups(f, a.broadcast), "ptp": _groups(f, a.ptp)})
                out.append({"name": _s(n), "rows": rr})
            return {"nics": out}
        if fam == "users":
            sim_x17.set_users(w, ps, inp)
            res = ps.users()
            return {"rows": [{"name": _s(u.name), "terminal": "None" if u.terminal is None else _s(u.terminal),
                              "host": "" if u.host is None else _s(u.host), "started": _intlike(u.started),
                              "pid": _intlike(u.pid)} for u in res]}
        raise core.Machinery("unknown family %r" % fam)
    finally:
        ps.PROCFS_PATH = "/proc"


# ---------------------------------------------------------------------------
# mode 5: comparison of one answer with F(input); every mismatch is tagged with
# the clause of the statement it breaks (stable signatures)
# ---------------------------------------------------------------------------

def _bag(rows):
    return sorted(json.dumps(r, sort_keys=True) for r in rows)


def _as_map(x):
    return x if isinstance(x, dict) else {}        # TLC prints the empty function as []


def compare(inp, got, out):
    fam = inp["fam"]
    bad = []
    if fam in MOUNT_FAMS:
        exp = out["rows"]
        if _bag(got["rows"]) != _bag(exp):
            gd, ed = [r["device"] for r in got["rows"]], [r["device"] for r in exp]
            if any(e["dev"] == "none" for e in inp["ents"]) and "none" in gd:
                tag = "device-none"
            elif len(got["rows"]) != len(exp):
                tag = "filter-all" if inp["all"] else "filter"
            elif sorted(gd) != sorted(ed):
                tag = "rootfs-device" if any(e["dev"] in ("/dev/root", "rootfs") for e in inp["ents"]) else "device"
            else:
                tag = "fields"
            if any(r["device"] == "/dev/decoy" for r in got["rows"]):
                tag = "table-choice"          # the caller's own table instead of PROCFS_PATH's
            bad.append((tag, "disk_partitions(all=%s) -> %r, specification: %r" % (inp["all"], got["rows"], exp)))
    elif fam == "stats":
        if out["raises"]:
            if not got["raises"]:
                bad.append(("error-swallowed", "net_if_stats() returned %r although an interface query fails with errno %r"
                            % (got["nics"], out["errnos"])))
            elif got["errno"] not in out["errnos"]:
                bad.append(("errno", "net_if_stats() raised errno %r, specification: one of %r" % (got["errno"], out["errnos"])))
        elif got["raises"]:
            bad.append(("enodev-raised" if got["errno"] == 19 else "raised",
                        "net_if_stats() raised OSError(errno=%r), specification: succeeds with %r"
                        % (got["errno"], sorted(_as_map(out["nics"])))))
        else:
            exp = _as_map(out["nics"])
            g = {r["name"]: r for r in got["nics"]}
            if sorted(g) != sorted(exp):
                bad.append(("names", "net_if_stats() lists %r, specification: %r" % (sorted(g), sorted(exp))))
            for n in sorted(set(g) & set(exp)):
                for k in ("isup", "duplex", "speed", "mtu"):
                    e = {True: "true", False: "false"}[exp[n][k]] if k == "isup" else exp[n][k]
                    if g[n][k] != e:
                        bad.append((k, "net_if_stats()[%r].%s = %r, specification: %r (flags %r)"
                                    % (n, k, g[n][k], exp[n][k], exp[n]["flags"])))
                if sorted(g[n]["flags"]) != sorted(exp[n]["flags"]):
                    bad.append(("flags", "net_if_stats()[%r].flags = %r, specification: %r" % (n, g[n]["flags"], exp[n]["flags"])))
    elif fam == "addrs":
        exp = _as_map(out["nics"])
        g = {r["name"]: r["rows"] for r in got["nics"]}
        if sorted(g) != sorted(exp):
            bad.append(("names", "net_if_addrs() lists %r, specification: %r" % (sorted(g), sorted(exp))))
        for n in sorted(set(g) & set(exp)):
            ranks = [FAM_RANK.get(r["family"], -1) for r in g[n]]
            if _bag(g[n]) != _bag(exp[n]):
                gf, ef = sorted(r["family"] for r in g[n]), sorted(r["family"] for r in exp[n])
                if gf != ef:
                    tag = "family"
                elif any(r["family"] == "AF_LINK" and len(r["address"]) < 6 for r in g[n]) or \
                        sorted(len(r["address"]) for r in g[n]) != sorted(len(r["address"]) for r in exp[n]):
                    tag = "mac-groups"
                else:
                    tag = "fields"
                bad.append((tag, "net_if_addrs()[%r] = %r, specification: %r" % (n, g[n], exp[n])))
            elif ranks != sorted(ranks):
                bad.append(("family-order", "net_if_addrs()[%r] is not sorted by family: %r" % (n, [r["family"] for r in g[n]])))
    elif fam == "users":
        if _bag(got["rows"]) != _bag(out["rows"]):
            if len(got["rows"]) != len(out["rows"]):
                tag = "rows"
            elif sorted(r["terminal"] for r in got["rows"]) != sorted(r["terminal"] for r in out["rows"]):
                tag = "terminal"
            else:
                tag = "fields"
            bad.append((tag, "users() -> %r, specification: %r" % (got["rows"], out["rows"])))
    return bad


def run_chunk(cases):
    w, ps = template()
    res = []
    for i, ev in enumerate(cases):
        inp = ev["inp"]
        try:
            got = query(w, ps, inp)
        except core.Machinery:
            raise
        except Exception as ex:  # noqa: BLE001
            res.append((i, "%s/exception: the call raised %r  [input %r]" % (inp["fam"], ex, inp)))
            continue
        bad = compare(inp, got, ev["out"])
        if bad:
            res.append((i, "%s/%s: %s  [input %r]" % (inp["fam"], bad[0][0], "; ".join(b[1] for b in bad), inp)))
    return res


def sig_fn(case, text):
    return "x17:" + text.split(":")[0]


# ---------------------------------------------------------------------------
# mode 4: seeded random tables through the code, judged by TLC
# ---------------------------------------------------------------------------
FLAG_NAMES = ["broadcast", "debug", "loopback", "pointopoint", "notrailers", "noarp", "promisc", "allmulti",
              "master", "slave", "multicast", "portsel", "automedia", "dynamic"]
FS_POOL = ["ext4", "xfs", "btrfs", "vfat", "tmpfs", "proc", "sysfs", "zfs", "fuseblk", "overlay", "squashfs", "rootfs"]
NODEV_REAL = {"tmpfs", "proc", "sysfs", "zfs", "overlay", "rootfs"}


def _word(rnd, n=6):
    return "".join(rnd.choice("abcdefghijklmnopqrstuvwxyz0123456789") for _ in range(rnd.randint(1, n)))


def rand_input(rnd):
    fam = rnd.choice(["mounts", "mounts", "stats", "addrs", "users"])
    if fam == "mounts":
        listed = rnd.sample(FS_POOL, rnd.randint(1, len(FS_POOL)))
        fst = [{"type": t, "nodev": (t in NODEV_REAL) if rnd.random() < 0.85 else rnd.random() < 0.5} for t in listed]
        rootname = rnd.choice(["sda1", "vda", "mmcblk0p2", "nvme0n1p%d" % rnd.randint(1, 9), "dm-%d" % rnd.randint(0, 9)])
        ents = []
        for _ in range(rnd.randint(0, 7)):
            dev = rnd.choice(["none", "/dev/root", "rootfs", "/dev/" + _word(rnd), _word(rnd), "pool/" + _word(rnd),
                              "/dev/my disk", "//srv/share", "/dev/" + rootname, "None", "nodev"])
            ents.append({"dev": dev, "dir": rnd.choice(list(sim_x17.DIRS) + ["/mnt/" + _word(rnd)]),
                         "type": rnd.choice(listed),
                         "opts": ",".join(rnd.sample(["rw", "ro", "relatime", "nosuid", "nodev", "noexec", "size=4k"], rnd.randint(1, 4)))})
        root = {"dev": [rnd.choice([0, 8, 179, 253, 259]), rnd.choice([0, 1, 2, 17, 255, 256, 300, 1048575])],
                "path": "/dev/" + rootname,
                "parts": rnd.choice(["absent", "nomatch", "match"]), "uevent": rnd.choice(["absent", "noname", "match"]),
                "cls": rnd.choice(["absent", "nomatch", "match"]), "node": rnd.random() < 0.7}
        return {"fam": "mounts", "ents": ents, "fst": fst, "all": rnd.random() < 0.5, "root": root,
                "mtab": rnd.choice(["absent", "link", "rellink", "file"]), "procfs": rnd.choice(["/proc", "/host/proc", "/p r"])}
    if fam == "stats":
        names = rnd.sample(["lo", "eth0", "eth1", "wlan0", "tun0", "br-1a2b", "veth9", "enp0s31f6", "ib0"], rnd.randint(0, 5))
        nics = []
        for n in names:
            flags = rnd.sample(FLAG_NAMES, rnd.randint(0, 4))
            if rnd.random() < 0.75:
                flags.insert(0, "up")
                if rnd.random() < 0.7:
                    flags.insert(rnd.randint(1, len(flags)), "running")
            err = 0 if rnd.random() < 0.75 else rnd.choice([19, 19, 1, 12, 22, 95])
            nics.append({"name": n, "mtu": rnd.choice([0, 68, 576, 1280, 1500, 9000, 65536, 2 ** 31 - 1]), "flags": flags,
                         "duplex": rnd.choice([0, 1, 255]), "speed": rnd.choice([0, 10, 100, 1000, 2500, 40000, 400000]),
                         "err": err, "errat": rnd.choice(["mtu", "flags", "duplex"])})
        return {"fam": "stats", "nics": nics}
    if fam == "addrs":
        names = rnd.sample(["lo", "eth0", "wlan0", "tun0", "ib0"], rnd.randint(1, 4))
        rows = []
        for _ in range(rnd.randint(0, 9)):
            f = rnd.choice([2, 10, 17, 17])
            if f == 17:
                mac = lambda k: ["%02x" % rnd.randint(0, 255) for _ in range(k)]  # noqa: E731
                k = rnd.choice([1, 2, 3, 4, 5, 6, 6, 7, 8])
                addr, mask = mac(k), []
                bc, ptp = rnd.choice([([], []), (["ff"] * k, []), ([], mac(k))])
            elif f == 2:
                ip = lambda: ["%d.%d.%d.%d" % tuple(rnd.randint(0, 255) for _ in range(4))]  # noqa: E731
                addr, mask = ip(), rnd.choice([[], ["255.255.255.0"], ["255.255.255.255"]])
                bc, ptp = rnd.choice([([], []), (ip(), []), ([], ip())])
            else:
                addr = [rnd.choice(["::1", "fe80::%x:%x%%%s" % (rnd.randint(0, 65535), rnd.randint(0, 65535), rnd.choice(names)),
                                    "2001:db8::%x" % rnd.randint(0, 65535)])]
                mask, bc, ptp = rnd.choice([[], ["ffff:ffff:ffff:ffff::"]]), [], []
            rows.append({"name": rnd.choice(names), "fam": f, "addr": addr, "mask": mask, "bcast": bc, "ptp": ptp})
        return {"fam": "addrs", "rows": rows}
    recs = []
    for k in range(rnd.randint(0, 5)):
        recs.append({"user": rnd.choice(["root", "alice", _word(rnd, 32), ""]),
                     "tty": rnd.choice(["", "", "tty%d" % rnd.randint(1, 63), "pts/%d" % rnd.randint(0, 999), ":0", "None"]),
                     "host": rnd.choice(["", "localhost", ":0", "10.0.0.%d" % rnd.randint(1, 254), _word(rnd, 12) + ".example"]),
                     "tstamp": rnd.randint(1, 2 ** 31 - 1), "pid": rnd.choice([0, 1, rnd.randint(2, 4194304)])})
    return {"fam": "users", "recs": recs}


def rand_chunk(job):
    seed, n = job
    w, ps = template()
    rnd = random.Random(seed)
    lines = []
    for _ in range(n):
        inp = rand_input(rnd)
        try:
            lines.append({"inp": inp, "got": query(w, ps, inp)})
        except core.Machinery:
            raise
        except Exception as ex:  # noqa: BLE001
            lines.append({"inp": inp, "error": repr(ex)})
    return lines


def _canary():
    """A record whose recorded answer is wrong (device 'none' kept): TLC must
    reject it, otherwise the judge is vacuous."""
    inp = {"fam": "mounts", "ents": [{"dev": "none", "dir": "D_ROOT", "type": "tmpfs", "opts": "rw"}],
           "fst": [{"type": "tmpfs", "nodev": True}], "all": True,
           "root": {"dev": [8, 1], "path": "/dev/sda1", "parts": "match", "uevent": "match", "cls": "match", "node": True},
           "mtab": "link", "procfs": "/proc"}
    return {"inp": inp, "got": {"rows": [{"device": "none", "mountpoint": "D_ROOT", "fstype": "tmpfs", "opts": "rw"}]}}


def trace_validate(ctx, n):
    jobs = [(ctx.seed * 1000 + 17 * 7919 + i, n // 16 + 1) for i in range(16)]
    res = forkpool.map_fork(rand_chunk, jobs)
    lines = []
    for st, val in res:
        if st != "ok":
            raise core.Machinery("X17 trace driver failed: %s" % (val,))
        lines.extend(val)
    errs = [l for l in lines if "error" in l]
    for l in errs[:3]:
        ctx.disagree("x17:trace/%s/exception" % l["inp"]["fam"],
                     "a public call raised on a kernel-presentable table: %s (input %r)" % (l["error"], l["inp"]), l)
    lines = [l for l in lines if "got" in l]
    fams = {l["inp"]["fam"] for l in lines}
    if fams != {"mounts", "stats", "addrs", "users"} and not errs:
        core.vacuity("X17 random driver produced families %s only" % sorted(fams))
    lines.append(_canary())
    d = tlc.scratch()
    try:
        tf = os.path.join(d, "trace.ndjson")
        with open(tf, "w") as f:
            for l in lines:
                f.write(json.dumps(l) + "\n")
        cfg = os.path.join(d, "t.cfg")
        c = consts(False)
        c["Families"] = set()
        tlc.write_cfg(cfg, c, init="TInit", next_="TNext", invariants=["Match"])
        r = tlc.run("SysTablesTrace", cfg, workers=4, env={"TRACE_FILE": tf}, timeout=900)
    finally:
        shutil.rmtree(d, ignore_errors=True)
    ctx.tlc("x17-trace-validation", r)
    if r.violated:
        raise core.Machinery("X17 trace validation stopped: %s" % r.violated)
    if r.distinct != 2 * len(lines):
        raise core.Machinery("X17 trace validation judged %d states for %d records" % (r.distinct, len(lines)))
    rej = sorted({int(t[0]) for t in tlc.tagged(r, "REJECTED")})
    if len(lines) not in rej:
        core.vacuity("TLC accepted the deliberately wrong record (canary) of the X17 trace")
    rej = [i for i in rej if i != len(lines)]
    seen = set()
    for i in rej:
        l = lines[i - 1]
        bad = compare(l["inp"], l["got"], _spec_out_hint(l))
        tag = bad[0][0] if bad else "judged"
        sig = "x17:trace/%s/%s" % (l["inp"]["fam"], tag)
        if sig in seen:
            continue
        seen.add(sig)
        ctx.disagree(sig, "TLC rejects a recorded answer: input %r, code answered %r%s"
                     % (l["inp"], l["got"], ("; " + bad[0][1]) if bad else ""), l)
    for l in lines[:-1]:
        ctx.case(json.dumps(l["inp"], sort_keys=True))
    ctx.cov["traces_validated_against_impl"] += len(lines) - 1
    ctx.cov.setdefault("replay", {})["x17-trace-validation"] = {"records": len(lines) - 1, "rejected": len(rej),
                                                                "canary_rejected": True}
    if len(lines) > 1:
        ctx.sample({"kind": "x17 recorded trace line", "line": lines[0]})


# a Python transcription of F is NOT the judge: it only names the clause in the
# signature of a record TLC rejected (no verdict depends on it)
def _spec_out_hint(l):
    inp = l["inp"]
    fam = inp["fam"]
    if fam in MOUNT_FAMS:
        r = inp["root"]
        found = r["node"] and "match" in (r["parts"], r["uevent"], r["cls"])
        disk = {x["type"] for x in inp["fst"] if not x["nodev"] or x["type"] == "zfs"}
        rows = []
        for e in inp["ents"]:
            d = "" if e["dev"] == "none" else (r["path"] if e["dev"] in ("/dev/root", "rootfs") and found else e["dev"])
            if inp["all"] or (d and e["type"] in disk):
                rows.append({"device": d, "mountpoint": e["dir"], "fstype": e["type"], "opts": e["opts"]})
        return {"rows": rows}
    if fam == "stats":
        oth = {n["err"] for n in inp["nics"] if n["err"] not in (0, 19)}
        if oth:
            return {"raises": True, "errnos": sorted(oth), "nics": {}}
        return {"raises": False, "errnos": [], "nics": {
            n["name"]: {"isup": "running" in n["flags"], "duplex": {1: "full", 0: "half", 255: "unknown"}[n["duplex"]],
                        "speed": n["speed"], "mtu": n["mtu"], "flags": n["flags"]} for n in inp["nics"] if not n["err"]}}
    if fam == "addrs":
        nics = {}
        for r in sorted(inp["rows"], key=lambda r: r["fam"]):
            a = list(r["addr"])
            if r["fam"] == 17:
                a += ["00"] * (6 - len(a))
            nics.setdefault(r["name"], []).append({"family": {2: "AF_INET", 10: "AF_INET6", 17: "AF_LINK"}[r["fam"]],
                                                   "address": a, "netmask": r["mask"], "broadcast": r["bcast"], "ptp": r["ptp"]})
        return {"nics": nics}
    return {"rows": [{"name": r["user"], "terminal": r["tty"] or "None", "host": r["host"], "started": r["tstamp"],
                      "pid": r["pid"]} for r in inp["recs"]]}


# ---------------------------------------------------------------------------

def _vacuity(evs):
    fams = {}
    for e in evs:
        fams.setdefault(e["inp"]["fam"], []).append(e)
    if set(fams) != set(FAMS):
        core.vacuity("X17 families enumerated: %s" % sorted(fams))
    need = {
        "a root alias resolved to the real device": any(
            any(r["device"] == e["inp"]["root"]["path"] for r in e["out"]["rows"]) for e in fams["rootfs"]),
        "a root alias left as it is": any(
            any(r["device"] in ("/dev/root", "rootfs") for r in e["out"]["rows"]) for e in fams["rootfs"]),
        "a 'none' device shown as ''": any(any(r["device"] == "" for r in e["out"]["rows"]) for e in fams["mounts"]),
        "an entry filtered out": any(not e["inp"]["all"] and len(e["out"]["rows"]) < len(e["inp"]["ents"]) for e in fams["mounts"]),
        "a zfs entry kept by the filter": any(not e["inp"]["all"] and any(r["fstype"] == "zfs" for r in e["out"]["rows"])
                                              for e in fams["mounts"]),
        "PROCFS_PATH elsewhere": any(e["inp"]["procfs"] != "/proc" for e in fams["mtab"]),
        "an ENODEV interface skipped": any(not e["out"]["raises"] and len(_as_map(e["out"]["nics"])) < len(e["inp"]["nics"])
                                           for e in fams["stats"]),
        "another errno propagated": any(e["out"]["raises"] for e in fams["stats"]),
        "isup differs from 'up'": any(any(not r["isup"] and "up" in r["flags"] for r in _as_map(e["out"]["nics"]).values())
                                      for e in fams["stats"]),
        "a padded MAC": any(any(len(r["addr"]) < 6 and r["fam"] == 17 for r in e["inp"]["rows"]) for e in fams["addrs"]),
        "rows not in family order": any([r["fam"] for r in e["inp"]["rows"]] != sorted(r["fam"] for r in e["inp"]["rows"])
                                        for e in fams["addrs"]),
        "a login without terminal": any(any(r["terminal"] == "None" for r in e["out"]["rows"]) for e in fams["users"]),
    }
    missing = [k for k, v in need.items() if not v]
    if missing:
        core.vacuity("the enumerated X17 space lacks: %s" % "; ".join(missing))
    return {k: len(v) for k, v in fams.items()}


# ---------------------------------------------------------------------------
# calibration of the trusted base against the live kernel / the real extension
# ---------------------------------------------------------------------------

def _calib(_):
    """Forked: facts about the live kernel and the REAL extension functions the
    simulation stands in for.  Returns {check: (ok, detail)}; a check that cannot
    be performed is reported as None."""
    import re
    import tempfile
    w, ps = template()
    from psutil import _pslinux
    rc, rp = _pslinux.cext._real, _pslinux.cext_posix._real
    res = {}
    # getmntent emulation == glibc's getmntent on a rendered table with every escape
    ents = [("none", "/mnt/a b", "tmpfs", "rw,relatime"), ("/dev/my disk", "/mnt/t\tb", "ext4", "ro"),
            ("/dev/root", "/", "ext4", "rw"), ("pool/data", "/mnt/b\\s", "zfs", "rw,xattr"), ("rootfs", "/mnt/n\nl", "rootfs", "rw")]
    data = sim_x17.render_mounts(ents)
    with tempfile.NamedTemporaryFile(dir="/dev/shm" if os.path.isdir("/dev/shm") else None) as f:
        f.write(data)
        f.flush()
        real = [tuple(x) for x in rc.disk_partitions(f.name)]
    res["getmntent(rendered table)"] = (real == ents and sim_x17.parse_mounts(data) == ents, "real %r / emulated %r / entries %r"
                                        % (real, sim_x17.parse_mounts(data), ents))
    try:
        live = open("/proc/self/mounts", "rb").read()
        real = [tuple(x) for x in rc.disk_partitions("/proc/self/mounts")]
        if open("/proc/self/mounts", "rb").read() == live:
            res["getmntent(live /proc/self/mounts)"] = (real == sim_x17.parse_mounts(live), "real %r / emulated %r"
                                                        % (real[:4], sim_x17.parse_mounts(live)[:4]))
    except OSError:
        res["getmntent(live /proc/self/mounts)"] = None
    try:
        fs = open("/proc/filesystems").read().splitlines()
        res["/proc/filesystems line format"] = (bool(fs) and all(re.fullmatch(r"(nodev)?\t\S+", l) for l in fs), repr(fs[:3]))
    except OSError:
        res["/proc/filesystems line format"] = None
    try:
        pl = open("/proc/partitions").read().split("\n")
        body = [l for l in pl[2:] if l]
        res["/proc/partitions format"] = (pl[0].split() == ["major", "minor", "#blocks", "name"] and pl[1] == ""
                                          and all(len(l.split()) == 4 for l in body), repr(pl[:3]))
        if body:
            ma, mi, _, name = body[0].split()
            try:
                ue = open("/sys/dev/block/%s:%s/uevent" % (ma, mi)).read()
                res["uevent DEVNAME"] = ("DEVNAME=%s\n" % name in ue, ue)
            except OSError:
                res["uevent DEVNAME"] = None
            try:
                res["/sys/class/block/<name>/dev"] = (open("/sys/class/block/%s/dev" % name.replace("/", "!")).read()
                                                      == "%s:%s\n" % (ma, mi), name)
            except OSError:
                res["/sys/class/block/<name>/dev"] = None
    except OSError:
        res["/proc/partitions format"] = None
    res["ethtool duplex codes"] = ((rc.DUPLEX_HALF, rc.DUPLEX_FULL, rc.DUPLEX_UNKNOWN) == (0, 1, 255),
                                   repr((rc.DUPLEX_HALF, rc.DUPLEX_FULL, rc.DUPLEX_UNKNOWN)))
    try:
        rp.net_if_mtu("x17nonexist")
        res["unknown interface -> ENODEV"] = (False, "no error")
    except OSError as e:
        res["unknown interface -> ENODEV"] = (e.errno == 19, repr(e))
    try:
        rows = rp.net_if_addrs()
        lo = [r for r in rows if r[0] == "lo" and r[1] == 17]
        shape = all(isinstance(r, tuple) and len(r) == 6 and isinstance(r[1], int) and isinstance(r[2], str) for r in rows)
        res["raw address rows"] = (shape and (not lo or (lo[0][2] == "00:00:00:00:00:00" and lo[0][3] is None)), repr(rows[:3]))
        fl = rp.net_if_flags("lo")
        res["raw flags"] = (isinstance(fl, list) and {"up", "loopback", "running"} <= set(fl), repr(fl))
        ds = rc.net_if_duplex_speed("lo")
        res["raw duplex/speed"] = (isinstance(ds, (tuple, list)) and len(ds) == 2 and ds[0] in (0, 1, 255), repr(ds))
    except OSError as e:
        res["raw address rows"] = None
    return res


def calibrate(ctx):
    st, res = forkpool.fork_call(_calib, None, timeout=120)
    if st != "ok":
        raise core.Machinery("X17 calibration worker failed: %s" % (res,))
    bad = {k: v[1] for k, v in res.items() if v is not None and not v[0]}
    if bad:
        raise core.Machinery("X17: the simulated tables disagree with the live kernel / real extension: %r" % bad)
    skipped = sorted(k for k, v in res.items() if v is None)
    ctx.cov.setdefault("x17", {})["calibration"] = {"checked": sorted(k for k, v in res.items() if v is not None),
                                                    "skipped": skipped}
    if skipped:
        ctx.notes.append("X17 calibration skipped (not available on this host): %s" % ", ".join(skipped))


# inputs beyond what the statement binds: recorded in evidence, never a verdict
OBSERVATIONS = [
    ("root device with a '/' in its name (cciss/c0d0p1) known to /sys/class/block only",
     {"fam": "rootfs", "ents": [{"dev": "/dev/root", "dir": "D_ROOT", "type": "ext4", "opts": "rw"}],
      "fst": [{"type": "ext4", "nodev": False}], "all": True,
      "root": {"dev": [104, 1], "path": "/dev/cciss!c0d0p1", "parts": "absent", "uevent": "absent", "cls": "match", "node": False},
      "mtab": "link", "procfs": "/proc"}),
    ("an address family outside AF_INET/AF_INET6/AF_PACKET",
     {"fam": "addrs", "rows": [{"name": "eth0", "fam": 99, "addr": ["x"], "mask": [], "bcast": [], "ptp": []}]}),
]


def _observe(_):
    w, ps = template()
    out = []
    for what, inp in OBSERVATIONS:
        try:
            out.append({"what": what, "answer": query(w, ps, inp)})
        except Exception as ex:  # noqa: BLE001
            out.append({"what": what, "answer": "raised %r" % (ex,)})
    return out


def replay(ctx, data):
    """--replay: re-run one recorded input through the code and let TLC judge it."""
    rp = data["replay"]
    inp = (rp.get("case") or rp)["inp"]
    st, line = forkpool.fork_call(rand_one, inp, timeout=120)
    if st != "ok":
        raise core.Machinery("replay worker failed: %s" % (line,))
    print("  code answers now: %r" % (line.get("got", line.get("error")),))
    if "error" in line:
        return True
    d = tlc.scratch()
    try:
        tf = os.path.join(d, "trace.ndjson")
        open(tf, "w").write(json.dumps(line) + "\n")
        cfg = os.path.join(d, "t.cfg")
        c = consts(False)
        c["Families"] = set()
        tlc.write_cfg(cfg, c, init="TInit", next_="TNext", invariants=["Match"])
        r = tlc.run("SysTablesTrace", cfg, workers=1, env={"TRACE_FILE": tf}, timeout=300)
    finally:
        shutil.rmtree(d, ignore_errors=True)
    if r.error or r.violated:
        raise core.Machinery("replay: TLC failed: %s" % (r.error or r.violated))
    return bool(tlc.tagged(r, "REJECTED"))


def rand_one(inp):
    w, ps = template()
    try:
        return {"inp": inp, "got": query(w, ps, inp)}
    except Exception as ex:  # noqa: BLE001
        return {"inp": inp, "error": repr(ex)}


def warm(ctx):
    for th in (False, True):
        rd = tlc.dump_cached("SysTables", consts(th), view=None)
        functional.events_of(rd)


def check_extra(ctx, thorough):
    forkpool.start(16, init=template)
    ctx.assumptions += ASSUMPTIONS
    calibrate(ctx)
    c = consts(thorough)
    evs = functional.observe(ctx, "SysTables", "x17-systables", c, invariants=INVS)
    evs = [e for e in evs if e.get("op") == "observe"]
    sizes = _vacuity(evs)
    ctx.cov.setdefault("x17", {})["enumerated_inputs"] = sizes
    if thorough:
        # the structural invariants over longer mount tables (model only)
        cb = consts(True, big=True)
        cb["Families"] = {"mounts"}
        cfg = os.path.join(tlc.scratch(), "x17-big.cfg")
        tlc.write_cfg(cfg, cb, invariants=INVS)
        r = tlc.run("SysTables", cfg, timeout=900)
        shutil.rmtree(os.path.dirname(cfg), ignore_errors=True)
        ctx.tlc("x17-systables-3-entries", r, {"MaxEnts": 3})
        if r.violated:
            ctx.disagree("model:%s" % r.violated, "TLC: structural property %s violated for 3-entry mount tables" % r.violated,
                         {"trace": tlc.trace_events(r.trace)})
    before = len(ctx.violations) + sum(ctx.known_hits.values())
    functional.run_cases(ctx, "x17-enumerated-tables", evs, run_chunk, sig_fn)
    ctx.cov["x17"]["enumerated_disagreements"] = len(ctx.violations) + sum(ctx.known_hits.values()) - before
    trace_validate(ctx, 20000 if thorough else 5000)
    st, obs = forkpool.fork_call(_observe, None, timeout=120)
    ctx.cov["x17"]["observations_outside_the_statement"] = obs if st == "ok" else "not run: %s" % (obs,)


def check(ctx):
    ctx.level = "other"
    ctx.cov["rule"] = ("cases = abstract mount / filesystem / root-device tables x all flag, interface tables with per-interface "
                       "errno, raw address rows, raw login rows (spec/SysTables.tla) rendered into simkernel and queried through "
                       "psutil.disk_partitions / net_if_stats / net_if_addrs / users; distinct = distinct abstract inputs")
    check_extra(ctx, ctx.tier == "thorough")


def main(prop, argv):
    core.main_wrapper(check, prop, argv)

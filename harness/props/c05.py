"""C05 -- children()/parent()/parents() on arbitrary process tables (spec/ProcTree.tla)."""
import json
import os
import random

from harness import core, forkpool, functional, tlc
from harness.tmpl import template

FIXES = {"C05self"}
INVS = ["C05_Children", "C05_Descendants", "C05_NeverOlder", "C05_StepBound", "C05_Parent"]
TICK = 50




class Hang(Exception):
    pass


BUDGET = 20


def bounded(fn):
    """fn() under its own alarm: a walk that does not end is a finding about this
    case, not the death of the worker."""
    import signal

    def onalarm(sig, frm):
        raise Hang()
    old = signal.signal(signal.SIGALRM, onalarm)
    left = signal.alarm(0)
    signal.setitimer(signal.ITIMER_REAL, BUDGET)
    try:
        return fn()
    finally:
        signal.setitimer(signal.ITIMER_REAL, 0)
        signal.signal(signal.SIGALRM, old)
        if left:
            signal.alarm(left)

def consts(n, starts=(0, 1, 2), all_listed=False, fixes=None):
    pids = set(range(1, n + 1))
    return {"Pids": pids, "PPids": pids | {0, 9}, "Starts": set(starts), "AllListed": all_listed,
            "Fixes": set(FIXES if fixes is None else fixes)}


def rows(tbl):
    if isinstance(tbl, dict):
        return {int(k): v for k, v in tbl.items()}
    return {i + 1: v for i, v in enumerate(tbl)}


# names a process can give itself (prctl / /proc/self/comm): parsing the parent
# PID out of the stat record must not depend on them
NAMES = [b"proc", b"a) S 1 (b", b"x) y", b"(sd-pam)", b") ", b"a b"]


def build(w, tbl, older=False):
    for p in list(w.procs):
        if p != w.caller_pid:
            del w.procs[p]
    for pid, r in sorted(rows(tbl).items()):
        if r["on"]:
            st = 1 if older else (r["start"] + 2) * TICK
            w.spawn(pid, ppid=r["ppid"], start=st, comm=NAMES[(pid + r["ppid"] + r["start"]) % len(NAMES)])
    # some of the listed processes have exited and wait to be reaped: they are listed, they have a
    # parent, they may have children (the lowest PID, init, is left alone)
    live = sorted(p for p, r in rows(tbl).items() if r["on"])
    for pid in live[1:]:
        r = rows(tbl)[pid]
        if (pid + 2 * r["ppid"] + r["start"]) % 3 == 0 and pid != getattr(w, "c05_keep_alive", None):
            w.exit(pid)


def descendants(tbl, s, without=()):
    t = {p: r for p, r in rows(tbl).items() if r["on"] and p not in without}
    acc, frontier = {s}, {s}
    while frontier:
        new = {p for p, r in t.items() if r["ppid"] in frontier and r["start"] >= t[s]["start"]} - acc
        acc |= new
        frontier = new
    return acc - {s}


def run_chunk(cases):
    w, ps = template()
    out = []
    for i, (e, mode) in enumerate(cases):
        s = e["s"]
        w.c05_keep_alive = s
        bad = []
        try:
            if mode == "swept":
                # an earlier generation of processes owned the same PIDs and
                # was seen by a process_iter() sweep
                build(w, e["tbl"], older=True)
                list(ps.process_iter())
            build(w, e["tbl"])
            ps.pids()
            p = ps.Process(s)
            if mode in ("plain", "swept"):
                got = sorted(c.pid for c in bounded(p.children))
                if got != sorted(e["children"]) or len(got) != len(set(got)):
                    bad.append("children() -> %r, specification: %r" % (got, sorted(e["children"])))
                got = [c.pid for c in bounded(lambda: p.children(recursive=True))]
                if sorted(got) != sorted(e["descendants"]) or len(got) != len(set(got)):
                    bad.append("children(recursive=True) -> %r, specification: %r" % (got, sorted(e["descendants"])))
                par = p.parent()
                gp = par.pid if par is not None else 0
                if gp != e["parent"]:
                    bad.append("parent() -> %r, specification: %r" % (gp, e["parent"]))
                elif par is not None and (par != ps.Process(gp) or not par.is_running()):
                    bad.append("parent() is not the process that owns pid %d now" % gp)
                if not e["cyclic"]:
                    pl = p.parents()
                    got = [x.pid for x in pl]
                    if got != list(e["parents"]):
                        bad.append("parents() -> %r, specification: %r" % (got, e["parents"]))
                    elif any(x != ps.Process(x.pid) for x in pl):
                        bad.append("parents() holds an object of a former owner of its PID")
                for c in p.children(recursive=True):
                    if c != ps.Process(c.pid):
                        bad.append("children() holds an object of a former owner of pid %d" % c.pid)
            elif mode == "recycled":
                # the caller's PID now belongs to a younger process; each walk is asked on an object
                # of its own, after each thing a program may have done with the object before
                calls = (("children", lambda q: q.children()), ("children(recursive)", lambda q: q.children(recursive=True)),
                         ("parent", lambda q: q.parent()), ("parents", lambda q: q.parents()))
                for prelude in ("none", "oneshot-children", "oneshot-is_running", "is_running", "waited", "as_dict",
                                "oneshot-left-by-exception"):
                    for name, fn in calls:
                        build(w, e["tbl"])
                        ps.pids()
                        q = ps.Process(s)
                        cm = None
                        if prelude in ("oneshot-children", "oneshot-is_running"):
                            cm = q.oneshot()
                            cm.__enter__()
                            q.children() if prelude == "oneshot-children" else q.is_running()
                        elif prelude == "is_running":
                            q.is_running()
                        elif prelude == "oneshot-left-by-exception":
                            try:
                                with q.oneshot():
                                    q.ppid(), q.parent(), q.children()
                                    raise KeyError("the block's own business")
                            except KeyError:
                                pass
                        elif prelude == "as_dict":
                            q.as_dict(attrs=["ppid", "create_time", "status"])
                        w.reap(s)
                        if prelude == "waited":
                            q.wait(0)           # not our child: returns None once the PID is free
                        w.spawn(s, ppid=rows(e["tbl"])[s]["ppid"], start=9 * TICK)
                        try:
                            bounded(lambda: fn(q))
                            bad.append("%s() returned for a recycled caller PID [before: %s]" % (name, prelude))
                        except ps.NoSuchProcess as ex:
                            if ex.pid != s:
                                bad.append("%s(): NoSuchProcess carries pid %r" % (name, ex.pid))
                        except Hang:
                            bad.append("%s() did not return within %d s for a recycled caller PID (NoSuchProcess expected)" % (name, BUDGET))
                        finally:
                            if cm is not None:
                                cm.__exit__(None, None, None)
            elif mode.startswith("vanish"):
                # a listed process disappears at access k of the recursive walk
                _, victim, k = mode.split(":")
                victim, k = int(victim), int(k)
                base = w.acc
                w.hooks.setdefault(base + k, []).append(lambda: w.vanish(victim))
                got = set(c.pid for c in p.children(recursive=True))
                w.hooks.clear()
                hi = descendants(e["tbl"], s)
                lo = descendants(e["tbl"], s, without=(victim,)) - {victim}
                if not (lo <= got <= hi):
                    bad.append("children(recursive=True) with pid %d vanishing at access %d -> %r, must lie between %r and %r"
                               % (victim, k, sorted(got), sorted(lo), sorted(hi)))
                # ... and of the walk towards the root: the chain ends where the walk finds nobody
                # (or runs through, if the walk had passed the victim already)
                for kk in (range(1, 25) if not e["cyclic"] and victim in e["parents"] else ()):
                    build(w, e["tbl"])
                    ps.pids()
                    p2 = ps.Process(s)
                    full = list(e["parents"])
                    cut = full[:full.index(victim)]
                    base = w.acc
                    w.hooks.setdefault(base + kk, []).append(lambda: w.vanish(victim))
                    try:
                        chain = [x.pid for x in bounded(p2.parents)]
                    except ps.NoSuchProcess as ex:
                        # an ancestor already on the chain is asked for its parent after it went:
                        # that is parent() of a vanished process, and names that process
                        chain = full if ex.pid == victim else "NoSuchProcess(pid=%r)" % (ex.pid,)
                    finally:
                        w.hooks.clear()
                    if chain not in (full, cut):
                        bad.append("parents() with ancestor %d vanishing at access %d -> %r, must be %r or %r"
                                   % (victim, kk, chain, full, cut))
                        break
                # parent() itself answers for a live caller whatever happens to the parent meanwhile
                if e["parent"] == victim:
                    for kk in range(1, 13):
                        build(w, e["tbl"])
                        ps.pids()
                        p3 = ps.Process(s)
                        base = w.acc
                        w.hooks.setdefault(base + kk, []).append(lambda: w.vanish(victim))
                        try:
                            par = bounded(p3.parent)
                            if par is not None and par.pid != victim:
                                bad.append("parent() with the parent %d vanishing at access %d -> pid %r" % (victim, kk, par.pid))
                        except ps.NoSuchProcess as ex:
                            bad.append("parent() of a live caller raised NoSuchProcess(pid=%r) with the parent %d vanishing at access %d"
                                       % (ex.pid, victim, kk))
                        finally:
                            w.hooks.clear()
        except Hang:
            bad.append("a tree walk did not return within %d s" % BUDGET)
        except Exception as ex:  # noqa: BLE001
            bad.append("raised %r" % (ex,))
        if bad:
            out.append((i, "; ".join(bad) + "  [table %r caller %d mode %s]" % (e["tbl"], s, mode)))
    return out


def sig_fn(case, text):
    return text.split("(")[0] + ":" + case[1].split(":")[0]


def warm(ctx):
    rd = tlc.dump_cached("ProcTree", consts(3), view=None)
    functional.events_of(rd)


def check(ctx):
    forkpool.start(16, init=template)
    thorough = ctx.tier == "thorough"
    ctx.cov["rule"] = ("cases = (process table, caller) pairs: every ppid assignment over listed/unlisted PIDs and every "
                       "ordering of start ticks, rendered as /proc/<pid>/stat files; plus recycled-caller and "
                       "vanish-during-walk variants; distinct = distinct (table, caller, variant)")
    ctx.assumptions += [
        "children(recursive=True) walks only through processes that are not older than the caller (the code's documented pruning)",
        "the lowest listed PID has no parent (parent() stops there); psutil.pids() is called before each case so that the module's lowest-PID memo is current",
        "parents() is compared only on chains that reach a root (termination on cyclic equal-start chains is not claimed by the statement)",
        "with a process vanishing during the walk the result must lie between the answers without and with it",
        "the recycled-caller clause is exercised for every caller except the lowest listed PID (init cannot be recycled)",
    ]
    c = consts(3)
    cfg = os.path.join(tlc.scratch(), "tree.cfg")
    tlc.write_cfg(cfg, c, spec="Spec", invariants=INVS, properties=["C05_Terminates"])
    r = tlc.run("ProcTree", cfg, timeout=3000)
    ctx.tlc("tables-3pids", r, {"Pids": 3, "PPids": "Pids+{0,unlisted}", "Starts": 3, "listed": "any subset"})
    if r.violated:
        evs = tlc.trace_events(r.trace)
        ctx.disagree("model:" + str(r.violated), "TLC: %s violated by the walk of the working tree's algorithm\n%s"
                     % (r.violated, "\n".join("%s %s" % x for x in evs[-2:])), {"trace": evs})
    if thorough:
        c4 = consts(4, all_listed=True)
        cfg = os.path.join(tlc.scratch(), "tree4.cfg")
        tlc.write_cfg(cfg, c4, spec="Spec", invariants=INVS, properties=["C05_Terminates"])
        r4 = tlc.run("ProcTree", cfg, timeout=3000)
        ctx.tlc("tables-4pids", r4, {"Pids": 4, "listed": "all"})
        if r4.violated:
            evs = tlc.trace_events(r4.trace)
            ctx.disagree("model:" + str(r4.violated), "TLC (4 PIDs): %s violated" % r4.violated, {"trace": evs})
    # regression: the model exposes the 7.0.0 defect
    cr = consts(2, fixes=set())
    cfg = os.path.join(tlc.scratch(), "reg.cfg")
    tlc.write_cfg(cfg, cr, spec="Spec", invariants=["C05_Descendants"])
    rr = tlc.run("ProcTree", cfg, timeout=600)
    ctx.tlc("regression-without-C05self", rr)
    if rr.violated != "C05_Descendants":
        raise core.Machinery("specification no longer exposes the caller-among-its-children defect of 7.0.0")
    rd = tlc.dump_cached("ProcTree", c, view=None)
    ctx.tlc("tables-3pids-dump", rd)
    evs = [e for e in functional.events_of(rd) if e.get("op") == "observe"]
    rnd = random.Random(ctx.seed)
    cases = []
    for e in evs:
        cases.append((e, "plain"))
        roll = rnd.random()
        if thorough or 0.4 < roll < 0.5:
            cases.append((e, "swept"))
        lowest = min(p for p, r0 in rows(e["tbl"]).items() if r0["on"])
        if (thorough or roll < 0.1) and e["s"] != lowest:
            # (the lowest listed PID is init: a kernel never recycles it)
            cases.append((e, "recycled"))
        others = [p for p, r0 in rows(e["tbl"]).items() if r0["on"] and p != e["s"]]
        if others and (thorough or roll > 0.8):
            cases.append((e, "vanish:%d:%d" % (rnd.choice(others), rnd.randint(1, 8))))
    if thorough:
        rd4 = tlc.dump_cached("ProcTree", consts(4, all_listed=True), view=None)
        ev4 = [e for e in functional.events_of(rd4) if e.get("op") == "observe"]
        cases += [(e, "plain") for e in ev4]
    shapes = {(bool(e["children"]), bool(set(e["descendants"]) - set(e["children"])), e["parent"] != 0, e["cyclic"])
              for e, m in cases if m == "plain"}
    if len(shapes) < 8:
        core.vacuity("only %d table shapes enumerated" % len(shapes))
    functional.run_cases(ctx, "tables", cases, run_chunk, sig_fn, chunk=100)
    check_big(ctx)


# ---------------------------------------------------------------------------
# "any number of processes": a deep chain and a wide litter
# ---------------------------------------------------------------------------

def _big(job):
    shape, n = job
    w, ps = template()
    for p in list(w.procs):
        if p != w.caller_pid:
            del w.procs[p]
    w.spawn(1, ppid=0, start=1)
    w.spawn(10, ppid=1, start=5 * TICK)
    if shape == "chain":          # 10 <- 1000 <- 1001 <- ...
        for k in range(n):
            w.spawn(1000 + k, ppid=(10 if k == 0 else 999 + k), start=(6 + k // 50) * TICK)
        want_children, want_desc = [1000], list(range(1000, 1000 + n))
    else:                          # n children of 10, each with one child
        for k in range(n):
            w.spawn(1000 + k, ppid=10, start=6 * TICK)
            w.spawn(100000 + k, ppid=1000 + k, start=7 * TICK)
        want_children = list(range(1000, 1000 + n))
        want_desc = want_children + list(range(100000, 100000 + n))
    p = ps.Process(10)
    bad = []
    try:
        got = sorted(c.pid for c in bounded(p.children))
        if got != want_children:
            bad.append("children() -> %d processes (%r...), specification: %d" % (len(got), got[:3], len(want_children)))
        got = sorted(c.pid for c in bounded(lambda: p.children(recursive=True)))
        if got != sorted(want_desc):
            bad.append("children(recursive=True) -> %d processes, specification: %d" % (len(got), len(want_desc)))
        deep = ps.Process(1000 + n - 1)
        chain = [x.pid for x in bounded(deep.parents)]
        exp = (list(range(998 + n, 999, -1)) + [10, 1]) if shape == "chain" else [10, 1]
        if chain != exp:
            bad.append("parents() of the deepest process -> %d ancestors, specification: %d" % (len(chain), len(exp)))
    except Hang:
        bad.append("a tree walk did not return within %d s" % BUDGET)
    except BaseException as ex:  # noqa: BLE001
        bad.append("raised %s: %s" % (type(ex).__name__, str(ex)[:120]))
    return bad


def check_big(ctx):
    jobs = [("chain", 1500), ("chain", 3000), ("litter", 2000)]
    res = forkpool.map_fork(_big, jobs, timeout=600)
    for job, (st, val) in zip(jobs, res):
        if st != "ok":
            raise core.Machinery("big-table worker failed: %s" % (val,))
        ctx.case(("big",) + job)
        if val:
            ctx.disagree("conf:big:%s" % job[0], "%s of %d processes: %s" % (job[0], job[1], "; ".join(val)), {"big": list(job)})
    ctx.cov.setdefault("replay", {})["big-tables"] = {"tables": len(jobs), "largest": 4001}


def main(prop, argv):
    core.main_wrapper(check, prop, argv)

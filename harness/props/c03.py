"""C03 -- a process vanishing / turning zombie / being denied mid-call
(spec/MidCall.tla model-checked; spec/MidCallTrace.tla judges every
fault-injected run of the real methods)."""
import errno
import json
import os
import random
import shutil

from harness import core, forkpool, functional, tlc
from harness.simkernel import Fd, Mapping, Thread
from harness.tmpl import template

PID, PARENT = 70, 60
ERR = {errno.EACCES: "EACCES", errno.EPERM: "EPERM"}


def build_world(w):
    for q in list(w.procs):
        if q != w.caller_pid:
            del w.procs[q]
    w.hooks.clear()
    w.faults.clear()
    w.observer = None
    w.devs = {"/dev/tty1": 1025, "/dev/pts/0": 34816, "/dev/null": 259}
    w.files["/tmp/data.txt"] = b"x"
    w.files["/bin/target"] = b"ELF"
    w.exec_files = {"/bin/target"}
    hdr = b"  sl  local_address rem_address   st tx_queue rx_queue tr tm->when retrnsmt   uid  timeout inode\n"
    w.files["/proc/net/tcp"] = hdr + b"   0: 0100007F:1F90 00000000:0000 0A 00000000:00000000 00:00000000 00000000     0        0 123 1 0000000000000000 100 0 0 10 0\n"
    for f in ("tcp6", "udp", "udp6"):
        w.files["/proc/net/" + f] = hdr
    w.files["/proc/net/unix"] = b"Num       RefCount Protocol Flags    Type St Inode Path\n"
    w.files["/proc/meminfo"] = (b"MemTotal:  100000 kB\nMemFree:  50000 kB\nMemAvailable:  60000 kB\nBuffers: 1 kB\n"
                                b"Cached: 2 kB\nShmem: 3 kB\nActive: 4 kB\nInactive: 5 kB\nSlab: 6 kB\nSReclaimable: 1 kB\n")
    w.spawn(1, comm=b"init", ppid=0, start=1)
    w.spawn(PARENT, comm=b"parent", ppid=1, start=5)
    p = w.spawn(PID, comm=b"t) S (x", ppid=PARENT, start=10)     # (a name that imitates the tail of a stat record)
    p.threads = {PID: Thread(b"target", 3, 4), PID + 1: Thread(b"w1", 1, 1), PID + 2: Thread(b"w2", 2, 2)}
    p.fds = {0: Fd("/dev/null", kind="dev"), 3: Fd("/tmp/data.txt", pos=5, flags=0o100002),
             4: Fd("socket:[123]", kind="socket"), 5: Fd("pipe:[9]", kind="pipe"),
             6: Fd("/tmp/unlinked.log (deleted)", pos=0, flags=0o100000)}
    p.maps = [Mapping("00400000-00401000", "r-xp", "/bin/target", Rss=4, Pss=4, Size=4, Private_Clean=4),
              Mapping("7f0000000000-7f0000001000", "rw-p", "", Rss=8, Pss=8, Size=8, Private_Dirty=8, Anonymous=8),
              # an unlinked file still mapped: psutil stats the name to tell a stale suffix from a real one
              Mapping("7f0000002000-7f0000003000", "r--s", "/tmp/journal (deleted)", Rss=4, Pss=4, Size=4, Shared_Clean=4)]
    p.cmdline = b"/bin/target\0--flag\0"
    p.environ = b"HOME=/root\0A=1\0"
    p.exe, p.cwd = "/bin/target", "/"
    p.tty_nr = 34816
    w.spawn(80, comm=b"kid1", ppid=PID, start=20)
    w.spawn(81, comm=b"kid2", ppid=PID, start=21)
    w.spawn(90, comm=b"grandkid", ppid=80, start=30)
    return p


def methods(ps):
    names = sorted(ps._as_dict_attrnames - {"pid"})
    ms = [(n, None) for n in names]
    ms += [("as_dict", None), ("as_dict", ["name", "exe", "cmdline", "num_fds", "threads"]),
           ("children", False), ("children", True), ("parent", None), ("parents", None),
           ("is_running", None), ("process_iter", ["name", "exe", "cwd", "num_fds", "status"]),
           ("rlimit", "get"), ("cpu_affinity", []), ("wait", 0)]
    return ms


def invoke(ps, p, m, arg):
    if m == "process_iter":
        return [x.info for x in ps.process_iter(attrs=arg)]
    if m == "as_dict":
        return p.as_dict(attrs=arg)
    if m == "children":
        return p.children(recursive=arg)
    if m == "memory_percent":
        return p.memory_percent()
    if m == "rlimit":
        return p.rlimit(ps.RLIMIT_NOFILE)
    if m == "cpu_affinity" and arg is not None:
        return p.cpu_affinity(arg)
    if m == "wait":
        try:
            return p.wait(arg)
        except ps.TimeoutExpired:
            return "timeout"
    return getattr(p, m)()


STR_METHODS = {"exe", "name", "cwd", "username", "status"}
INT_METHODS = {"ppid", "nice", "num_threads", "num_fds", "cpu_num"}


def well_formed(v, m=None, depth=0):
    """A returned value is data: no exception object, no callable or generator inside it, and
    of the documented type for the methods whose type is a plain one."""
    import types
    if isinstance(v, (BaseException, types.GeneratorType, types.FunctionType, types.MethodType, type)):
        return False
    if m in STR_METHODS and not isinstance(v, str):
        return False
    if m in INT_METHODS and (not isinstance(v, int) or isinstance(v, bool)):
        return False
    if m == "cmdline" and not (isinstance(v, list) and all(isinstance(x, str) for x in v)):
        return False
    if depth > 4:
        return True
    if isinstance(v, dict):
        return all(well_formed(k, None, depth + 1) and well_formed(x, k if m == "as_dict" and isinstance(k, str) else None, depth + 1)
                   for k, x in v.items() if not (m == "as_dict" and x is None))
    if isinstance(v, (list, tuple, set, frozenset)):
        return all(well_formed(x, None, depth + 1) for x in v)
    return True


def classify(ps, fn, pid, m=None):
    """-> (outcome class, well-formed, pid carried by the exception or None)"""
    try:
        v = fn()
        if m == "process_iter":
            return "value", True, None
        return "value", well_formed(v, m), None
    except ps.ZombieProcess as ex:
        return "ZP", True, ex.pid
    except ps.NoSuchProcess as ex:
        return "NSP", True, ex.pid
    except ps.AccessDenied as ex:
        return "AD", True, ex.pid
    except BaseException as ex:  # noqa: BLE001
        return "bare:" + type(ex).__name__, False, None


def phase(w):
    p = w.procs.get(PID)
    return "gone" if p is None else ("zombie" if p.state == "Z" else "alive")


def one_run(w, ps, m, arg, plan, cold=False):
    """plan: list of (k, kind) with kind in vanish|zombie|EACCES|EPERM."""
    build_world(w)
    ps.process_iter.cache_clear()
    if not cold:
        ps.virtual_memory()  # (memory_percent() memoises the machine's total memory: make every run start alike)
    p = ps.Process(PID)
    acc = []
    base = w.acc
    injected = {k: kind for k, kind in plan}
    w.observer = lambda k, op, path: acc.append(
        {"op": op, "res": injected.get(k - base, "ok") if injected.get(k - base) in ("EACCES", "EPERM") else "ok",
         "phase": phase(w), "path": path})
    before = False
    for k, kind in plan:
        if kind in ("gone-before", "asked-then-gone"):
            if kind == "asked-then-gone":
                # the same question was answered once while the process lived (an executable whose
                # name the kernel truncates, completed from the command line)
                t = w.procs[PID]
                t.comm, t.cmdline = b"long-target-nam", b"/bin/long-target-name-of-23\0--flag\0"
                classify(ps, lambda: invoke(ps, p, m, arg), PID)
                del acc[:]
            w.vanish(PID)          # the process exits and is reaped between two calls of the caller
            before = True
        elif kind == "vanish":
            w.hooks.setdefault(base + k, []).append(lambda: w.vanish(PID))
        elif kind.startswith("vanish:"):
            # a relative (parent / child) of the queried process disappears
            w.hooks.setdefault(base + k, []).append(lambda v=int(kind[7:]): w.vanish(v))
        elif kind == "zombie":
            w.hooks.setdefault(base + k, []).append(lambda: (PID in w.procs) and w.exit(PID))
        else:
            w.faults[base + k] = getattr(errno, kind)
    out, wf, epid = classify(ps, lambda: invoke(ps, p, m, arg), PID, m)
    w.hooks.clear()
    w.faults.clear()
    w.observer = None
    follow = []
    if phase(w) == "gone":
        for fm in ("name", "cmdline", "num_fds", "status", "ppid"):
            follow.append(classify(ps, lambda: getattr(p, fm)(), PID)[0])
    n = len(acc)
    # the exception carries the object's pid; the tree-walking methods also
    # query other processes and may name the one that failed
    touched = {PID}
    if m in ("children", "parent", "parents", "process_iter"):
        for a in acc:
            parts = a["path"].split("/")
            if len(parts) > 2 and parts[1] == "proc" and parts[2].isdigit():
                touched.add(int(parts[2]))
    pidok = epid is None or epid in touched
    # ... and NoSuchProcess for another process it walked over is about that process
    # (parent() itself answers None when the parent is gone: no such allowance there)
    other_gone = (out == "NSP" and epid is not None and epid != PID and epid not in w.procs
                  and m != "parent")
    # is_running() answers False, wait() answers None for a process that is gone, process_iter() is no query
    # about this process; everything else is
    asks = m not in ("is_running", "wait", "process_iter")
    return {"before": before, "asks": asks, "m": m, "arg": arg, "plan": plan, "acc": [{"op": a["op"], "res": a["res"], "phase": a["phase"]} for a in acc],
            "paths": [a["path"] for a in acc][:400],
            "out": out, "wellformed": wf, "pidok": pidok, "epid": epid,
            "phaseEnd": "gone" if other_gone else phase(w), "follow": follow, "n": n}


def dry_chunk(items):
    w, ps = template()
    return [one_run(w, ps, m, arg, [])["n"] for (m, arg) in items]


def fault_chunk(jobs):
    w, ps = template()
    return [one_run(w, ps, j[0], j[1], [tuple(x) for x in j[2]], cold=(len(j) > 3)) for j in jobs]


def signature(rec, clauses):
    names = ["NoBareError", "WellFormed", "NSPOnlyIfGone", "ZPOnlyIfZombie", "ADOnlyIfDenied", "CarriesPid", "GoneForGood",
             "GoneBefore"]
    failed = [n for n, ok in zip(names, clauses) if not ok]
    kinds = [k for _, k in rec["plan"]]
    where, path = "", ""
    if rec["plan"]:
        k = rec["plan"][0][0]
        if k < len(rec["paths"]):
            path = rec["paths"][k]
            where = "own" if ("/%d/" % PID in path or path.endswith("/%d" % PID)) else \
                ("proc-listing" if path == "/proc" else ("other-process" if path.startswith("/proc/") and path.split("/")[2].isdigit() else "system-file"))
    denied_first = kinds and kinds[0] in ("EACCES", "EPERM")
    # --- shapes of the signed findings (see known_findings.json) ---
    if (failed == ["NSPOnlyIfGone"] and denied_first and path.endswith("/stat") and where in ("own", "other-process")
            and rec["m"] in ("ppid", "parent", "parents", "children", "as_dict", "cpu_affinity")):
        return "C03-identity-probe-denied"
    if rec["out"] == "bare:PermissionError" and failed == ["NoBareError"] and denied_first:
        if rec["m"] == "children" and (path.endswith("/stat") or where == "proc-listing"):
            return "C03-ppid_map-denied"
        if where == "proc-listing":
            return "C03-proc-listing-denied"
        if where == "system-file" and path.endswith("/meminfo") and rec["m"] in ("memory_percent", "as_dict"):
            return "C03-meminfo-denied"
    if kinds == ["asked-then-gone"] and failed == ["GoneBefore"] and rec["out"] == "value" and rec["m"] in ("create_time", "exe"):
        return "C03-cached-answer-after-gone:" + rec["m"]
    return "%s:%s:%s:%s:%s" % (rec["m"], "+".join(kinds), where, rec["out"], ",".join(failed))


def calibrate(ctx):
    """The zombie / vanished access matrix simkernel implements, compared with
    what this kernel does for a real zombie child.  A mismatch is a machinery
    failure (the trusted base is wrong), never a violation."""
    import time
    from harness.simkernel import World
    pid = os.fork()
    if pid == 0:
        os._exit(0)
    deadline = time.time() + 5
    while time.time() < deadline:
        try:
            if open("/proc/%d/stat" % pid).read().rsplit(")", 1)[1].split()[0] == "Z":
                break
        except OSError:
            break
        time.sleep(0.01)

    def probe(fn):
        try:
            v = fn()
            return "ok" if v else "ok-empty"
        except OSError as e:
            return errno.errorcode[e.errno]

    def live(name):
        base = "/proc/%d/%s" % (pid, name)
        if name in ("exe", "cwd"):
            return probe(lambda: os.readlink(base))
        if name in ("fd", "task", "fdinfo"):
            return probe(lambda: os.listdir(base))
        return probe(lambda: open(base, "rb").read())
    w = World()
    p = w.spawn(pid, comm=b"z", ppid=1, start=1)
    w.exit(pid)

    def sim(name):
        base = "/proc/%d/%s" % (pid, name)
        if name in ("exe", "cwd"):
            return probe(lambda: w.sys_readlink(base))
        if name in ("fd", "task", "fdinfo"):
            return probe(lambda: w.sys_listdir(base))
        return probe(lambda: w.sys_open(base).readall())
    names = ["stat", "status", "io", "cmdline", "environ", "statm", "smaps", "smaps_rollup", "exe", "cwd", "fd", "task", "fdinfo"]
    try:
        diff = {n: (live(n), sim(n)) for n in names if live(n) != sim(n)}
    finally:
        os.waitpid(pid, 0)
    gone_live = probe(lambda: open("/proc/%d/stat" % pid, "rb").read())
    w.reap(pid)
    gone_sim = probe(lambda: w.sys_open("/proc/%d/stat" % pid).readall())
    if gone_live != gone_sim:
        diff["stat-after-reap"] = (gone_live, gone_sim)
    if diff:
        raise core.Machinery("simkernel's zombie access matrix differs from this kernel's (live, sim): %r" % diff)
    ctx.cov["calibration"] = {"zombie_matrix_entries_compared": len(names) + 1, "mismatches": 0}


def check(ctx):
    calibrate(ctx)
    forkpool.start(16, init=template)
    thorough = ctx.tier == "thorough"
    ctx.cov["rule"] = ("cases = (method, fault plan) pairs: every access index of every Linux Process query x "
                       "{vanish, zombie, EACCES, EPERM} and (deny i, vanish j>i) pairs, executed on the real code; "
                       "distinct = distinct (method, plan)")
    ctx.assumptions += [
        "a vanished process answers ENOENT on open/readlink/listdir/stat and ESRCH on the read of a file opened earlier; the zombie access matrix is the one observed on this kernel (cmdline/smaps empty, environ/smaps_rollup ESRCH on read, exe/cwd ENOENT, fd/ empty, stat/status/io readable)",
        "ZombieProcess is accepted when the process was a zombie at some access of the call (it may have been reaped before the call returned)",
        "a denial is injected on exactly one access (EACCES or EPERM), on whichever file the call touches at that index",
    ]
    # (1) the design: translation trees over every placement of the phase changes
    cfg = os.path.join(tlc.scratch(), "mc.cfg")
    tlc.write_cfg(cfg, {"Shapes": "<-ShapesDef", "Denials": {"EACCES"}}, spec="Spec",
                  invariants=["C03_NoBareError", "C03_NSPOnlyIfGone", "C03_ZPOnlyIfZombie", "C03_ADOnlyIfDenied"],
                  properties=["C03_Terminates"])
    r = tlc.run("MC_MidCall", cfg, timeout=900)
    ctx.tlc("midcall-model", r)
    if r.violated:
        evs = tlc.trace_events(r.trace)
        ctx.disagree("model:" + str(r.violated), "TLC: %s violated by the translation trees" % r.violated, {"trace": r.trace[-3:]})
    # (2) fault enumeration on the real code
    w, ps = template()
    ms = methods(ps)
    res = forkpool.map_fork(dry_chunk, [ms[i:i + 4] for i in range(0, len(ms), 4)])
    counts = []
    for st, val in res:
        if st != "ok":
            raise core.Machinery("dry run failed: %s" % (val,))
        counts.extend(val)
    jobs = []
    rnd = random.Random(ctx.seed)
    for (m, arg), n in zip(ms, counts):
        ks = list(range(n))
        if not thorough and n > 40:
            ks = sorted(set(ks[:20] + ks[-5:] + rnd.sample(ks, 15)))
        for k in ks:
            for kind in ("vanish", "zombie", "EACCES", "EPERM"):
                jobs.append((m, arg, [(k, kind)]))
        jobs.append((m, arg, [(0, "gone-before")]))
        jobs.append((m, arg, [(0, "asked-then-gone")]))
        if m in ("parent", "parents", "children", "process_iter"):
            for k in ks:
                for victim in (PARENT, 80):
                    jobs.append((m, arg, [(k, "vanish:%d" % victim)]))
        pairs = [(i, j) for i in ks for j in ks if j > i]
        if not thorough and len(pairs) > 12:
            pairs = rnd.sample(pairs, 12)
        for i, j in pairs:
            jobs.append((m, arg, [(i, "EACCES"), (j, "vanish")]))
    chunks = [jobs[i:i + 25] for i in range(0, len(jobs), 25)]
    # memory_percent() with the total-memory memo still cold (first use in the interpreter):
    # one run per forked child
    for k in range(4):
        for kind in ("EACCES", "EPERM"):
            chunks.append([("memory_percent", None, [(k, kind)], "cold")])
            jobs.append(("memory_percent", None, [(k, kind)]))
    res = forkpool.map_fork(fault_chunk, chunks)
    recs = []
    for st, val in res:
        if st != "ok":
            raise core.Machinery("fault run failed: %s" % (val,))
        recs.extend(val)
    # second phase: a refused access can send the call down a path the undisturbed call never takes
    # (a fallback, a guess from other files); the process vanishes at each access of THAT path
    n0 = {json.dumps([m, a], default=str): n for (m, a), n in zip(ms, counts)}
    more = []
    for r0 in recs:
        if len(r0["plan"]) == 1 and r0["plan"][0][1] in ("EACCES", "EPERM"):
            i, kind = r0["plan"][0]
            base = n0.get(json.dumps([r0["m"], r0["arg"]], default=str), 0)
            for j in range(max(i + 1, base), min(r0["n"], base + 12)):
                for what in ("vanish", "zombie"):
                    more.append((r0["m"], r0["arg"], [(i, kind), (j, what)]))
    if more:
        res2 = forkpool.map_fork(fault_chunk, [more[i:i + 25] for i in range(0, len(more), 25)])
        for st, val in res2:
            if st != "ok":
                raise core.Machinery("fault run (second phase) failed: %s" % (val,))
            recs.extend(val)
        jobs.extend(more)
    ctx.cov.setdefault("replay", {})["fault-runs-on-fallback-paths"] = len(more)
    outs = {r0["out"] for r0 in recs}
    d = tlc.scratch()
    tf = os.path.join(d, "traces.ndjson")
    with open(tf, "w") as f:
        for r0 in recs:
            f.write(json.dumps({k: r0[k] for k in ("acc", "out", "wellformed", "pidok", "phaseEnd", "follow", "before", "asks")}) + "\n")
    cfg = os.path.join(d, "t.cfg")
    tlc.write_cfg(cfg, {}, invariants=["Accepted"])
    rt = tlc.run("MidCallTrace", cfg, workers=1, env={"TRACE_FILE": tf}, timeout=1500)
    ctx.tlc("fault-run-validation", rt)
    shutil.rmtree(d, ignore_errors=True)
    ctx.cov["traces_validated_against_impl"] += len(recs)
    ctx.cov.setdefault("replay", {})["fault-runs"] = {
        "methods": len(ms), "accesses_per_method": dict((("%s(%s)" % (m, a))[:40], n) for (m, a), n in zip(ms, counts)),
        "runs": len(recs), "outcomes": {o: sum(1 for r0 in recs if r0["out"] == o) for o in sorted(outs)}}
    for r0 in recs:
        ctx.case((r0["m"], str(r0["arg"]), str(r0["plan"])))
    if rt.violated:
        raise core.Machinery("trace validation stopped: %s" % rt.violated)
    if rt.distinct < len(recs):
        raise core.Machinery("TLC judged %d of %d records" % (rt.distinct, len(recs)))
    rej = [p for p in rt.printed if p[0] == "REJECTED"]
    if rej:
        for tag, body in rej:
            vals = tlc.parse_value("<<" + body + ">>")
            r0 = recs[vals[0] - 1]
            ctx.disagree(signature(r0, vals[1]),
                         "TLC rejects a fault-injected run: %s(%r) with plan %r -> %s (phase at end %s, follow-ups %s); accesses %s"
                         % (r0["m"], r0["arg"], r0["plan"], r0["out"], r0["phaseEnd"], r0["follow"],
                            list(zip([a["op"] for a in r0["acc"]], r0["paths"]))[:12]),
                         {k: r0[k] for k in ("m", "arg", "plan", "out", "phaseEnd", "follow", "paths")})
    ctx.sample({"kind": "fault-injected run", "record": {k: recs[len(recs) // 3][k] for k in ("m", "plan", "out", "phaseEnd", "paths")}})
    if not {"value", "NSP", "ZP", "AD"} <= outs:         # (after the verdicts: see core.vacuity)
        core.vacuity("outcome classes seen: %s" % sorted(outs))


def main(prop, argv):
    core.main_wrapper(check, prop, argv)

"""C19 -- kernel state and renderers simkernel lacks: the hardware tree
(/sys/class/hwmon, /sys/class/thermal, /sys/class/power_supply,
/sys/devices/system/cpu) and the CPU tables (/proc/cpuinfo, /proc/stat),
rendered from the abstract inputs of spec/Sensors.tla.

The tree is made of plain files of the World's VFS (w.files / w.links /
w.dirs); the only addition to the simulated kernel is a file that is LISTED
but cannot be read (EACCES at open, or EIO/ENODATA at read, as hwmon drivers
do for a faulted sensor)."""
import errno
import io

from harness.simkernel import World, import_psutil, oserr

HWMON = "/sys/class/hwmon"
THERMAL = "/sys/class/thermal"
POWER = "/sys/class/power_supply"
CPU = "/sys/devices/system/cpu"
CORETEMP = "/sys/devices/platform/coretemp.0/hwmon"
JUNK = [b"N/A\n", b"\n", b"unknown\n", b"12x\n"]


class _FailRaw(io.RawIOBase):
    """open() succeeded, read() fails."""

    def __init__(self, e, path):
        self._e, self.name = e, path

    def readable(self):
        return True

    def readinto(self, b):
        raise oserr(self._e, self.name)


class SensorWorld(World):
    def __init__(self):
        World.__init__(self)
        self.unreadable = {}     # final path -> ("open" | "read", errno)

    def sys_open(self, path, binary=True):
        raw = World.sys_open(self, path, binary)
        if self.unreadable:
            u = self.unreadable.get(self.resolve(path)[2])
            if u is not None:
                if u[0] == "open":
                    raise oserr(u[1], path)
                return _FailRaw(u[1], path)
        return raw


_T = {}


def template(variant="sysfs"):
    """psutil imported once under the shim.  *variant* fixes the import-time
    choice of the cpu_freq implementation: 'sysfs' (cpufreq directories exist
    when psutil is imported) or 'cpuinfo' (they do not)."""
    if "ps" not in _T:
        w = SensorWorld()
        w.ncpus = 2
        w.netdev = {}
        w.disks = []
        if variant == "sysfs":
            w.files[CPU + "/cpu0/cpufreq/scaling_cur_freq"] = b"1000000\n"
        w.files["/proc/cpuinfo"] = b"processor\t: 0\n\n"
        ps = import_psutil(w)
        _T.update(w=w, ps=ps, variant=variant)
    assert _T["variant"] == variant, "template already imported as %s" % _T["variant"]
    return _T["w"], _T["ps"]


def template_sysfs():
    return template("sysfs")


def template_cpuinfo():
    return template("cpuinfo")


def reset(w):
    w.files = {"/proc/cpuinfo": b""}
    w.links = {}
    w.dyn = {}
    w.deny = {}
    w.unreadable = {}
    w.dirs = {"/", "/proc", "/sys", "/dev", "/sys/class", "/sys/devices", CPU}
    w.stat_omit = set()
    w.sysconf_nproc_fails = False
    w.ncpus = 2


# ---------------------------------------------------------------------------
# files
# ---------------------------------------------------------------------------

def put(w, path, f, rnd, scale=1):
    """One file [st, v] of the abstract tree."""
    st = f["st"]
    if st == "absent":
        return
    if st == "num":
        w.files[path] = b"%d\n" % (f["v"] * scale)
    elif st == "junk":
        w.files[path] = rnd.choice(JUNK)
    else:
        w.files[path] = b"0\n"
        w.unreadable[path] = rnd.choice([("open", errno.EACCES), ("read", errno.EIO),
                                         ("read", errno.ENODATA), ("read", errno.ENXIO)])


def put_text(w, path, text, rnd):
    if text == "absent":
        return
    if text == "unreadable":
        w.files[path] = b"x\n"
        w.unreadable[path] = rnd.choice([("open", errno.EACCES), ("read", errno.EIO)])
    else:
        w.files[path] = text.encode() + b"\n"


def numbering(n, rnd, big):
    """Sensor numbers of the n sensors of a chip (temp<N>_input): 1..n, or an
    increasing selection that reaches two digits (temp10 sorts before temp2)."""
    if not big or n == 0:
        return list(range(1, n + 1))
    return sorted(rnd.sample(range(1, 14), n))


def build_hwmon(w, inp, rnd, big=False):
    if inp["hwdir"] or inp["chips"]:
        w.dirs.add(HWMON)
    for k, ch in enumerate(inp["chips"]):
        cls = "%s/hwmon%d" % (HWMON, k)
        if ch["dup"]:
            # the class entry is a symlink into the platform device: the same
            # files are listed under both paths
            d = "%s/hwmon%d" % (CORETEMP, k)
            w.links[cls] = d
        elif ch["nest"] == "device":
            d = cls + "/device"
            w.files[cls + "/uevent"] = b""
        elif (k + len(inp["chips"])) % 2:
            # as the kernel lays it out: /sys/class/hwmon/hwmonN is a symlink into the device tree
            # (and device names are full of underscores)
            d = "/sys/devices/platform/%s_hwmon/hwmon/hwmon%d" % (ch["name"] or "x", k)
            w.links[cls] = d
        else:
            d = cls
        w.dirs.add(d)
        w.files[d + "/name"] = ch["name"].encode() + b"\n"
        for n, s in zip(numbering(len(ch["temps"]), rnd, big), ch["temps"]):
            b = "%s/temp%d" % (d, n)
            put(w, b + "_input", s["input"], rnd)
            put(w, b + "_max", s["max"], rnd)
            put(w, b + "_crit", s["crit"], rnd)
            put_text(w, b + "_label", s["label"], rnd)
        for n, s in zip(numbering(len(ch["fans"]), rnd, big), ch["fans"]):
            b = "%s/fan%d" % (d, n)
            put(w, b + "_input", s["input"], rnd)
            put_text(w, b + "_label", s["label"], rnd)
    if inp["tzdir"] or inp["zones"]:
        w.dirs.add(THERMAL)
        w.files[THERMAL + "/cooling_device0/type"] = b"Processor\n"
        w.files[THERMAL + "/cooling_device0/cur_state"] = b"0\n"
    for k, z in enumerate(inp["zones"]):
        d = "%s/thermal_zone%d" % (THERMAL, k)
        w.files[d + "/type"] = z["type"].encode() + b"\n"
        w.files[d + "/mode"] = b"enabled\n"
        put(w, d + "/temp", z["temp"], rnd)
        # every other zone is a device-tree style one: ten passive/active cooling steps come first, so
        # that the trips that matter carry two-digit numbers
        off = 0
        if k % 2:
            off = 10
            for j in range(10):
                w.files["%s/trip_point_%d_type" % (d, j)] = (b"passive\n", b"active\n")[j % 2]
                w.files["%s/trip_point_%d_temp" % (d, j)] = b"%d\n" % (7000 + 500 * j)
                w.files["%s/trip_point_%d_hyst" % (d, j)] = b"0\n"
        for j, t in enumerate(z["trips"], off):
            w.files["%s/trip_point_%d_type" % (d, j)] = t["type"].encode() + b"\n"
            put(w, "%s/trip_point_%d_temp" % (d, j), t["temp"], rnd)
            w.files["%s/trip_point_%d_hyst" % (d, j)] = b"0\n"


def build_battery(w, inp, rnd, S=1):
    if inp["psdir"] or inp["bats"] or inp["ac"]["name"] != "none":
        w.dirs.add(POWER)
    for k, b in enumerate(inp["bats"]):
        d = "%s/BAT%d" % (POWER, k)
        w.files[d + "/type"] = b"Battery\n"
        w.files[d + "/present"] = b"1\n"
        # "both": the same state in uWh and in uAh (a 12 V battery) -- the ratios now/full and
        # now/power are the same in either family, never across them
        fams = [("energy", "power_now", 12 if b["layout"] == "both" else 1)] if b["layout"] != "charge" else []
        if b["layout"] != "energy":
            fams.append(("charge", "current_now", 1))
        for e, p, volt in fams:
            put(w, "%s/%s_now" % (d, e), b["now"], rnd, S * volt)
            put(w, "%s/%s_full" % (d, e), b["full"], rnd, S * volt)
            put(w, "%s/%s" % (d, p), b["power"], rnd, S * volt)
        put(w, d + "/capacity", b["capacity"], rnd)
        put(w, d + "/time_to_empty_now", b["tte"], rnd)
        put_text(w, d + "/status", b["status"], rnd)
    ac = inp["ac"]
    if ac["name"] != "none":
        d = "%s/%s" % (POWER, ac["name"])
        w.files[d + "/type"] = b"Mains\n"
        w.files[d + "/online"] = b"%d\n" % ac["online"]


def cpuinfo_block(n, mhz=None, phys=None, cores=None, processor=True):
    L = []
    if processor:
        L.append("processor\t: %d" % n)
    L += ["vendor_id\t: GenuineIntel", "cpu family\t: 6", "model name\t: Sim CPU @ 2.40GHz"]
    if mhz is not None:
        L.append("cpu MHz\t\t: %d.%03d" % divmod(mhz, 1000))
    L.append("cache size\t: 8192 KB")
    if phys is not None:
        L += ["physical id\t: %d" % phys, "siblings\t: 2", "core id\t\t: 0", "cpu cores\t: %d" % cores]
    L += ["bogomips\t: 4800.00", "", ""]
    return "\n".join(L)


def build_freq(w, inp, rnd):
    online = []
    for k, c in enumerate(inp["cpus"]):
        cdir = "%s/cpu%d" % (CPU, k)
        w.dirs.add(cdir)
        on = c["mode"] not in ("offline-nodir", "offline-dir")
        if k > 0:
            w.files[cdir + "/online"] = b"1\n" if on else b"0\n"
        if on:
            online.append((k, c))
        if inp["variant"] != "sysfs" or c["mode"] == "offline-nodir":
            continue
        if inp["layout"] == "policy":
            pdir = "%s/cpufreq/policy%d" % (CPU, k)
            w.links[cdir + "/cpufreq"] = pdir
        else:
            pdir = cdir + "/cpufreq"
        w.dirs.add(pdir)
        w.files[pdir + "/affected_cpus"] = b"%d\n" % k if on else b"\n"
        if c["mode"] == "offline-dir":
            continue
        if c["mode"] in ("scaling", "both"):
            w.files[pdir + "/scaling_cur_freq"] = b"%d\n" % c["cur"]
        if c["mode"] in ("cpuinfo_cur", "both"):
            w.files[pdir + "/cpuinfo_cur_freq"] = b"%d\n" % c["cur"]
        w.files[pdir + "/scaling_min_freq"] = b"%d\n" % c["min"]
        w.files[pdir + "/scaling_max_freq"] = b"%d\n" % c["max"]
        w.files[pdir + "/scaling_governor"] = b"schedutil\n"
    w.ncpus = len(online)
    w.files["/proc/cpuinfo"] = "".join(
        cpuinfo_block(k, mhz=c["cur"] if inp["mhz"] else None) for k, c in online).encode()


def cpulist(ids):
    """The kernel's list format: ranges where contiguous."""
    ids = sorted(ids)
    out, i = [], 0
    while i < len(ids):
        j = i
        while j + 1 < len(ids) and ids[j + 1] == ids[j] + 1:
            j += 1
        out.append(str(ids[i]) if i == j else "%d-%d" % (ids[i], ids[j]))
        i = j + 1
    return ",".join(out)


def proc_stat(cpus, ctxt=11, intr=22, softirq=33, btime=1000000, percpu=True):
    L = ["cpu  10 20 30 40 50 60 70 80 90 100"]
    if percpu:
        L += ["cpu%d 1 2 3 4 5 6 7 8 9 10" % n for n in cpus]
    L += ["intr %d 0 0 9" % intr, "ctxt %d" % ctxt, "btime %d" % btime, "processes 1554",
          "procs_running 1", "procs_blocked 0", "softirq %d 1 2 3" % softirq]
    return ("\n".join(L) + "\n").encode()


def build_count(w, inp, rnd):
    P, C, T = inp["pk"], inp["cores"], inp["threads"]
    ident = {(p, c, t): t * P * C + p * C + c for p in range(P) for c in range(C) for t in range(T)}
    off = {ident[(P - 1, C - 1, 1)]} if inp["offline"] else set()
    online = sorted(set(ident.values()) - off)
    w.ncpus = len(online)
    w.sysconf_nproc_fails = not inp["sysconf"]
    blocks = []
    for (p, c, t), n in sorted(ident.items(), key=lambda kv: kv[1]):
        cdir = "%s/cpu%d" % (CPU, n)
        w.dirs.add(cdir)
        if n > 0:
            w.files[cdir + "/online"] = b"0\n" if n in off else b"1\n"
        if n in off:
            continue
        sib = cpulist([ident[(p, c, u)] for u in range(T) if ident[(p, c, u)] not in off]).encode() + b"\n"
        if inp["topo"] in ("core_cpus", "both"):
            w.files[cdir + "/topology/core_cpus_list"] = sib
        if inp["topo"] in ("siblings", "both"):
            w.files[cdir + "/topology/thread_siblings_list"] = sib
        if inp["topo"] != "none":
            w.files[cdir + "/topology/physical_package_id"] = b"%d\n" % p
        if inp["proc"]:
            blocks.append(cpuinfo_block(n, mhz=2400000, phys=p if inp["physid"] else None, cores=C))
    if inp["proc"]:
        w.files["/proc/cpuinfo"] = "".join(blocks).encode()
    else:
        # a format without "processor" lines (sparc-like)
        w.files["/proc/cpuinfo"] = (b"cpu\t\t: TI UltraSparc IIi (Sabre)\nfpu\t\t: UltraSparc IIi integrated FPU\n"
                                    b"ncpus probed\t: %d\nncpus active\t: %d\n" % (len(ident), len(online)))
    data = proc_stat(online, percpu=inp["statcpus"])
    w.dyn["/proc/stat"] = lambda: data


def build_stat(w, inp, rnd, S=1, SB=1):
    w.ncpus = inp["ncpu"]
    data = proc_stat(range(inp["ncpu"]), ctxt=inp["ctxt"] * S, intr=inp["intr"] * S,
                     softirq=inp["softirq"] * S, btime=inp["btime"] * SB)
    w.dyn["/proc/stat"] = lambda: data


def build(w, inp, rnd, S=1, SB=1, big=False):
    reset(w)
    k = inp["kind"]
    if k == "hwmon":
        build_hwmon(w, inp, rnd, big)
    elif k == "battery":
        build_battery(w, inp, rnd, S)
    elif k == "freq":
        build_freq(w, inp, rnd)
    elif k == "count":
        build_count(w, inp, rnd)
    elif k == "stat":
        build_stat(w, inp, rnd, S, SB)
    else:
        raise ValueError(k)

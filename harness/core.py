"""Shared plumbing of every check: context, evidence, findings, verdicts."""
import hashlib
import json
import os
import sys
import time

VERIF = os.path.dirname(os.path.dirname(os.path.abspath(__file__)))
# evidence describes runs against /repo itself; a run pointed at another tree (VERIF_REPO: seeded or
# behaviour-preserving variants in scratch worktrees) keeps its evidence and replays next to that tree
_ALT = os.environ.get("VERIF_REPO")
_OUT = VERIF if not _ALT or os.path.realpath(_ALT) == "/repo" else os.path.realpath(_ALT) + ".verif-out"
EVID = os.path.join(_OUT, "evidence")
REPLAYS = os.path.join(_OUT, "replays")
KF_PATH = os.path.join(VERIF, "known_findings.json")


class Machinery(Exception):
    """The check itself is broken (exit 2), not the property."""


def load_findings(prop):
    if not os.path.exists(KF_PATH):
        return []
    data = json.load(open(KF_PATH))
    return [f for f in data.get("findings", []) if f["property"] == prop]


class Ctx:
    def __init__(self, prop, tier, seed, level="model_checking"):
        self.prop, self.tier, self.seed, self.level = prop, tier, seed, level
        self.t0 = time.time()
        self.violations = []       # (signature, description, replay_obj)
        self.known_hits = {}       # signature -> count
        self.findings = {f["signature"]: f for f in load_findings(prop)}
        self.cov = {"states": 0, "transitions": 0, "traces_validated_against_impl": 0,
                    "samples": [], "evaluations": 0, "distinct_nontrivial": 0,
                    "rule": "", "tlc_runs": [], "replayed_transitions": 0}
        self.assumptions = []
        self._distinct = set()
        self.notes = []

    # ---- bookkeeping -------------------------------------------------
    def tlc(self, name, r, bounds=None):
        self.cov["states"] += r.distinct
        self.cov["transitions"] += r.generated
        self.cov["tlc_runs"].append({"cfg": name, "distinct_states": r.distinct,
                                     "states_generated": r.generated, "depth": r.depth,
                                     "wall_s": round(r.wall, 2), "bounds": bounds or {}})
        if r.error:
            raise Machinery("TLC failed on %s: %s" % (name, r.error))
        if r.timed_out:
            self.notes.append("TLC run %s hit its time limit after %d states" % (name, r.generated))

    def case(self, key, nontrivial=True):
        """Count one evaluated case; *key* identifies it for distinctness."""
        self.cov["evaluations"] += 1
        if nontrivial:
            h = hashlib.blake2b(repr(key).encode(), digest_size=8).digest()
            self._distinct.add(h)

    def sample(self, obj, limit=4):
        if len(self.cov["samples"]) < limit:
            self.cov["samples"].append(obj)

    # ---- verdicts ----------------------------------------------------
    def disagree(self, signature, desc, replay):
        """A disagreement between code and specification / a property
        violated in the model.  Listed signature -> KNOWN-FINDING."""
        if signature in self.findings:
            self.known_hits[signature] = self.known_hits.get(signature, 0) + 1
            return False
        self.violations.append((signature, desc, replay))
        return True

    def finish(self):
        self.cov["distinct_nontrivial"] = len(self._distinct)
        os.makedirs(EVID, exist_ok=True)
        for sig, n in sorted(self.known_hits.items()):
            f = self.findings[sig]
            print("KNOWN-FINDING: property=%s %s [%s, %d occurrence(s) this run]"
                  % (self.prop, f["what"], sig, n))
        rc = 0
        seen = set()
        for sig, desc, replay in self.violations:
            if sig in seen:
                continue
            seen.add(sig)
            os.makedirs(REPLAYS, exist_ok=True)
            h = hashlib.sha1(json.dumps(replay, sort_keys=True, default=str).encode()).hexdigest()[:10]
            path = os.path.join(REPLAYS, "%s-%s.json" % (self.prop, h))
            with open(path, "w") as fh:
                json.dump({"property": self.prop, "signature": sig, "description": desc,
                           "replay": replay}, fh, indent=1, default=str)
            print("VIOLATION property=%s replay=%s" % (self.prop, path))
            print("  signature: %s" % sig)
            print("  " + desc.replace("\n", "\n  "))
            rc = 1
            if len(seen) >= 60:
                break
        ev = {"property_id": self.prop, "tier": self.tier, "seed": self.seed,
              "level": self.level, "coverage": self.cov,
              "assumptions": self.assumptions, "wall_s": round(time.time() - self.t0, 2),
              "violations": len(seen), "notes": self.notes,
              "known_findings_hit": self.known_hits}
        if not self.cov["samples"]:
            self.cov["samples"] = ["(no sample recorded)"]
        with open(os.path.join(EVID, self.prop + ".json"), "w") as fh:
            json.dump(ev, fh, indent=1, default=str)
        return rc


CURRENT = None


def vacuity(msg):
    """A guard against an empty check: some class of inputs/results was never exercised.  Which
    classes show up may depend on what the code under test does; when the code already disagrees
    with the specification, the disagreement is the verdict and the guard becomes a note."""
    if CURRENT is None:                     # (a forked worker: nobody to defer to)
        raise Machinery("vacuity: " + msg)
    # decided when the check ends (main_wrapper): verdicts recorded later still count
    CURRENT.__dict__.setdefault("pending_vacuity", []).append(msg)


def main_wrapper(fn, prop, argv=None):
    """fn(ctx) does the work; translate outcomes into the exit protocol."""
    import argparse
    ap = argparse.ArgumentParser()
    ap.add_argument("--tier", default=os.environ.get("VERIF_TIER", "quick"))
    ap.add_argument("--seed", type=int, default=int(os.environ.get("VERIF_SEED", "0")))
    ap.add_argument("--replay")
    a = ap.parse_args(argv)
    ctx = Ctx(prop, a.tier, a.seed)
    global CURRENT
    CURRENT = ctx
    ctx.replay_file = a.replay
    if a.replay:
        # re-run one recorded case: exit 1 if the disagreement is still there
        data = json.load(open(a.replay))
        mod = sys.modules.get(fn.__module__)
        rp = getattr(mod, "replay", None)
        print("replaying %s: %s" % (a.replay, data.get("signature")))
        print("  " + str(data.get("description", "")).replace("\n", "\n  ")[:1500])
        if rp is None:
            print("(this check has no single-case replayer: run the check itself)")
            sys.exit(2)
        from harness import forkpool
        try:
            still = rp(ctx, data)
        finally:
            forkpool.shutdown()
        print("REPRODUCED" if still else "not reproduced on this tree")
        if still:
            print("VIOLATION property=%s replay=%s" % (prop, a.replay))
        sys.exit(1 if still else 0)
    from harness import forkpool
    try:
        fn(ctx)
        pend = ctx.__dict__.get("pending_vacuity", [])
        if pend and not ctx.violations:
            raise Machinery("vacuity: " + "; ".join(pend[:3]))
        for m in pend:
            ctx.notes.append("(not exercised on this tree: %s)" % m)
        rc = ctx.finish()
    except Machinery as e:
        print("MACHINERY-FAILURE property=%s: %s" % (prop, e))
        rc = 2
    except BaseException as e:  # noqa: BLE001
        if type(e).__name__ != "Unmodelled":
            raise
        print("MACHINERY-FAILURE property=%s: the tree asks the simulated kernel for %s, which it does not model" % (prop, e))
        rc = 2
    finally:
        forkpool.shutdown()
    sys.exit(rc)

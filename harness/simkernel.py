"""simkernel -- a simulated Linux kernel interface under the *unmodified* psutil.

The abstract state kept here is the same state the TLA+ specifications call
"kernel variables" (process table with incarnations, start ticks, boot time,
counters, descriptor tables, ...).  It is rendered into the byte formats of
procfs/sysfs and served to psutil by replacing, from the outside, the names
`os`, `glob`, `time`, `resource`, `cext`, `cext_posix` inside psutil's module
namespaces and the builtin `open` seen by `psutil._common`.

Nothing here touches psutil's private state; the world is sealed (paths that
the world does not declare are ENOENT) so runs are deterministic.
"""
import builtins
import errno
import fnmatch
import io
import os as _os
import posixpath
import re
import stat as _stat
import sys
import types

_real_open = builtins.open

S_IFREG, S_IFDIR, S_IFLNK, S_IFCHR, S_IFSOCK, S_IFIFO = (
    _stat.S_IFREG, _stat.S_IFDIR, _stat.S_IFLNK, _stat.S_IFCHR,
    _stat.S_IFSOCK, _stat.S_IFIFO)


def oserr(e, path=None):
    return OSError(e, _os.strerror(e), path)


# ---------------------------------------------------------------------------
# abstract state
# ---------------------------------------------------------------------------

class Thread:
    def __init__(self, comm=b"t", utime=0, stime=0):
        self.comm, self.utime, self.stime = comm, utime, stime


class Fd:
    """kind: reg|socket|pipe|anon|dev|dir|rel ; target: link text"""
    def __init__(self, target, pos=0, flags=0o100000, kind="reg"):
        self.target, self.pos, self.flags, self.kind = target, pos, flags, kind


class Mapping:
    FIELDS = ("Size", "Rss", "Pss", "Shared_Clean", "Shared_Dirty",
              "Private_Clean", "Private_Dirty", "Referenced", "Anonymous",
              "Swap")

    def __init__(self, addr="00400000-00401000", perms="r-xp", path="", **kb):
        self.addr, self.perms, self.path = addr, perms, path
        self.kb = {k: 0 for k in self.FIELDS}
        self.kb.update(kb)
        self.extra = {}          # optional numeric lines name -> kB
        self.vmflags = "rd ex"   # None -> line absent
        self.raw_extra = []      # raw lines such as b"THPeligible:    0"


class Proc:
    def __init__(self, pid, inc=1, comm=b"p) (q) 1", state="S", ppid=1, start=0):     # (a default name that punishes careless stat parsing)
        self.pid, self.inc, self.comm, self.state = pid, inc, comm, state
        self.ppid, self.starttime = ppid, start
        self.tty_nr = 0
        self.utime = self.stime = self.cutime = self.cstime = 0
        self.processor = 0
        self.blkio = 0
        self.stat_nfields = 52          # 52 / 44 / 41 (old kernels)
        self.threads = None             # tid -> Thread ; None = {pid: main}
        self.uids = (0, 0, 0, 0)
        self.gids = (0, 0, 0, 0)
        self.vol_ctx, self.nonvol_ctx = 1, 0
        self.has_ctx = True
        self.cpus_allowed_list = None   # text; None -> derived from world
        self.nice = 0
        self.ioprio = (0, 0)            # (class, data)
        self.affinity = None            # set of cpus ; None = all
        self.rlimits = {}
        self.fds = {}
        self.cmdline = b"proc\0"
        self.environ = b"A=1\0"
        self.exe = "/bin/proc"
        self.cwd = "/"
        self.statm = (100, 50, 20, 5, 0, 30, 0)
        self.maps = []                  # list[Mapping]
        self.has_rollup = True
        self.io = dict(rchar=1, wchar=2, syscr=3, syscw=4, read_bytes=5,
                       write_bytes=6, cancelled_write_bytes=0)
        self.io_raw = None              # raw override of /proc/pid/io
        self.child = False              # child of the calling process
        self.wstatus = None             # wait status once exited
        self.stat_raw = None            # raw overrides (bytes)
        self.status_raw = None
        self.kthread_like = False       # exe/cwd withheld (ENOENT) though alive
        self.deny = {}                  # relative name -> errno (persistent)
        self.ver = {}                   # source versions (C16)

    def tids(self):
        if self.threads is None:
            return {self.pid: Thread(self.comm, self.utime, self.stime)}
        return self.threads


class World:
    PROCFS = "/proc"

    def __init__(self):
        self.procs = {}
        self.ghost_tids = {}     # tid -> pid (threads addressable as /proc/<tid>)
        self.next_inc = 1
        self.btime = 1000000
        self.clk_tck = 100
        self.pagesize = 4096
        self.ncpus = 2
        self.cpu_fields = 10
        self.cpu = None          # list (per cpu) of list of counters ; None -> zeros
        self.stat_extra = {"ctxt": 11, "intr": 22, "softirq": 33}
        self.stat_omit = set()   # lines omitted from /proc/stat
        self.files = {}          # path -> bytes (regular files of the world)
        self.dyn = {}            # path -> callable() -> bytes
        self.links = {}          # path -> target
        self.devs = {}           # path -> rdev (character devices)
        self.dirs = set(["/", "/proc", "/sys", "/dev"])
        self.deny = {}           # absolute path -> errno (persistent denial)
        self.pid_max = 4194304
        self.caller_pid = 99999
        # virtual clocks
        self.mono = 1000.0
        self.wall = 1.7e9
        self.sleep_log = []
        self.timeline = []       # [(mono_time, callable)] events applied during sleep
        # access bookkeeping
        self.acc = 0
        self.observer = None     # callable(k, op, path) invoked on every access
        self.log = []
        self.hooks = {}          # access index -> [callable]
        self.faults = {}         # access index -> errno (deny just that access)
        self.kill_log = []       # (pid, sig, delivered_to_inc | None)
        self.set_log = []        # (what, pid, value, inc)
        self.waitpid_log = []
        self.trace_reads = False
        self.statvfs_map = {}
        self.sysinfo = (0, 0, 0, 0, 0, 0, 1)
        self.users_raw = []
        self.partitions_raw = []
        self.nic = {}
        self.eligible_default = None
        self.netdev = None       # name -> 16 kernel columns ; None: no /proc/net/dev
        self.disks = None        # list of (major, minor, name, [values], layout)
        self.sysblock = set()    # names under /sys/block ('/' replaced by '!')

    # ----- process table -----
    # names given to processes spawned without one: each is a trap for careless reading of the
    # stat record or of the status file (the kernel prints tabs and blanks of a name as they are)
    DEFAULT_COMMS = (b"p) (q) 1", b"Tgid:\t1", b"a\nb) R 1 (", b"State:\tZ (zo", b"Tgid: 1", b"PPid:\t1", b"Uid:\t7\t7\t7\t7")

    def spawn(self, pid, **kw):
        if "comm" not in kw:
            kw["comm"] = self.DEFAULT_COMMS[self.next_inc % len(self.DEFAULT_COMMS)]
        p = Proc(pid, inc=self.next_inc, **kw)
        self.next_inc += 1
        self.procs[pid] = p
        return p

    def exit(self, pid, status=0):
        p = self.procs[pid]
        p.state = "Z"
        p.wstatus = status
        p.threads = None

    def reap(self, pid):
        del self.procs[pid]

    def vanish(self, pid):
        self.procs.pop(pid, None)

    # ----- access accounting -----
    def _access(self, op, path):
        """Count one OS access; run hooks scheduled before it; raise an
        injected single-access fault."""
        k = self.acc
        self.acc += 1
        for h in self.hooks.pop(k, ()):  # kernel events placed before access k
            h()
        self.log.append((k, op, path))
        if self.observer is not None:
            self.observer(k, op, path)
        e = self.faults.get(k)
        if e is not None:
            raise oserr(e, path)
        e = self.deny.get(path)
        if e is not None:
            raise oserr(e, path)
        return k

    # ----- rendering of /proc/<pid>/... -----
    def render_stat(self, p, tid=None):
        if p.stat_raw is not None and tid is None:
            return p.stat_raw
        if tid is None or (tid == p.pid and p.threads is None):
            comm, ut, st, ident = p.comm, p.utime, p.stime, p.pid
        else:
            t = p.tids()[tid]
            comm, ut, st, ident = t.comm, t.utime, t.stime, tid
        nthreads = len(p.tids())
        f = [0] * 53  # 1-based man proc numbering
        f[3] = p.state
        f[4] = p.ppid
        f[5] = p.pid      # pgrp
        f[6] = p.pid      # session
        f[7] = p.tty_nr
        f[8] = -1
        f[9] = 4194304
        # page-fault counters of a long-lived, busy process: 20 digits each (a reader that looks at a
        # fixed-size prefix of the record loses the CPU times behind them)
        f[10], f[11], f[12], f[13] = 2 ** 64 - 81, 2 ** 64 - 82, 2 ** 64 - 83, 2 ** 64 - 84
        f[14], f[15], f[16], f[17] = ut, st, p.cutime, p.cstime
        f[18] = 20 + p.nice
        f[19] = p.nice
        f[20] = nthreads
        f[21] = 0
        f[22] = p.starttime
        f[23] = p.statm[0] * self.pagesize
        f[24] = p.statm[1]
        f[25] = 18446744073709551615
        for i in range(26, 39):
            f[i] = 1000 + i
        f[38] = 17
        f[39] = p.processor
        f[40], f[41] = 0, 0
        f[42] = p.blkio
        f[43], f[44] = 143, 144
        for i in range(45, 53):
            f[i] = 2000 + i
        n = p.stat_nfields
        body = b" ".join(str(x).encode() for x in f[3:n + 1])
        return b"%d (%s) %s\n" % (ident, comm, body)

    def render_status(self, p, tid=None):
        if p.status_raw is not None:
            return p.status_raw
        comm = p.comm if tid is None or p.threads is None else p.tids()[tid].comm
        names = {"R": "running", "S": "sleeping", "D": "disk sleep",
                 "T": "stopped", "t": "tracing stop", "Z": "zombie",
                 "X": "dead", "I": "idle"}
        cal = p.cpus_allowed_list
        if cal is None:
            cal = "0-%d" % (self.ncpus - 1) if self.ncpus > 1 else "0"
        L = []
        esc = comm.replace(b"\\", b"\\\\").replace(b"\n", b"\\n")
        L.append(b"Name:\t" + esc)
        L.append(b"Umask:\t0022")
        L.append(("State:\t%s (%s)" % (p.state, names.get(p.state, "x"))).encode())
        L.append(b"Tgid:\t%d" % p.pid)
        L.append(b"Ngid:\t0")
        L.append(b"Pid:\t%d" % (p.pid if tid is None else tid))
        L.append(b"PPid:\t%d" % p.ppid)
        L.append(b"TracerPid:\t0")
        L.append(b"Uid:\t%d\t%d\t%d\t%d" % tuple(p.uids))
        L.append(b"Gid:\t%d\t%d\t%d\t%d" % tuple(p.gids))
        L.append(b"FDSize:\t64")
        L.append(b"Groups:\t ")
        if p.state != "Z":
            L.append(b"VmPeak:\t    2640 kB")
            L.append(b"VmRSS:\t    1304 kB")
        L.append(b"Threads:\t%d" % len(p.tids()))
        L.append(b"SigQ:\t0/257850")
        L.append(b"Cpus_allowed:\tffff")
        L.append(b"Cpus_allowed_list:\t" + cal.encode())
        L.append(b"Mems_allowed_list:\t0")
        if p.has_ctx:
            L.append(b"voluntary_ctxt_switches:\t%d" % p.vol_ctx)
            L.append(b"nonvoluntary_ctxt_switches:\t%d" % p.nonvol_ctx)
        return b"\n".join(L) + b"\n"

    def render_smaps(self, p):
        out = []
        for m in p.maps:
            hdr = "%s %s 00000000 fe:00 %d" % (m.addr, m.perms, 320173 if m.path else 0)
            if m.path:
                hdr = hdr.ljust(73) + m.path
            out.append(hdr.encode("utf8", "surrogateescape"))
            kb = m.kb
            order = ["Size", "KernelPageSize", "MMUPageSize", "Rss", "Pss",
                     "Pss_Dirty", "Shared_Clean", "Shared_Dirty",
                     "Private_Clean", "Private_Dirty", "Referenced",
                     "Anonymous", "KSM", "LazyFree", "AnonHugePages",
                     "ShmemPmdMapped", "FilePmdMapped", "Shared_Hugetlb",
                     "Private_Hugetlb", "Swap", "SwapPss", "Locked"]
            for name in order:
                if name in kb:
                    v = kb[name]
                elif name in m.extra:
                    v = m.extra[name]
                else:
                    continue
                out.append(("%-16s%8d kB" % (name + ":", v)).encode())
            out.extend(m.raw_extra)
            if m.vmflags is not None:
                out.append(("VmFlags: " + m.vmflags + " ").encode())
        return b"\n".join(out) + (b"\n" if out else b"")

    def render_rollup(self, p):
        tot = {}
        for m in p.maps:
            for k, v in list(m.kb.items()) + list(m.extra.items()):
                tot[k] = tot.get(k, 0) + v
        out = [b"55a180009000-7ffc34adf000 ---p 00000000 00:00 0                          [rollup]"]
        order = ["Rss", "Pss", "Pss_Dirty", "Pss_Anon", "Pss_File", "Pss_Shmem",
                 "Shared_Clean", "Shared_Dirty", "Private_Clean",
                 "Private_Dirty", "Referenced", "Anonymous", "KSM", "LazyFree",
                 "AnonHugePages", "ShmemPmdMapped", "FilePmdMapped",
                 "Shared_Hugetlb", "Private_Hugetlb", "Swap", "SwapPss",
                 "Locked"]
        for name in order:
            if name in tot or name in ("Rss", "Pss", "Swap", "Private_Clean", "Private_Dirty"):
                out.append(("%-16s%8d kB" % (name + ":", tot.get(name, 0))).encode())
        return b"\n".join(out) + b"\n"

    def render_io(self, p):
        if p.io_raw is not None:
            return p.io_raw
        order = ["rchar", "wchar", "syscr", "syscw", "read_bytes",
                 "write_bytes", "cancelled_write_bytes"]
        return b"".join(b"%s: %d\n" % (k.encode(), p.io[k]) for k in order if k in p.io)

    def render_proc_stat(self):
        names = ["cpu"] + ["cpu%d" % i for i in range(self.ncpus)]
        per = self.cpu or [[0] * 10 for _ in range(self.ncpus)]
        tot = [sum(c[i] for c in per) for i in range(10)]
        L = []
        for name, vals in zip(names, [tot] + per):
            if name in self.stat_omit:
                continue
            sep = "  " if name == "cpu" else " "
            L.append(name + sep + " ".join(str(v) for v in vals[:self.cpu_fields]))
        if "intr" not in self.stat_omit:
            L.append("intr %d 0 0 9" % self.stat_extra["intr"])
        if "ctxt" not in self.stat_omit:
            L.append("ctxt %d" % self.stat_extra["ctxt"])
        if "btime" not in self.stat_omit:
            L.append("btime %d" % self.btime)
        L.append("processes 1554")
        L.append("procs_running 1")
        L.append("procs_blocked 0")
        if "softirq" not in self.stat_omit:
            L.append("softirq %d 1 2 3" % self.stat_extra["softirq"])
        return ("\n".join(L) + "\n").encode()

    def render_netdev(self):
        L = ["Inter-|   Receive                                                |  Transmit",
             " face |bytes    packets errs drop fifo frame compressed multicast|bytes    packets errs drop fifo colls carrier compressed"]
        for name, v in self.netdev.items():
            L.append("%6s: %s" % (name, " ".join("%d" % x for x in v)))
        return ("\n".join(L) + "\n").encode()

    def render_diskstats(self):
        """layout: 14 / 18 / 20 (name at col 3, 11/15/17 counters), 15 (2.4:
        major minor #blocks name + 11 counters), 7 (2.6 partition: 4 counters)."""
        L = []
        for major, minor, name, vals, layout in self.disks:
            if layout == 15:
                L.append("%4d %7d %d %s %s" % (major, minor, vals[0], name,
                                              " ".join(str(x) for x in vals[1:12])))
            else:
                n = {14: 11, 18: 15, 20: 17, 7: 4}[layout]
                L.append("%4d %7d %s %s" % (major, minor, name,
                                            " ".join(str(x) for x in vals[:n])))
        return ("\n".join(L) + ("\n" if L else "")).encode()

    # ----- VFS -----
    def _proc_entry(self, ident):
        """Return (proc, tid|None) for /proc/<ident> or None."""
        p = self.procs.get(ident)
        if p is not None:
            return p, None
        pid = self.ghost_tids.get(ident)
        if pid is not None and pid in self.procs and ident in self.procs[pid].tids():
            return self.procs[pid], ident
        for q in self.procs.values():
            if q.threads and ident in q.threads:
                return q, ident
        return None

    def _pnode(self, p, tid, parts, path, follow=True):
        """Node for /proc/<pid>/<parts...>.  Returns one of
        ('dir', names) ('file', bytes) ('link', target) ; raises OSError."""
        Z = p.state == "Z"
        if not parts:
            return ("dir", ["stat", "status", "cmdline", "environ", "exe", "cwd",
                            "fd", "fdinfo", "task", "statm", "smaps", "io",
                            "smaps_rollup"])
        name = parts[0]
        rel = "/".join(parts)
        e = p.deny.get(rel)
        if e is not None:
            raise oserr(e, path)
        if name == "stat" and len(parts) == 1:
            return ("file", self.render_stat(p, tid))
        if name == "status" and len(parts) == 1:
            return ("file", self.render_status(p, tid))
        if name == "cmdline" and len(parts) == 1:
            return ("file", b"" if Z else p.cmdline)
        if name == "environ" and len(parts) == 1:
            if Z:
                return ("file-esrch", b"")
            return ("file", p.environ)
        if name in ("exe", "cwd") and len(parts) == 1:
            tgt = getattr(p, name)
            if Z or p.kthread_like or tgt is None:
                raise oserr(errno.ENOENT, path)
            return ("link", tgt)
        if name == "statm" and len(parts) == 1:
            vals = (0,) * 7 if Z else p.statm
            return ("file", (" ".join(str(v) for v in vals) + "\n").encode())
        if name == "smaps" and len(parts) == 1:
            return ("file", b"" if Z else self.render_smaps(p))
        if name == "smaps_rollup" and len(parts) == 1:
            if not p.has_rollup:
                raise oserr(errno.ENOENT, path)
            if Z:
                return ("file-esrch", b"")
            return ("file", self.render_rollup(p))
        if name == "io" and len(parts) == 1:
            return ("file", self.render_io(p))
        if name == "fd":
            if len(parts) == 1:
                return ("dir", [] if Z else [str(k) for k in p.fds])
            if len(parts) == 2 and not Z and parts[1].isdigit() and int(parts[1]) in p.fds:
                return ("link", p.fds[int(parts[1])].target)
            raise oserr(errno.ENOENT, path)
        if name == "fdinfo":
            if len(parts) == 1:
                return ("dir", [] if Z else [str(k) for k in p.fds])
            if len(parts) == 2 and not Z and parts[1].isdigit() and int(parts[1]) in p.fds:
                d = p.fds[int(parts[1])]
                return ("file", b"pos:\t%d\nflags:\t%s\nmnt_id:\t25\nino:\t3\n"
                        % (d.pos, oct(d.flags)[2:].rjust(7, "0").encode()))
            raise oserr(errno.ENOENT, path)
        if name == "task":
            tids = p.tids()
            if len(parts) == 1:
                return ("dir", [str(t) for t in tids])
            if parts[1].isdigit() and int(parts[1]) in tids:
                t = int(parts[1])
                if len(parts) == 2:
                    return ("dir", ["stat", "status"])
                if parts[2] == "stat" and len(parts) == 3:
                    return ("file", self.render_stat(p, t))
                if parts[2] == "status" and len(parts) == 3:
                    return ("file", self.render_status(p, t))
            raise oserr(errno.ENOENT, path)
        raise oserr(errno.ENOENT, path)

    # the calling process's current directory: a relative path is looked up there
    caller_cwd = "/v/caller-cwd"

    def node(self, path):
        """Resolve *path* without following a final symlink."""
        if isinstance(path, bytes):
            path = path.decode("utf8", "surrogateescape")
        if not path.startswith("/"):
            path = self.caller_cwd + "/" + path
        path = posixpath.normpath(path)
        if path in self.dyn:
            return ("file", self.dyn[path]())
        if path == self.PROCFS + "/net/dev" and self.netdev is not None:
            return ("file", self.render_netdev())
        if path == self.PROCFS + "/diskstats" and self.disks is not None:
            return ("file", self.render_diskstats())
        if path.startswith("/sys/block"):
            if path == "/sys/block":
                return ("dir", sorted(self.sysblock))
            rest = path[len("/sys/block/"):]
            if rest in self.sysblock:
                return ("dir", ["queue", "stat"])
            # block/blk-sysfs.c: the drive's own sector size (4K-native for every other disk);
            # /proc/diskstats counts 512-byte units whatever these say
            q = ("hw_sector_size", "logical_block_size", "physical_block_size", "minimum_io_size")
            if rest.endswith("/queue") and rest[:-6] in self.sysblock:
                return ("dir", list(q))
            if rest.rsplit("/", 1)[-1] in q and rest.rsplit("/", 2)[0] in self.sysblock and rest.split("/")[-2] == "queue":
                return ("file", b"4096\n" if sum(rest.split("/")[0].encode()) % 2 else b"512\n")
            if rest.endswith("/stat") and rest[:-5] in self.sysblock:
                # block/genhd.c part_stat_show(): 11 (4.18: 15, 5.5: 17) counters; values nobody
                # lists in /proc/diskstats, so that a report built from here is recognisable
                return ("file", (" ".join("%8d" % (7400 + i) for i in range(17)) + "\n").encode())
        if path in self.files:
            return ("file", self.files[path])
        if path in self.links:
            return ("link", self.links[path])
        if path in self.devs:
            return ("chr", self.devs[path])
        pf = self.PROCFS
        if path == pf:
            names = [str(k) for k in self.procs] + ["stat", "meminfo", "self"]
            names += sorted({q[len(pf) + 1:].split("/")[0] for q in
                             list(self.files) + list(self.dyn) if q.startswith(pf + "/")})
            return ("dir", names)
        if path.startswith(pf + "/"):
            parts = path[len(pf) + 1:].split("/")
            if parts[0].isdigit():
                ent = self._proc_entry(int(parts[0]))
                if ent is None:
                    raise oserr(errno.ENOENT, path)
                return self._pnode(ent[0], ent[1], parts[1:], path)
            if parts == ["stat"]:
                return ("file", self.render_proc_stat())
        if path in self.dirs:
            return ("dir", self._children(path))
        # implicit directories: parents of declared files
        pre = path.rstrip("/") + "/"
        for q in self._all_paths():
            if q.startswith(pre):
                return ("dir", self._children(path))
        raise oserr(errno.ENOENT, path)

    def _all_paths(self):
        return list(self.files) + list(self.dyn) + list(self.links) + list(self.devs) + list(self.dirs)

    def _children(self, path):
        pre = path.rstrip("/") + "/"
        out = set()
        for q in self._all_paths():
            if q.startswith(pre) and q != pre:
                out.add(q[len(pre):].split("/")[0])
        return sorted(out)

    def resolve(self, path, depth=0):
        """Follow symlinks fully; returns (kind, payload, final_path)."""
        if depth > 8:
            raise oserr(errno.ELOOP, path)
        if not path.startswith("/"):
            path = self.caller_cwd + "/" + path
        path = posixpath.normpath(path)
        # resolve symlinked directory components (sysfs trees use them)
        comps = path.split("/")
        for i in range(2, len(comps)):
            pre = "/".join(comps[:i])
            if pre in self.links:
                tgt = self.links[pre]
                if not tgt.startswith("/"):
                    tgt = posixpath.normpath(posixpath.join(posixpath.dirname(pre), tgt))
                return self.resolve(tgt + "/" + "/".join(comps[i:]), depth + 1)
        n = self.node(path)
        if n[0] == "link":
            tgt = n[1]
            if not tgt.startswith("/"):
                if path.startswith(self.PROCFS + "/"):
                    # magic links (socket:[..], pipe:[..], anon_inode:..)
                    return ("magic", tgt, path)
                tgt = posixpath.normpath(posixpath.join(posixpath.dirname(path), tgt))
            try:
                return self.resolve(tgt, depth + 1)
            except OSError:
                if path.startswith(self.PROCFS + "/"):
                    return ("magic", tgt, path)   # dangling proc link still stat()s
                raise
        return (n[0], n[1], path)

    # ----- syscalls -----
    def sys_open(self, path, binary=True):
        if isinstance(path, bytes):
            path = path.decode("utf8", "surrogateescape")
        self._access("open", path)
        kind, payload, fpath = self.resolve(path)
        if kind == "dir":
            raise oserr(errno.EISDIR, path)
        if kind in ("chr", "magic"):
            payload = b""
        raw = _SimRaw(self, path, payload, esrch=(kind == "file-esrch"))
        return raw

    def sys_readlink(self, path):
        self._access("readlink", path)
        n = self.node(path)
        if n[0] != "link":
            raise oserr(errno.EINVAL, path)
        return n[1]

    def sys_listdir(self, path):
        isb = isinstance(path, bytes)
        p = path.decode() if isb else path
        self._access("listdir", p)
        kind, payload, _ = self.resolve(p)
        if kind != "dir":
            raise oserr(errno.ENOTDIR, p)
        names = list(payload)
        return [n.encode() for n in names] if isb else names

    def sys_stat(self, path, follow=True, op="stat"):
        if isinstance(path, bytes):
            path = path.decode("utf8", "surrogateescape")
        self._access(op, path)
        if follow:
            kind, payload, _ = self.resolve(path)
        else:
            kind, payload = self.node(path)[:2]
        mode = {"file": S_IFREG | 0o644, "file-esrch": S_IFREG | 0o400,
                "dir": S_IFDIR | 0o755, "link": S_IFLNK | 0o777,
                "chr": S_IFCHR | 0o620, "magic": S_IFSOCK | 0o777}[kind]
        if kind == "file" and path in getattr(self, "exec_files", ()):
            mode |= 0o111
        rdev = payload if kind == "chr" else 0
        size = len(payload) if kind == "file" else 0
        return _StatResult(mode, rdev, size)

    # signals --------------------------------------------------------------
    def sys_kill(self, pid, sig):
        if not isinstance(pid, int) or isinstance(pid, bool):
            raise TypeError("an integer is required")
        if not -2 ** 31 <= pid < 2 ** 31:
            raise OverflowError("signed integer is greater than maximum")
        self._access("kill", "%d:%d" % (pid, sig))
        if pid <= 0:
            self.kill_log.append((pid, int(sig), "GROUP"))
            return
        ent = self._proc_entry(pid)
        if ent is None:
            self.kill_log.append((pid, int(sig), None))
            raise oserr(errno.ESRCH)
        p = ent[0]
        e = p.deny.get("kill")
        if e is not None:
            self.kill_log.append((pid, int(sig), None))
            raise oserr(e)
        self.kill_log.append((pid, int(sig), p.inc))
        if sig != 0 and p.state != "Z":
            self.on_signal(p, int(sig))

    def on_signal(self, p, sig):
        pass

    def sys_waitpid(self, pid, flags):
        if not -2 ** 31 <= pid < 2 ** 31:
            raise OverflowError("signed integer is greater than maximum")
        self._access("waitpid", str(pid))
        self.waitpid_log.append((self.mono, pid, flags))
        p = self.procs.get(pid)
        # a signal interrupting the call before it has anything to report (one-shot per ordinal)
        self.waitpid_n = getattr(self, "waitpid_n", 0) + 1
        if self.waitpid_n in getattr(self, "eintr_at", ()) and p is not None and p.child and p.state != "Z":
            raise oserr(errno.EINTR)
        if p is None or not p.child:
            raise oserr(errno.ECHILD)
        if p.state == "Z":
            st = p.wstatus
            del self.procs[pid]
            return pid, st
        if flags & _os.WNOHANG:
            return 0, 0
        # blocking wait: advance virtual time to the process's exit
        if not self.advance_until(lambda: pid in self.procs and self.procs[pid].state == "Z"):
            raise RuntimeError("simkernel: blocking waitpid would never return")
        st = self.procs[pid].wstatus
        del self.procs[pid]
        return pid, st

    # clocks -----------------------------------------------------------------
    def monotonic(self):
        return self.mono

    def time(self):
        return self.wall

    def sleep(self, d):
        self.sleep_log.append((self.mono, d))
        extra, self.oversleep = getattr(self, "oversleep", 0), 0      # a sleep may return late (one-shot)
        self.advance(d + extra)

    def advance(self, d):
        end = self.mono + d
        while self.timeline and self.timeline[0][0] <= end + 1e-12:
            t, fn = self.timeline.pop(0)
            if t > self.mono:
                self.wall += t - self.mono
                self.mono = t
            fn()
        if end > self.mono:
            self.wall += end - self.mono
            self.mono = end

    def advance_until(self, cond):
        while not cond():
            if not self.timeline:
                return False
            t, fn = self.timeline.pop(0)
            if t > self.mono:
                self.wall += t - self.mono
                self.mono = t
            fn()
        return True

    def at(self, t, fn):
        self.timeline.append((t, fn))
        self.timeline.sort(key=lambda x: x[0])


class _StatResult:
    def __init__(self, mode, rdev=0, size=0):
        self.st_mode, self.st_rdev, self.st_size = mode, rdev, size
        self.st_dev = 0xfe00
        self.st_ino = 1
        self.st_nlink = 1
        self.st_uid = self.st_gid = 0
        self.st_atime = self.st_mtime = self.st_ctime = 0


class _SimRaw(io.RawIOBase):
    """Raw file whose first read may fail with ESRCH (process vanished after
    the open, or a zombie's environ/smaps_rollup)."""

    def __init__(self, world, path, data, esrch=False):
        self._w, self._path, self._data, self._pos = world, path, data, 0
        self._esrch = esrch
        self._first = True
        self.name = path

    def readable(self):
        return True

    def readinto(self, b):
        if self._first:
            self._first = False
            w = self._w
            m = re.match(re.escape(w.PROCFS) + r"/(\d+)(/|$)", self._path)
            if m:
                w._access("read", self._path)
                if w._proc_entry(int(m.group(1))) is None or self._esrch:
                    raise oserr(errno.ESRCH, self._path)
                if w.trace_reads:
                    w.log.append(("READ", self._path))
        n = min(len(b), len(self._data) - self._pos)
        b[:n] = self._data[self._pos:self._pos + n]
        self._pos += n
        return n


# ---------------------------------------------------------------------------
# module proxies
# ---------------------------------------------------------------------------

class FakePath:
    def __init__(self, w):
        self._w = w

    def __getattr__(self, name):
        return getattr(posixpath, name)

    def exists(self, path):
        try:
            self._w.sys_stat(path, op="exists")
        except (OSError, ValueError):
            return False
        return True

    def lexists(self, path):
        try:
            self._w.sys_stat(path, follow=False, op="lexists")
        except (OSError, ValueError):
            return False
        return True

    def isfile(self, path):
        try:
            st = self._w.sys_stat(path, op="isfile")
        except (OSError, ValueError):
            return False
        return _stat.S_ISREG(st.st_mode)

    def isdir(self, path):
        try:
            st = self._w.sys_stat(path, op="isdir")
        except (OSError, ValueError):
            return False
        return _stat.S_ISDIR(st.st_mode)

    def islink(self, path):
        try:
            st = self._w.sys_stat(path, follow=False, op="islink")
        except (OSError, ValueError):
            return False
        return _stat.S_ISLNK(st.st_mode)

    def realpath(self, path, **kw):
        w = self._w
        try:
            return w.resolve(path)[2]
        except OSError:
            return posixpath.normpath(path)


class Unmodelled(BaseException):
    """psutil asked the simulated kernel for something it does not model: the
    check cannot judge this tree (machinery failure, never a verdict)."""


class _DirEntry:
    def __init__(self, w, dirpath, name):
        self._w, self.name = w, name
        sep = b"/" if isinstance(dirpath, bytes) else "/"
        self.path = dirpath.rstrip(sep) + sep + name if dirpath not in (".", b".") else name

    def __fspath__(self):
        return self.path

    def __repr__(self):
        return "<DirEntry %r>" % (self.name,)

    def stat(self, follow_symlinks=True):
        return self._w.sys_stat(self.path, follow=follow_symlinks)

    def _is(self, pred, follow):
        try:
            return pred(self.stat(follow_symlinks=follow).st_mode)
        except OSError:
            return False

    def is_dir(self, follow_symlinks=True):
        return self._is(_stat.S_ISDIR, follow_symlinks)

    def is_file(self, follow_symlinks=True):
        return self._is(_stat.S_ISREG, follow_symlinks)

    def is_symlink(self):
        return self._is(_stat.S_ISLNK, False)

    def inode(self):
        return abs(hash(self.path)) % (2 ** 31)


class _ScanDir:
    def __init__(self, w, path, names):
        self._it = iter([_DirEntry(w, path, n) for n in names])

    def __iter__(self):
        return self

    def __next__(self):
        return next(self._it)

    def __enter__(self):
        return self

    def __exit__(self, *a):
        self.close()

    def close(self):
        self._it = iter(())


class FakeOS:
    """Stands in for the `os` module inside psutil's namespaces."""

    def __init__(self, w):
        self._w = w
        self.path = FakePath(w)

    def __getattr__(self, name):
        return getattr(_os, name)

    def _dirpath(self, path):
        if isinstance(path, int):
            h = self._raw(path)
            if not isinstance(h, FakeOS._DirHandle):
                raise Unmodelled("listing descriptor %r, which is not a simulated directory" % (path,))
            return h._path
        return path

    def listdir(self, path="."):
        return self._w.sys_listdir(self._dirpath(path))

    def scandir(self, path="."):
        # one getdents pass, like listdir(); entry types are looked up on demand
        path = self._dirpath(path)
        names = self._w.sys_listdir(path)
        return _ScanDir(self._w, path, names)

    # ---- process-directed calls psutil could make through `os` instead of
    # ---- its C extension: same simulated kernel, same records
    def getpriority(self, which, who):
        if which != _os.PRIO_PROCESS:
            raise Unmodelled("os.getpriority(which=%r)" % (which,))
        return self._w.fake_cext_posix.getpriority(who or self._w.caller_pid)

    def setpriority(self, which, who, prio):
        if which != _os.PRIO_PROCESS:
            raise Unmodelled("os.setpriority(which=%r)" % (which,))
        if isinstance(prio, float):
            raise TypeError("'float' object cannot be interpreted as an integer")
        return self._w.fake_cext_posix.setpriority(who or self._w.caller_pid, prio)

    def sched_getaffinity(self, pid):
        return set(self._w.fake_cext.proc_cpu_affinity_get(pid or self._w.caller_pid))

    def sched_setaffinity(self, pid, mask):
        cpus = list(mask)
        for c in cpus:
            if isinstance(c, int) and c < 0:
                raise ValueError("negative CPU number")
        return self._w.fake_cext.proc_cpu_affinity_set(pid or self._w.caller_pid, cpus)

    def getppid(self):
        return self._w.procs[self._w.caller_pid].ppid

    def getpgid(self, pid):
        if pid and self._w._proc_entry(pid) is None:
            raise oserr(errno.ESRCH)
        return pid or self._w.caller_pid          # every simulated process leads its own group

    getsid = getpgid

    def killpg(self, pgid, sig):
        return self._w.sys_kill(-pgid, sig)

    def _unmodelled(name):          # noqa: N805
        def f(self, *a, **k):
            raise Unmodelled("os.%s%r" % (name, a))
        f.__name__ = name
        return f

    # ---- descriptor-level reads of simulated files ------------------------
    _FD0 = 1 << 20

    class _DirHandle:
        """An open directory: the base of *at() calls and of listdir(fd)."""
        def __init__(self, path):
            self._path = path

    def _at(self, path, dir_fd):
        """The absolute spelling of *path* taken relative to the open directory *dir_fd*."""
        path = _os.fsdecode(path)
        if dir_fd is None or path.startswith("/"):
            return path
        h = self._raw(dir_fd)
        if not isinstance(h, FakeOS._DirHandle):
            raise Unmodelled("dir_fd=%r is not a simulated directory" % (dir_fd,))
        return h._path.rstrip("/") + "/" + path

    def open(self, path, flags=0, mode=0o777, *, dir_fd=None):
        if flags & (_os.O_WRONLY | _os.O_RDWR | _os.O_CREAT | _os.O_TRUNC | _os.O_APPEND):
            raise Unmodelled("os.open(%r, flags=%#o)" % (path, flags))
        path = self._at(path, dir_fd)
        w = self._w
        tab = w.__dict__.setdefault("_fdtab", {})
        try:
            isdir = w.resolve(path)[0] == "dir"
        except OSError:
            isdir = False
        if isdir:
            w.sys_listdir(path)         # (permission to search the directory is checked when it is opened)
            raw = FakeOS._DirHandle(posixpath.normpath(path))
        elif flags & getattr(_os, "O_DIRECTORY", 0):
            w.sys_stat(path, op="open")  # ENOENT / EACCES first
            raise oserr(errno.ENOTDIR, path)
        else:
            raw = w.sys_open(path)
        fd = self._FD0 + len(tab) + 1
        while fd in tab:
            fd += 1
        tab[fd] = raw
        return fd

    def _raw(self, fd):
        raw = self._w.__dict__.get("_fdtab", {}).get(fd)
        if raw is None:
            if isinstance(fd, int) and fd >= self._FD0:
                raise oserr(errno.EBADF)
        return raw

    def read(self, fd, n):
        raw = self._raw(fd)
        if raw is None:
            return _os.read(fd, n)
        if isinstance(raw, FakeOS._DirHandle):
            raise oserr(errno.EISDIR)
        buf = bytearray(n)
        k = raw.readinto(buf)
        return bytes(buf[:k or 0])

    def pread(self, fd, n, offset):
        raw = self._raw(fd)
        if raw is None:
            return _os.pread(fd, n, offset)
        old = raw._pos
        raw._pos = offset
        try:
            return self.read(fd, n)
        finally:
            raw._pos = old

    def lseek(self, fd, pos, how):
        raw = self._raw(fd)
        if raw is None:
            return _os.lseek(fd, pos, how)
        raw._pos = pos if how == 0 else (raw._pos + pos if how == 1 else len(raw._data) + pos)
        return raw._pos

    def close(self, fd):
        tab = self._w.__dict__.get("_fdtab", {})
        if fd in tab:
            del tab[fd]
            return None
        return _os.close(fd)

    def fdopen(self, fd, mode="r", buffering=-1, encoding=None, errors=None, **kw):
        raw = self._raw(fd)
        if raw is None:
            return _os.fdopen(fd, mode, buffering, encoding, errors, **kw)
        del self._w._fdtab[fd]
        buf = io.BufferedReader(raw, 8192)
        return buf if "b" in mode else io.TextIOWrapper(buf, encoding=encoding or "utf-8", errors=errors, newline=kw.get("newline"))

    def fstat(self, fd):
        raw = self._raw(fd)
        if raw is None:
            return _os.fstat(fd)
        return self._w.sys_stat(raw._path)

    for _n in ("wait", "wait3", "wait4", "waitid", "pidfd_open", "fork", "forkpty", "posix_spawn", "posix_spawnp",
               "setpgid", "sched_setscheduler", "sched_getscheduler", "sched_setparam", "sched_getparam",
               "sched_rr_get_interval", "openpty", "pipe", "pipe2"):
        locals()[_n] = _unmodelled(_n)
    del _n, _unmodelled

    def readlink(self, path, *, dir_fd=None):
        return self._w.sys_readlink(self._at(path, dir_fd))

    def stat(self, path, *, dir_fd=None, follow_symlinks=True):
        if isinstance(path, int):
            return self.fstat(path)
        return self._w.sys_stat(self._at(path, dir_fd), follow=follow_symlinks)

    def lstat(self, path, *, dir_fd=None):
        return self._w.sys_stat(self._at(path, dir_fd), follow=False, op="lstat")

    def access(self, path, mode):
        w = self._w
        try:
            st = w.sys_stat(path, op="access")
        except OSError:
            return False
        if mode & _os.X_OK and not (st.st_mode & 0o111) and not _stat.S_ISDIR(st.st_mode):
            return False
        return True

    def kill(self, pid, sig):
        return self._w.sys_kill(pid, sig)

    def waitpid(self, pid, flags):
        return self._w.sys_waitpid(pid, flags)

    def getpid(self):
        return self._w.caller_pid

    def sysconf(self, name):
        w = self._w
        if name == "SC_CLK_TCK":
            return w.clk_tck
        if name == "SC_NPROCESSORS_ONLN":
            if getattr(w, "sysconf_nproc_fails", False):
                raise ValueError("unrecognized configuration name")
            return w.ncpus
        if name == "SC_PAGE_SIZE" or name == "SC_PAGESIZE":
            return w.pagesize
        return _os.sysconf(name)

    def cpu_count(self):
        return self._w.ncpus

    def statvfs(self, path):
        w = self._w
        w._access("statvfs", path)
        v = w.statvfs_map.get(path)
        if v is None:
            raise oserr(errno.ENOENT, path)
        return types.SimpleNamespace(f_blocks=v[0], f_bfree=v[1], f_bavail=v[2],
                                     f_frsize=v[3], f_bsize=v[4] if len(v) > 4 else v[3], f_files=0,
                                     f_ffree=0, f_favail=0, f_flag=0, f_namemax=255)

    def walk(self, top, **kw):
        w = self._w
        try:
            names = w.sys_listdir(top)
        except OSError:
            return
        dirs, files = [], []
        for n in names:
            try:
                kind = w.resolve(posixpath.join(top, n))[0]
            except OSError:
                continue
            (dirs if kind == "dir" else files).append(n)
        yield top, dirs, files
        for d in dirs:
            yield from self.walk(posixpath.join(top, d))

    def getloadavg(self):
        return (0.0, 0.0, 0.0)

    def times(self):
        return _os.times()


class FakeGlob:
    def __init__(self, w):
        self._w = w

    def glob(self, pattern, **kw):
        return list(self.iglob(pattern))

    def iglob(self, pattern, **kw):
        w = self._w
        w._access("glob", pattern)
        parts = pattern.strip("/").split("/")
        cur = ["/"]
        for comp in parts:
            nxt = []
            magic = any(c in comp for c in "*?[")
            for base in cur:
                if magic:
                    try:
                        kind, payload, _ = w.resolve(base)
                    except OSError:
                        continue
                    if kind != "dir":
                        continue
                    for n in sorted(payload):
                        if fnmatch.fnmatchcase(n, comp) and not (n.startswith(".") and not comp.startswith(".")):
                            nxt.append(posixpath.join(base, n))
                else:
                    cand = posixpath.join(base, comp)
                    try:
                        w.node(cand) if cand in w.links else w.resolve(cand)
                    except OSError:
                        continue
                    nxt.append(cand)
            cur = nxt
        return iter(cur)

    def escape(self, s):
        import glob as g
        return g.escape(s)


class FakeTime:
    def __init__(self, w):
        self._w = w

    def __getattr__(self, name):
        import time as t
        return getattr(t, name)

    def monotonic(self):
        return self._w.monotonic()

    def time(self):
        return self._w.time()

    def sleep(self, d):
        return self._w.sleep(d)


class FakeResource:
    def __init__(self, w):
        self._w = w

    def __getattr__(self, name):
        import resource as r
        return getattr(r, name)

    def prlimit(self, pid, res, limits=None):
        import resource as r
        w = self._w
        w._access("prlimit", str(pid))
        ent = w._proc_entry(pid)
        if ent is None:
            raise oserr(errno.ESRCH)
        p = ent[0]
        e = p.deny.get("prlimit")
        if e is not None:
            raise oserr(e)
        if not isinstance(res, int):
            raise TypeError("an integer is required")
        if res < 0 or res >= 16:
            raise ValueError("invalid resource specified")
        old = p.rlimits.get(res, (r.RLIM_INFINITY, r.RLIM_INFINITY))
        if limits is not None:
            lim = tuple(limits)
            if len(lim) != 2:
                raise ValueError("expected a tuple of 2 integers")
            soft, hard = (r.RLIM_INFINITY if x == -1 else x for x in lim)
            inf = lambda x: 2 ** 64 if x == r.RLIM_INFINITY else x  # noqa: E731  (RLIM_INFINITY is -1 in Python)
            if inf(soft) > inf(hard):
                raise ValueError("current limit exceeds maximum limit")
            w.set_log.append(("rlimit", pid, (res, (soft, hard)), p.inc))
            p.rlimits[res] = (soft, hard)
        return old


class FakeCextPosix:
    def __init__(self, w, real):
        self._w, self._real = w, real

    def __getattr__(self, name):
        return getattr(self._real, name)

    def getpagesize(self):
        return self._w.pagesize

    def getpriority(self, pid):
        w = self._w
        w._access("getpriority", str(pid))
        ent = w._proc_entry(pid)
        if ent is None:
            raise oserr(errno.ESRCH)
        e = ent[0].deny.get("getpriority")
        if e is not None:
            raise oserr(e)
        return ent[0].nice

    def setpriority(self, pid, value):
        w = self._w
        w._access("setpriority", str(pid))
        ent = w._proc_entry(pid)
        if ent is None:
            raise oserr(errno.ESRCH)
        p = ent[0]
        e = p.deny.get("setpriority")
        if e is not None:
            raise oserr(e)
        if not isinstance(value, int):
            raise TypeError("an integer is required")
        v = max(-20, min(19, value))
        w.set_log.append(("nice", pid, v, p.inc))
        p.nice = v

    def net_if_addrs(self):
        return list(self._w.nic.get("addrs", []))

    def net_if_mtu(self, name):
        return self._w.nic["mtu"][name]

    def net_if_flags(self, name):
        return self._w.nic["flags"][name]


class FakeCext:
    def __init__(self, w, real):
        self._w, self._real = w, real

    def __getattr__(self, name):
        return getattr(self._real, name)

    def _p(self, pid, what):
        w = self._w
        w._access(what, str(pid))
        if not isinstance(pid, int):
            raise TypeError("an integer is required")
        ent = w._proc_entry(pid)
        if ent is None:
            raise oserr(errno.ESRCH)
        e = ent[0].deny.get(what)
        if e is not None:
            raise oserr(e)
        return ent[0]

    def proc_ioprio_get(self, pid):
        p = self._p(pid, "ioprio_get")
        return p.ioprio

    def proc_ioprio_set(self, pid, ioclass, value):
        p = self._p(pid, "ioprio_set")
        ioclass, value = int(ioclass), int(value)
        if ioclass not in (0, 1, 2, 3) or not 0 <= value <= 7 or (ioclass == 0 and value):
            raise oserr(errno.EINVAL)
        self._w.set_log.append(("ionice", pid, (ioclass, value), p.inc))
        p.ioprio = (ioclass, value)

    def proc_cpu_affinity_get(self, pid):
        p = self._p(pid, "affinity_get")
        w = self._w
        return sorted(p.affinity if p.affinity is not None else w.eligible(p))

    def proc_cpu_affinity_set(self, pid, cpus):
        p = self._p(pid, "affinity_set")
        w = self._w
        if not isinstance(cpus, (list, tuple)):
            raise TypeError("sequence argument expected")
        for c in cpus:
            if not isinstance(c, int):
                raise TypeError("an integer is required")
            if c < 0 or c >= 1024:
                raise ValueError("invalid CPU value")
        eff = set(cpus) & set(w.eligible(p))
        if not eff:
            raise oserr(errno.EINVAL)
        w.set_log.append(("affinity", pid, tuple(sorted(set(cpus))), p.inc))
        p.affinity = eff

    def linux_sysinfo(self):
        return self._w.sysinfo

    def users(self):
        return list(self._w.users_raw)

    def disk_partitions(self, path):
        return list(self._w.partitions_raw)

    def net_if_duplex_speed(self, name):
        return self._w.nic["duplex"][name]

    def check_pid_range(self, pid):
        return self._real.check_pid_range(pid)


def _eligible(self, p):
    txt = p.cpus_allowed_list
    if txt is None:
        return list(range(self.ncpus))
    out = []
    for part in txt.split(","):
        if "-" in part:
            a, b = part.split("-")
            out.extend(range(int(a), int(b) + 1))
        else:
            out.append(int(part))
    return out


World.eligible = _eligible


def sim_open_factory(w):
    def sim_open(fname, mode="r", buffering=-1, encoding=None, errors=None, **kw):
        if "w" in mode or "a" in mode or "+" in mode:
            raise oserr(errno.EROFS, fname)
        raw = w.sys_open(fname)
        bufsize = buffering if buffering and buffering > 0 else 8192
        buf = io.BufferedReader(raw, bufsize)
        if "b" in mode:
            return buf
        return io.TextIOWrapper(buf, encoding=encoding or "utf-8", errors=errors,
                                newline=kw.get("newline"))
    return sim_open


# ---------------------------------------------------------------------------
# import shim + installation
# ---------------------------------------------------------------------------

_VROOTS = ("/proc", "/sys", "/dev", "/etc/mtab")


class import_shim:
    """While psutil is being imported, route builtins.open / os.listdir /
    os.path.exists / os.sysconf for /proc, /sys paths to the world so the
    import-time samples and feature probes see the simulated kernel."""

    def __init__(self, w):
        self.w = w

    def __enter__(self):
        w = self.w
        self.saved = (builtins.open, _os.listdir, _os.path.exists, _os.sysconf,
                      _os.getpid, _os.stat)
        sim_open = sim_open_factory(w)
        fo = FakeOS(w)

        def is_v(p):
            if isinstance(p, bytes):
                p = p.decode("utf8", "surrogateescape")
            return isinstance(p, str) and p.startswith(_VROOTS)

        so, sl, se, ss, sg, sst = self.saved

        def o(f, *a, **k):
            return sim_open(f, *a, **k) if is_v(f) else so(f, *a, **k)

        def l(p="."):
            return fo.listdir(p) if is_v(p) else sl(p)

        def e(p):
            return fo.path.exists(p) if is_v(p) else se(p)

        def sc(n):
            return fo.sysconf(n)

        builtins.open, _os.listdir, _os.path.exists, _os.sysconf = o, l, e, sc
        _os.getpid = lambda: w.caller_pid
        return self

    def __exit__(self, *a):
        (builtins.open, _os.listdir, _os.path.exists, _os.sysconf,
         _os.getpid, _os.stat) = self.saved


def import_psutil(w):
    """Import psutil (from sys.path) under the shim and interpose *w*."""
    assert "psutil" not in sys.modules, "psutil already imported"
    if w.caller_pid not in w.procs:
        me = w.spawn(w.caller_pid, comm=b"harness", ppid=1, start=1)
        me.maps = [Mapping(path="/bin/harness", Rss=4, Pss=4, Size=4)]
    with import_shim(w):
        import psutil
    install(w)
    return psutil


def install(w):
    """Point every OS-facing name in psutil's namespaces at world *w*."""
    import inspect
    import psutil
    from psutil import _common, _pslinux, _psposix
    fo, fg, ft, fr = FakeOS(w), FakeGlob(w), FakeTime(w), FakeResource(w)
    so = sim_open_factory(w)
    real_cext = getattr(_pslinux.cext, "_real", _pslinux.cext)
    real_cp = getattr(_pslinux.cext_posix, "_real", _pslinux.cext_posix)
    w.fake_cext = FakeCext(w, real_cext)
    w.fake_cext_posix = FakeCextPosix(w, real_cp)
    import glob as _glob
    import resource as _resource
    import time as _time
    stand_ins = [((_os, FakeOS), fo), ((_glob, FakeGlob), fg), ((_time, FakeTime), ft), ((_resource, FakeResource), fr),
                 ((real_cext, FakeCext), w.fake_cext), ((real_cp, FakeCextPosix), w.fake_cext_posix)]
    for mod in (psutil, _common, _pslinux, _psposix):
        # whichever of these modules a layer imports, under whatever name, it gets the simulated one
        for name, val in list(vars(mod).items()):
            for (real, cls), fake in stand_ins:
                if val is real or isinstance(val, cls):
                    setattr(mod, name, fake)
        mod.open = so            # (a layer calling the builtin directly instead of _common.open_binary)
    _common.os, _pslinux.os, _psposix.os, psutil.os = fo, fo, fo, fo
    _pslinux.glob, _psposix.glob = fg, fg
    _psposix.time, psutil.time = ft, ft
    _pslinux.resource = fr
    _pslinux.cext, _pslinux.cext_posix = w.fake_cext, w.fake_cext_posix
    psutil._timer = w.monotonic
    # wait_pid binds _timer/_sleep/_pid_exists at definition time: rebuild the
    # defaults by parameter name
    sig = inspect.signature(_psposix.wait_pid)
    new = {"_waitpid": fo.waitpid, "_timer": w.monotonic, "_sleep": w.sleep}
    defaults = []
    for name, prm in sig.parameters.items():
        if prm.default is inspect.Parameter.empty:
            continue
        defaults.append(new.get(name, prm.default))
    _psposix.wait_pid.__defaults__ = tuple(defaults)
    w.installed = True
    return psutil

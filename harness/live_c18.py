"""C18, live target: real child processes, the REAL psutil (working-tree
build, optionally under ASan/UBSan) in a separate interpreter, and
independent channels to the live kernel.

Run as a script (`python live_c18.py`) this file is the worker: it imports
psutil from PYTHONPATH and serves JSON requests on stdin/stdout.  Imported, it
is the client side used by harness/props/c18.py.
"""
import ctypes
import json
import os
import platform
import resource
import signal
import subprocess
import sys
import tempfile

RLIM_NLIMITS = 16
INF = -1


# ===========================================================================
# worker (runs in the subprocess; no harness imports here)
# ===========================================================================

# resource numbers of the Linux ABI (include/uapi/asm-generic/resource.h)
RLIMIT_ABI = ["CPU", "FSIZE", "DATA", "STACK", "CORE", "RSS", "NPROC", "NOFILE", "MEMLOCK", "AS", "LOCKS",
              "SIGPENDING", "MSGQUEUE", "NICE", "RTPRIO", "RTTIME"]


def _worker():
    import psutil
    out = sys.stdout
    procs = {}

    def conv(v):
        if v is None or isinstance(v, (int, str, bool)):
            return v
        if isinstance(v, (list, tuple)):
            return [conv(x) for x in v]
        return repr(v)

    def one(c):
        try:
            p = procs[c["k"]]
            op = c["op"]
            # a realistic caller has a stale errno from some earlier, unrelated failure
            # in this thread (the getpriority(2) protocol depends on errno being reset)
            try:
                os.stat("/nonexistent-c18-%d" % (len(c.get("a", ())),))
            except OSError:
                pass
            if op == "nice":
                v = p.nice(*c["a"])
            elif op == "ionice":
                a = list(c["a"])
                if c.get("enum") and a and a[0] is not None:
                    a[0] = getattr(psutil, ["IOPRIO_CLASS_NONE", "IOPRIO_CLASS_RT", "IOPRIO_CLASS_BE",
                                            "IOPRIO_CLASS_IDLE"][a[0]])
                v = p.ionice(*a)
                if v is not None:
                    v = [int(v.ioclass), v.value]
            elif op == "cpu_affinity":
                v = p.cpu_affinity(*c["a"])
            elif op == "rlimit":
                a = list(c["a"])
                # the resource is named the way a caller names it: psutil.RLIMIT_<NAME>
                if a and isinstance(a[0], int) and 0 <= a[0] < len(RLIMIT_ABI):
                    a[0] = getattr(psutil, "RLIMIT_" + RLIMIT_ABI[a[0]], a[0])
                if len(a) > 1 and a[1] is not None:
                    a[1] = tuple(a[1]) if c.get("tuple", True) else list(a[1])
                v = p.rlimit(*a)
            else:
                raise RuntimeError("unknown op %r" % (op,))
            return {"r": "ok", "v": conv(v)}
        except psutil.AccessDenied as e:
            return {"r": "AccessDenied", "m": str(e)}
        except psutil.Error as e:
            return {"r": type(e).__name__, "m": str(e)}
        except ValueError as e:
            return {"r": "ValueError", "m": str(e)}
        except PermissionError as e:
            return {"r": "PermissionError", "m": str(e), "errno": e.errno}
        except OSError as e:
            return {"r": "OSError", "m": str(e), "errno": e.errno}
        except BaseException as e:  # noqa: BLE001
            return {"r": type(e).__name__, "m": str(e)}

    for line in sys.stdin:
        req = json.loads(line)
        c = req.get("c")
        if c == "hello":
            rep = {"file": psutil.__file__, "version": psutil.__version__, "pid": os.getpid(),
                   "ncpu": len(psutil.cpu_times(percpu=True)),
                   "rlimits": sorted((k, getattr(psutil, k)) for k in dir(psutil) if k.startswith("RLIMIT_")),
                   "ioclasses": [int(getattr(psutil, k)) for k in dir(psutil) if k.startswith("IOPRIO_CLASS_")]}
        elif c == "new":
            try:
                procs[req["k"]] = psutil.Process(req["pid"])
                rep = {"r": "ok"}
            except BaseException as e:  # noqa: BLE001
                rep = {"r": type(e).__name__, "m": str(e)}
        elif c == "drop":
            for k in req["ks"]:
                procs.pop(k, None)
            rep = {"r": "ok"}
        elif c == "setuid":
            os.setgroups([])
            os.setgid(req["uid"])
            os.setuid(req["uid"])
            rep = {"r": "ok", "uid": os.getuid()}
        elif c == "calls":
            rep = [one(x) for x in req["calls"]]
        elif c == "kaff":
            # the affinity system calls as this interpreter's libc sees them (CPython's own wrappers)
            try:
                if "set" in req:
                    os.sched_setaffinity(req["pid"], req["set"])
                rep = {"r": "ok", "v": sorted(os.sched_getaffinity(req["pid"]))}
            except OSError as e:
                rep = {"r": "OSError", "errno": e.errno}
        elif c == "quit":
            break
        else:
            rep = {"r": "bad request"}
        out.write(json.dumps(rep) + "\n")
        out.flush()


# ===========================================================================
# independent channels (harness side)
# ===========================================================================

_libc = ctypes.CDLL(None, use_errno=True)
_SYS = {"x86_64": (251, 252), "aarch64": (30, 31)}.get(platform.machine())
IOPRIO_WHO_PROCESS = 1


def raw_ioprio_get(pid):
    v = _libc.syscall(_SYS[1], IOPRIO_WHO_PROCESS, pid)
    if v < 0:
        raise OSError(ctypes.get_errno(), "ioprio_get")
    return (v >> 13, v & 0x1fff)


def raw_ioprio_set(pid, c, d):
    if _libc.syscall(_SYS[0], IOPRIO_WHO_PROCESS, pid, (c << 13) | d) < 0:
        raise OSError(ctypes.get_errno(), "ioprio_set")


_UNITS = {"unlimited": INF}


def read_limits_file(pid):
    """(soft, hard) per resource number from /proc/<pid>/limits."""
    names = ["Max cpu time", "Max file size", "Max data size", "Max stack size", "Max core file size",
             "Max resident set", "Max processes", "Max open files", "Max locked memory",
             "Max address space", "Max file locks", "Max pending signals", "Max msgqueue size",
             "Max nice priority", "Max realtime priority", "Max realtime timeout"]
    out = {}
    with open("/proc/%d/limits" % pid) as f:
        for line in f:
            for i, n in enumerate(names):
                if line.startswith(n + " "):
                    rest = line[len(n):].split()
                    out[i] = tuple(INF if x == "unlimited" else int(x) for x in rest[:2])
    return out


def _norm(x):
    # RLIM_INFINITY is shown by the resource module as -1; values >= 2**63 as negatives
    return x


def kstate(pids, with_limits_file=False):
    out = {"nice": [], "io": [], "ior": [], "aff": [], "rl": []}
    for pid in pids:
        out["nice"].append(os.getpriority(os.PRIO_PROCESS, pid))
        io = raw_ioprio_get(pid)
        out["io"].append(io)
        out["ior"].append(io)
        out["aff"].append(frozenset(os.sched_getaffinity(pid)))
        rl = tuple(tuple(resource.prlimit(pid, r)) for r in range(RLIM_NLIMITS))
        out["rl"].append(rl)
        if with_limits_file:
            lf = read_limits_file(pid)
            for r in range(RLIM_NLIMITS):
                if lf.get(r) != rl[r]:
                    raise LimitsFileMismatch("resource.prlimit(%d, %d) = %r but /proc/%d/limits shows %r"
                                             % (pid, r, rl[r], pid, lf.get(r)))
    return out


class LimitsFileMismatch(Exception):
    pass


def status_cpus_allowed_list(pid):
    with open("/proc/%d/status" % pid) as f:
        for line in f:
            if line.startswith("Cpus_allowed_list:"):
                return line.split(":", 1)[1].strip()
    return None


def has_cap_sys_resource():
    with open("/proc/self/status") as f:
        for line in f:
            if line.startswith("CapEff:"):
                return bool(int(line.split()[1], 16) >> 24 & 1)
    return False


def nr_open():
    try:
        return int(open("/proc/sys/fs/nr_open").read())
    except OSError:
        return 1048576


# ---- cpuset cgroups (eligible sets with holes on the live kernel) ----------

def _own_cpuset_dir():
    """Directory of this process's cpuset cgroup (v1 hierarchy), or None."""
    try:
        rel = None
        for line in open("/proc/self/cgroup"):
            hid, ctrls, path = line.rstrip("\n").split(":", 2)
            if "cpuset" in ctrls.split(","):
                rel = path
        if rel is None:
            return None
        for line in open("/proc/self/mountinfo"):
            parts = line.split()
            sep = parts.index("-")
            if parts[sep + 1] == "cgroup" and "cpuset" in parts[sep + 3].split(","):
                d = os.path.join(parts[4], rel.lstrip("/"))
                if os.path.isdir(d) and os.access(os.path.join(d, "cpuset.cpus"), os.W_OK):
                    return d
    except (OSError, ValueError):
        return None
    return None


class Cpusets:
    """Creates child cpuset cgroups on demand; removes them at close()."""

    def __init__(self):
        self.base = _own_cpuset_dir()
        self.made = []
        self.ok = self.base is not None

    def place(self, pid, cpus, tag):
        """Move *pid* into a fresh cpuset restricted to *cpus*."""
        from harness.sim_c18 import rangelist
        d = os.path.join(self.base, "c18-%d-%s" % (os.getpid(), tag))
        if d not in self.made:
            os.mkdir(d)
            self.made.append(d)
            with open(os.path.join(d, "cpuset.mems"), "w") as f:
                f.write(open(os.path.join(self.base, "cpuset.mems")).read().strip() or "0")
        with open(os.path.join(d, "cpuset.cpus"), "w") as f:
            f.write(rangelist(cpus))
        with open(os.path.join(d, "tasks"), "w") as f:
            f.write(str(pid))

    def probe(self):
        """Can a restricted cpuset actually be given to a child here?"""
        if not self.ok:
            return False
        try:
            allowed = sorted(os.sched_getaffinity(0))
            if len(allowed) < 2:
                self.ok = False
                return False
            kid = Child()
            try:
                self.place(kid.pid, allowed[:1], "probe")
                self.ok = os.sched_getaffinity(kid.pid) == {allowed[0]}
            finally:
                kid.kill()
        except OSError:
            self.ok = False
        return self.ok

    def close(self):
        for d in reversed(self.made):
            try:
                os.rmdir(d)
            except OSError:
                pass
        self.made = []


# ---- children --------------------------------------------------------------

class Child:
    """A forked child that blocks on a pipe until killed (or until the harness
    dies: EOF on the pipe and PR_SET_PDEATHSIG)."""

    def __init__(self):
        r, w = os.pipe()
        sys.stdout.flush()
        sys.stderr.flush()
        pid = os.fork()
        if pid == 0:
            try:
                os.close(w)
                _libc.prctl(1, signal.SIGKILL)      # PR_SET_PDEATHSIG
                while True:
                    try:
                        if not os.read(r, 1):
                            break
                    except InterruptedError:
                        continue
            finally:
                os._exit(0)
        os.close(r)
        self.pid, self._w = pid, w

    def alive(self):
        if self.pid is None:
            return False
        try:
            return os.waitid(os.P_PID, self.pid, os.WEXITED | os.WNOHANG | os.WNOWAIT) is None
        except OSError:
            return False

    def kill(self):
        if self.pid is None:
            return
        try:
            os.kill(self.pid, signal.SIGKILL)
        except OSError:
            pass
        try:
            os.waitpid(self.pid, 0)
        except OSError:
            pass
        try:
            os.close(self._w)
        except OSError:
            pass
        self.pid = None


# ---- the psutil interpreter --------------------------------------------------

class SanitizerReport(Exception):
    pass


class Worker:
    def __init__(self, unprivileged=False, preload=None):
        snap = os.environ["VERIF_SNAPSHOT"]
        env = dict(os.environ)
        env["PYTHONPATH"] = snap
        env.pop("PYTHONHOME", None)
        self.asan = os.environ.get("VERIF_ASAN") == "1"
        if self.asan:
            rt = subprocess.run(["clang", "-print-file-name=libclang_rt.asan-x86_64.so"],
                                stdout=subprocess.PIPE).stdout.decode().strip()
            env["LD_PRELOAD"] = rt
            env["ASAN_OPTIONS"] = "detect_leaks=0:abort_on_error=0:exitcode=86"
            env["UBSAN_OPTIONS"] = "print_stacktrace=1:halt_on_error=0"
        if preload:
            env["LD_PRELOAD"] = (env.get("LD_PRELOAD", "") + " " + preload).strip()
        base = "/dev/shm" if os.path.isdir("/dev/shm") else tempfile.gettempdir()
        self.errf = tempfile.NamedTemporaryFile(prefix="c18-worker-", suffix=".err", dir=base)
        self.p = subprocess.Popen(["/venv/bin/python", "-u", os.path.abspath(__file__).replace(".pyc", ".py")],
                                  stdin=subprocess.PIPE, stdout=subprocess.PIPE, stderr=self.errf,
                                  env=env, cwd="/")
        self.info = self.req({"c": "hello"})
        if not self.info["file"].startswith(snap):
            raise RuntimeError("worker imported psutil from %s, not from the snapshot" % self.info["file"])
        self.unprivileged = unprivileged
        if unprivileged:
            self.req({"c": "setuid", "uid": 65534})

    def req(self, obj):
        try:
            self.p.stdin.write((json.dumps(obj) + "\n").encode())
            self.p.stdin.flush()
            line = self.p.stdout.readline()
        except (BrokenPipeError, OSError):
            line = b""
        if not line:
            rc = self.p.wait()
            raise SanitizerReport("the psutil interpreter exited abnormally (status %s) during %s\n%s"
                                  % (rc, json.dumps(obj)[:300], self.stderr_text()[-3000:]))
        return json.loads(line)

    def calls(self, calls):
        return self.req({"c": "calls", "calls": calls})

    def stderr_text(self):
        try:
            with open(self.errf.name, "rb") as f:
                return f.read().decode("utf8", "replace")
        except OSError:
            return ""

    def close(self):
        """Stop the interpreter; raise SanitizerReport if it complained."""
        rc = None
        try:
            if self.p.poll() is None:
                try:
                    self.p.stdin.write(b'{"c": "quit"}\n')
                    self.p.stdin.flush()
                    self.p.stdin.close()
                except OSError:
                    pass
                try:
                    rc = self.p.wait(timeout=20)
                except subprocess.TimeoutExpired:
                    self.p.kill()
                    rc = self.p.wait()
            else:
                rc = self.p.returncode
        finally:
            txt = self.stderr_text()
            try:
                self.errf.close()
            except OSError:
                pass
        if "AddressSanitizer" in txt or "runtime error:" in txt or "UndefinedBehaviorSanitizer" in txt:
            raise SanitizerReport("sanitizer report from the psutil interpreter:\n" + txt[-4000:])
        if rc not in (0, None):
            raise SanitizerReport("the psutil interpreter exited with status %s\n%s" % (rc, txt[-3000:]))


if __name__ == "__main__":
    _worker()

"""C18: kernel state and syscall rules simkernel lacks, applied at run time
to one World / one interposed psutil (nothing in simkernel.py is edited).

* /proc/<pid>/status shows, as fs/proc/array.c does, the task's CURRENT
  affinity mask in "Cpus_allowed_list" (a range list); the cpuset (eligible
  CPUs) is separate state that sched_setaffinity intersects the request with.
* ioprio_get reports class NONE either as stored or (kernel flavour
  "derived") as best-effort with a level derived from nice.
* prlimit: RLIM_INFINITY is the largest value, soft > hard is EINVAL (which
  CPython turns into ValueError), a hard limit above fs.nr_open for
  RLIMIT_NOFILE is EPERM, raising a hard limit without CAP_SYS_RESOURCE is
  EPERM, another user's process is EPERM for get and set.
* sched_setaffinity as psutil's C wrapper presents it: -1 is a ValueError,
  numbers outside the cpu_set_t are dropped, an empty effective mask is EINVAL.
"""
import errno
import resource as _resource

from harness.simkernel import Proc, oserr

NR_OPEN = 1048576
RLIM_NLIMITS = 16
NOFILE = _resource.RLIMIT_NOFILE
INF = -1                      # resource.RLIM_INFINITY as Python shows it
U64 = 2 ** 64


def rangelist(cpus):
    """cpumask -> the kernel's %*pbl text: '0-1,3'."""
    cpus = sorted(cpus)
    out, i = [], 0
    while i < len(cpus):
        j = i
        while j + 1 < len(cpus) and cpus[j + 1] == cpus[j] + 1:
            j += 1
        out.append("%d" % cpus[i] if i == j else "%d-%d" % (cpus[i], cpus[j]))
        i = j + 1
    return ",".join(out)


def parse_rangelist(txt):
    out = set()
    for part in txt.strip().split(","):
        if not part:
            continue
        if "-" in part:
            a, b = part.split("-")
            out.update(range(int(a), int(b) + 1))
        else:
            out.add(int(part))
    return out


class C18Proc(Proc):
    """A process whose status file shows its current mask."""

    def __init__(self, *a, **k):
        self.c18_elig = None
        super().__init__(*a, **k)

    @property
    def cpus_allowed_list(self):
        if self.c18_elig is None:
            return None
        return rangelist(self.affinity if self.affinity is not None else self.c18_elig)

    @cpus_allowed_list.setter
    def cpus_allowed_list(self, v):
        pass


def _u(x):
    return x + U64 if x < 0 else x


def install(w, ps, flavor="stored", sysres=True):
    """Patch the interposed psutil of world *w* with the C18 kernel rules."""
    pl = ps._pslinux
    cext, res = pl.cext, pl.resource
    w.c18 = {"flavor": flavor, "sysres": sysres}

    def eligible(p):
        if getattr(p, "c18_elig", None) is not None:
            return sorted(p.c18_elig)
        return list(range(w.ncpus))
    w.eligible = eligible

    def proc_ioprio_get(pid):
        p = cext._p(pid, "ioprio_get")
        return report_ioprio(w, p)

    def proc_cpu_affinity_set(pid, cpus):
        p = cext._p(pid, "affinity_set")
        if not isinstance(cpus, (list, tuple)):
            raise TypeError("sequence argument expected, got %r" % type(cpus))
        mask = set()
        for c in cpus:
            if not isinstance(c, int) or isinstance(c, bool):
                raise TypeError("an integer is required")
            if c == -1:
                raise ValueError("invalid CPU value")
            if 0 <= c < 1024:
                mask.add(c)
        eff = mask & set(eligible(p))
        if not eff:
            raise oserr(errno.EINVAL)
        w.set_log.append(("affinity", pid, tuple(sorted(mask)), p.inc))
        p.affinity = eff

    def prlimit(pid, resource_, limits=None):
        w._access("prlimit", str(pid))
        if not isinstance(pid, int) or not isinstance(resource_, int):
            raise TypeError("an integer is required")
        if resource_ < 0 or resource_ >= RLIM_NLIMITS:
            raise ValueError("invalid resource specified")
        lim = None
        if limits is not None:
            try:
                lim = tuple(limits)
            except TypeError:
                raise TypeError("expected a tuple of 2 integers") from None
            if len(lim) != 2:
                raise ValueError("expected a tuple of 2 integers")
            for x in lim:
                if not isinstance(x, int):
                    raise TypeError("an integer is required")
                if not -2 ** 63 <= x < 2 ** 63:
                    raise OverflowError("Python int too large to convert to C long")
        ent = w._proc_entry(pid)
        if ent is None:
            raise oserr(errno.ESRCH)
        p = ent[0]
        e = p.deny.get("prlimit")
        if e is not None:
            raise oserr(e)
        old = p.rlimits.get(resource_, (INF, INF))
        if lim is not None:
            soft, hard = lim
            if _u(soft) > _u(hard):
                raise ValueError("current limit exceeds maximum limit")
            if resource_ == NOFILE and _u(hard) > NR_OPEN:
                raise oserr(errno.EPERM)
            if _u(hard) > _u(old[1]) and not w.c18["sysres"]:
                raise oserr(errno.EPERM)
            norm = tuple(INF if _u(x) == U64 - 1 else x for x in lim)
            w.set_log.append(("rlimit", pid, (resource_, norm), p.inc))
            p.rlimits[resource_] = norm
        return old

    cext.proc_ioprio_get = proc_ioprio_get
    cext.proc_cpu_affinity_set = proc_cpu_affinity_set
    res.prlimit = prlimit


def report_ioprio(w, p):
    c, d = p.ioprio
    if c == 0 and w.c18["flavor"] == "derived":
        return (2, (p.nice + 20) // 5)
    return (c, d)


DENY = {"setpriority": errno.EPERM, "ioprio_set": errno.EPERM, "affinity_set": errno.EPERM,
        "prlimit": errno.EPERM}


def spawn(w, pid, elig, denied=False, start=50):
    p = C18Proc(pid, inc=w.next_inc, comm=b"c18", ppid=1, start=start)
    w.next_inc += 1
    p.c18_elig = set(elig)
    p.affinity = set(elig)
    p.nice = 0
    p.ioprio = (0, 0)
    p.rlimits = {}
    p.deny = dict(DENY) if denied else {}
    w.procs[pid] = p
    return p


def kstate(w, pids):
    """Kernel state of the processes as an independent observer sees it."""
    out = {"nice": [], "io": [], "ior": [], "aff": [], "rl": []}
    for pid in pids:
        p = w.procs[pid]
        out["nice"].append(p.nice)
        out["io"].append(tuple(p.ioprio))
        out["ior"].append(tuple(report_ioprio(w, p)))
        out["aff"].append(frozenset(p.affinity))
        out["rl"].append(tuple(tuple(p.rlimits.get(r, (INF, INF))) for r in range(RLIM_NLIMITS)))
    return out

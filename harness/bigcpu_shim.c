/* LD_PRELOAD shim: the affinity system calls of a machine with 256 possible
 * CPUs, for the interpreter it is loaded into.  Masks are kept per PID in a
 * small table (default: all 256 CPUs).  As the kernel does, sched_getaffinity
 * fails with EINVAL when the buffer is smaller than the kernel's mask and
 * sched_setaffinity ignores bits beyond the possible CPUs and fails with
 * EINVAL when none is left.  Everything else goes to the real kernel. */
#define _GNU_SOURCE
#include <errno.h>
#include <sched.h>
#include <string.h>
#include <sys/types.h>
#include <unistd.h>

#define NBYTES 32            /* 256 possible CPUs */
#define NSLOTS 16

static struct { pid_t pid; int used; unsigned char m[NBYTES]; } tab[NSLOTS];

static unsigned char *slot(pid_t pid) {
    int i;
    if (pid == 0)
        pid = getpid();
    for (i = 0; i < NSLOTS; i++)
        if (tab[i].used && tab[i].pid == pid)
            return tab[i].m;
    for (i = 0; i < NSLOTS; i++)
        if (!tab[i].used) {
            tab[i].used = 1;
            tab[i].pid = pid;
            memset(tab[i].m, 0xff, NBYTES);
            return tab[i].m;
        }
    return NULL;
}

int sched_getaffinity(pid_t pid, size_t size, cpu_set_t *mask) {
    unsigned char *m;
    if (pid < 0) { errno = ESRCH; return -1; }
    if (size < NBYTES || (size & (sizeof(unsigned long) - 1))) { errno = EINVAL; return -1; }
    m = slot(pid);
    if (m == NULL) { errno = ESRCH; return -1; }
    memset(mask, 0, size);
    memcpy(mask, m, NBYTES);
    return 0;
}

int sched_setaffinity(pid_t pid, size_t size, const cpu_set_t *mask) {
    unsigned char nm[NBYTES], *m;
    size_t i, any = 0;
    if (pid < 0) { errno = ESRCH; return -1; }
    memset(nm, 0, NBYTES);
    memcpy(nm, mask, size < NBYTES ? size : NBYTES);
    for (i = 0; i < NBYTES; i++)
        any |= nm[i];
    if (!any) { errno = EINVAL; return -1; }
    m = slot(pid);
    if (m == NULL) { errno = ESRCH; return -1; }
    memcpy(m, nm, NBYTES);
    return 0;
}

"""Kernel state and renderers for C13 that simkernel lacks: /proc/<pid>/smaps and
/proc/<pid>/smaps_rollup rendered line by line as fs/proc/task_mmu.c does on
this kernel generation (header `lo-hi perms offset maj:min inode ` padded to
column 73 before the name; `%-16s%8lu kB` figure lines in the kernel's order;
THPeligible / ProtectionKey / VmFlags tails), and a /proc/meminfo with a chosen
MemTotal.

The abstract mapping is the record of spec/ProcMem.tla:
  {lo, hi (pages), perms, name, deleted, kb{line: kB}, opts{line: bool}}
plus rendering-only facts chosen here (offset, device, inode, the figures of
the lines the API never reports: Pss_Dirty, SwapPss, KSM, ... all NON-zero so
that a prefix-matching regression changes an answer)."""
import re

# kernel order of the figure lines of one smaps block (6.x)
SMAPS_ORDER = ["Size", "KernelPageSize", "MMUPageSize", "Rss", "Pss", "Pss_Dirty",
               "Shared_Clean", "Shared_Dirty", "Private_Clean", "Private_Dirty",
               "Referenced", "Anonymous", "KSM", "LazyFree", "AnonHugePages",
               "ShmemPmdMapped", "FilePmdMapped", "Shared_Hugetlb", "Private_Hugetlb",
               "Swap", "SwapPss", "Locked"]
ROLLUP_ORDER = ["Rss", "Pss", "Pss_Dirty", "Pss_Anon", "Pss_File", "Pss_Shmem",
                "Shared_Clean", "Shared_Dirty", "Private_Clean", "Private_Dirty",
                "Referenced", "Anonymous", "KSM", "LazyFree", "AnonHugePages",
                "ShmemPmdMapped", "FilePmdMapped", "Shared_Hugetlb", "Private_Hugetlb",
                "Swap", "SwapPss", "Locked"]
# the lines every kernel since 2.6.x prints (the ones the API reports)
CORE = ("Size", "Rss", "Pss", "Shared_Clean", "Shared_Dirty", "Private_Clean",
        "Private_Dirty", "Referenced", "Anonymous", "Swap")
# lines that newer kernels added and the API must ignore ("Extras" option of the spec)
EXTRAS = ("KernelPageSize", "MMUPageSize", "Pss_Dirty", "KSM", "LazyFree", "AnonHugePages",
          "ShmemPmdMapped", "FilePmdMapped", "SwapPss", "Locked")
# distinct non-zero figures (kB, before scaling) of the ignored lines of mapping number k
_NOISE = {"KernelPageSize": 4, "MMUPageSize": 4, "Pss_Dirty": 37, "KSM": 41, "LazyFree": 43,
          "AnonHugePages": 47, "ShmemPmdMapped": 53, "FilePmdMapped": 59, "SwapPss": 61,
          "Locked": 67, "Shared_Hugetlb": 71}


def noise(line, k, S):
    if line in ("KernelPageSize", "MMUPageSize"):
        return _NOISE[line]
    return (_NOISE[line] + k) * S


def header(lo, hi, perms, offset, dev, inode, shown):
    """One header line exactly as show_map_vma() prints it."""
    h = "%08x-%08x %s %08x %02x:%02x %d " % (lo, hi, perms, offset, dev[0], dev[1], inode)
    if shown:
        h = h.ljust(73) + shown
    return h.encode("utf8", "surrogateescape")


def figure(line, v):
    """SEQ_PUT_DEC(): a label padded to 16 characters that always ends in a blank, then the
    figure right-aligned in 8 columns (growing when wider).  The one 15-letter name,
    Private_Hugetlb, gets a 17-character label and 7 columns (task_mmu.c __show_smap)."""
    if line == "Private_Hugetlb":
        return b"Private_Hugetlb: %7d kB" % v
    assert len(line) < 16
    return ("%-16s%8d kB" % (line + ":", v)).encode()


def shown_name(m):
    return m["name"] + (" (deleted)" if m["deleted"] and m["name"] else "")


def addr_of(page, amul, pagesize=4096):
    return page * pagesize * amul


def render_smaps(maps, S=1, amul=1, pagesize=4096):
    """bytes of /proc/<pid>/smaps for the abstract mappings, figures scaled by S,
    addresses spread by the multiplier amul (so 8- to 16-digit ranges occur)."""
    out = []
    for k, m in enumerate(maps, 1):
        shown = shown_name(m)
        isfile = shown.startswith("/")
        dev = ((0xfe, 0), (8, 1), (0x103, 5))[k % 3] if isfile else (0, 0)
        inode = (320173 + 7919 * k) if isfile else 0
        offset = (k - 1) * pagesize if isfile else 0
        out.append(header(addr_of(m["lo"], amul, pagesize), addr_of(m["hi"], amul, pagesize),
                          m["perms"], offset, dev, inode, shown))
        o = m["opts"]
        for line in SMAPS_ORDER:
            if line in CORE:
                out.append(figure(line, m["kb"][line] * S))
            elif line in EXTRAS:
                if o.get("Extras"):
                    out.append(figure(line, noise(line, k, S)))
            elif line == "Private_Hugetlb":
                if o.get("Private_Hugetlb"):
                    out.append(figure(line, m["kb"]["Private_Hugetlb"] * S))
            elif line == "Shared_Hugetlb":
                if o.get("Private_Hugetlb"):     # the two lines were added together (4.4)
                    out.append(figure(line, noise(line, k, S)))
        if o.get("THPeligible"):     # "%8u" since 5.18; two tabs and "%d" on 4.20 .. 5.17
            out.append(b"THPeligible:    %8d" % 1 if k % 2 else b"THPeligible:\t\t0")
        if o.get("ProtectionKey"):
            out.append(b"ProtectionKey:  %8d" % (k % 16))
        if o.get("VmFlags"):
            out.append(b"VmFlags: rd " + (b"wr " if "w" in m["perms"] else b"") + b"mr mw me sd ")
    return b"\n".join(out) + (b"\n" if out else b"")


def rollup_totals(maps, S=1):
    """The kernel's own sums over all mappings, per line name."""
    tot = {}
    for k, m in enumerate(maps, 1):
        o = m["opts"]
        for line in CORE:
            tot[line] = tot.get(line, 0) + m["kb"][line] * S
        if o.get("Private_Hugetlb"):
            tot["Private_Hugetlb"] = tot.get("Private_Hugetlb", 0) + m["kb"]["Private_Hugetlb"] * S
            tot["Shared_Hugetlb"] = tot.get("Shared_Hugetlb", 0) + noise("Shared_Hugetlb", k, S)
        if o.get("Extras"):
            for line in EXTRAS:
                if line not in ("KernelPageSize", "MMUPageSize"):
                    tot[line] = tot.get(line, 0) + noise(line, k, S)
    return tot


def render_rollup(maps, S=1, amul=1, pagesize=4096):
    tot = rollup_totals(maps, S)
    lo = addr_of(maps[0]["lo"], amul, pagesize) if maps else 0
    hi = addr_of(maps[-1]["hi"], amul, pagesize) if maps else 0
    out = [header(lo, hi, "---p", 0, (0, 0), 0, "[rollup]")]
    modern = "Pss_Dirty" in tot
    for line in ROLLUP_ORDER:
        if line in ("Size",):
            continue
        if line in ("Pss_Anon", "Pss_File", "Pss_Shmem"):
            if modern:     # the break-down of Pss exists only in the roll-up (5.4+)
                share = {"Pss_Anon": 2, "Pss_File": 3, "Pss_Shmem": 5}[line]
                out.append(figure(line, tot.get("Pss", 0) // share + S))
            continue
        if line in tot:
            out.append(figure(line, tot[line]))
    return b"\n".join(out) + b"\n"


def render_meminfo(total_kb):
    t = total_kb
    rows = [("MemTotal", t), ("MemFree", t // 4), ("MemAvailable", t // 2), ("Buffers", t // 20),
            ("Cached", t // 5), ("SwapCached", 0), ("Active", t // 3), ("Inactive", t // 6),
            ("Active(anon)", t // 8), ("Inactive(anon)", t // 16), ("Active(file)", t // 7),
            ("Inactive(file)", t // 9), ("Unevictable", 0), ("Mlocked", 0), ("SwapTotal", t // 2),
            ("SwapFree", t // 2), ("Dirty", 8), ("Writeback", 0), ("AnonPages", t // 10),
            ("Mapped", t // 12), ("Shmem", t // 50), ("KReclaimable", t // 40), ("Slab", t // 30),
            ("SReclaimable", t // 40), ("SUnreclaim", t // 120)]
    return "".join("%-16s%8d kB\n" % (k + ":", v) for k, v in rows).encode()


# --------------------------------------------------------------------------
# calibration: the renderer reproduces this kernel's own text byte for byte
# --------------------------------------------------------------------------

_HDR = re.compile(rb"^([0-9a-f]+)-([0-9a-f]+) (\S{4}) ([0-9a-f]+) ([0-9a-f]+):([0-9a-f]+) (\d+) (.*)$")


def calibrate(path="/proc/self/smaps"):
    """Parse one read of a live smaps file into (header facts, figure lines) and
    re-render it with header()/figure(); return a list of mismatching line
    pairs (empty = the renderer's formats are the live kernel's), the number of
    lines compared and the set of figure-line names met."""
    try:
        with open(path, "rb") as f:
            data = f.read()
    except OSError:
        return None, 0, set()
    bad, n, names = [], 0, set()
    for line in data.split(b"\n"):
        if not line:
            continue
        n += 1
        m = _HDR.match(line)
        if m:
            lo, hi, perms, off, maj, mnr, ino, rest = m.groups()
            shown = rest.strip(b" ").decode("utf8", "surrogateescape")
            again = header(int(lo, 16), int(hi, 16), perms.decode(), int(off, 16),
                           (int(maj, 16), int(mnr, 16)), int(ino), shown)
        else:
            name, _, rest = line.partition(b":")
            names.add(name.decode())
            f = rest.split()
            if len(f) == 2 and f[1] == b"kB":
                again = figure(name.decode(), int(f[0]))
            elif name == b"THPeligible":
                again = b"THPeligible:    %8d" % int(f[0])
            elif name == b"ProtectionKey":
                again = b"ProtectionKey:  %8d" % int(f[0])
            elif name == b"VmFlags":
                again = b"VmFlags: " + b"".join(x + b" " for x in f)
            else:
                again = None
        if again != line:
            bad.append((line, again))
    return bad, n, names

"""Generic spec -> code replay plumbing shared by the state-machine checks."""
import json
import os
import random
import shutil

from harness import core, forkpool, graph, tlc


def tour_jobs(ctx, g, per_class=None, edge_class=None, maxlen=60):
    """Segments (lists of event dicts, each starting at an initial state)
    covering every transition of g, or *per_class* transitions of every class."""
    if g.unreachable:
        raise core.Machinery("dump has %d transitions unreachable from Init (non-canonical state rendering)"
                             % g.unreachable)
    only = None
    if per_class is not None and edge_class is not None:
        rnd = random.Random(ctx.seed)
        order = list(range(len(g.edges)))
        rnd.shuffle(order)
        cnt, only = {}, []
        for ei in order:
            c = edge_class(g, ei)
            if cnt.get(c, 0) < per_class:
                cnt[c] = cnt.get(c, 0) + 1
                only.append(ei)
    segs = g.tour(maxlen=maxlen, only=only)
    return [(g.edges[seg[0]][0], [g.edges[e][1] for e in seg]) for seg in segs]


def sim_behaviours(ctx, module, name, consts, num, depth, constraints=()):
    """Random behaviours from `tlc -simulate`: list of (init_state_dict, [ev...])."""
    d = tlc.scratch()
    cfg = os.path.join(d, name + ".cfg")
    tlc.write_cfg(cfg, consts, constraints=constraints)
    r = tlc.run(module, cfg, workers=1, timeout=900,
                simulate="file=%s/b,num=%d" % (d, num), depth=depth, seed=ctx.seed)
    ctx.tlc(name, r)
    out = []
    for f in sorted(os.listdir(d)):
        if f.startswith("b_"):
            beh = tlc.parse_sim_file(os.path.join(d, f))
            if len(beh) >= 2:
                out.append((beh[0][1], [st["ev"] for _, st in beh[1:]]))
    shutil.rmtree(d, ignore_errors=True)
    if not out:
        raise core.Machinery("simulation %s produced no behaviours" % name)
    return out


def run_jobs(ctx, name, jobs, run_fn, sig_fn, kind, count_ops=None, nontrivial=None):
    """jobs: list of picklable items whose last element is the event list.
    run_fn(job) -> {'steps': n} | {'step': i, 'mismatch': text, 'event': e}."""
    res = forkpool.map_fork(run_fn, jobs)
    steps = 0
    ops = {}
    for job, (st, val) in zip(jobs, res):
        events = job[-1]
        if st != "ok":
            raise core.Machinery("replay worker failed (%s): %s" % (st, val))
        if "mismatch" in val:
            ctx.disagree("conf:" + sig_fn(val["event"]),
                         "code and specification disagree at step %d of a %s behaviour: %s"
                         % (val["step"], kind, val["mismatch"]),
                         {"job": list(job[:-1]), "events": events[:val["step"] + 1]})
            steps += val["step"]
        else:
            steps += val["steps"]
        for e in events:
            k = "%s:%s" % (e["op"], e.get("res") if not isinstance(e.get("res"), (dict, list)) else "..")
            ops[k] = ops.get(k, 0) + 1
            if nontrivial is None or nontrivial(e):
                ctx.case(json.dumps(e, sort_keys=True))
    ctx.cov["replayed_transitions"] += steps
    ctx.cov["traces_validated_against_impl"] += len(jobs)
    ctx.cov.setdefault("replay", {})[name] = {"behaviours": len(jobs), "steps": steps,
                                              "op_result_classes": ops}
    if jobs:
        ctx.sample({"kind": kind, "events": jobs[len(jobs) // 2][-1][:12]})
    return ops


def confirm_trace(ctx, r, run_fn, make_job, sig_fn):
    """TLC reported a violation on the algorithm matching the tree: replay its
    counterexample on the real code and report."""
    evs = tlc.trace_events(r.trace)
    parsed = []
    for label, txt in evs:
        try:
            parsed.append(tlc.parse_value(txt))
        except Exception:  # noqa: BLE001
            parsed.append({"op": "?", "raw": txt})
    job = make_job(parsed[1:])
    st, val = forkpool.fork_call(run_fn, job)
    confirmed = st == "ok" and "mismatch" not in val
    last = parsed[-1] if parsed else {}
    ctx.disagree("model:%s:%s" % (r.violated, sig_fn(last)),
                 "TLC: %s violated by the algorithm of the working tree in %d steps "
                 "(%s on the real code: %s)\n%s"
                 % (r.violated, len(parsed) - 1,
                    "behaviour reproduced" if confirmed else "NOT reproduced", val,
                    "\n".join("%s %s" % x for x in evs)),
                 {"events": parsed[1:], "property": r.violated})
    return parsed, confirmed

"""Labelled transition graph from a TLC dump and a greedy transition tour."""
import collections
import json
import re


_STR = re.compile(r'"((?:[^"\\]|\\.)*)"')


class Graph:
    def __init__(self, lines):
        """lines: raw `<<"TR", "<json view>", "<json ev'>", "<json view'>", level>>`
        lines printed by the spec's DumpL.  States are kept as opaque strings
        (parsed lazily by state()); only the event records are parsed."""
        self.ids = {}
        self._cc = {}
        self._raw = []
        self._parsed = {}
        self.edges = []          # (s, evdict, t)
        self.out = collections.defaultdict(list)
        self.inits = []
        seen = set()
        for line in lines:
            parts = _STR.findall(line)
            if len(parts) != 4:
                continue
            _, s_raw, e_raw, t_raw = parts
            level = int(line[line.rindex(",") + 1:line.rindex(">>")])
            s = self._id(self._canon(s_raw))
            t = self._id(self._canon(t_raw))
            ev = json.loads(json.loads('"' + e_raw + '"'))
            key = (s, json.dumps(ev, sort_keys=True), t)
            if key in seen:
                continue
            seen.add(key)
            if level == 1 and s not in self.inits:
                self.inits.append(s)
            self.out[s].append(len(self.edges))
            self.edges.append((s, ev, t))
        self.states = _LazyStates(self)
        # every transition must be reachable from an initial state, otherwise
        # the dump's state rendering is not canonical (machinery failure)
        par = self.bfs_parents()
        self.unreachable = sum(1 for (s, _, _) in self.edges if s not in par)
        self._cc = None
        self.ids = None

    def _canon(self, raw):
        """ToJson emits record fields in no fixed order: canonicalise."""
        c = self._cc.get(raw)
        if c is None:
            c = self._cc[raw] = json.dumps(json.loads(json.loads('"' + raw + '"')),
                                           sort_keys=True, separators=(",", ":"))
        return c

    def _id(self, raw):
        i = self.ids.get(raw)
        if i is None:
            i = self.ids[raw] = len(self._raw)
            self._raw.append(raw)
        return i

    def state(self, i):
        st = self._parsed.get(i)
        if st is None:
            st = self._parsed[i] = json.loads(self._raw[i])
        return st

    def bfs_parents(self):
        par = {s: None for s in self.inits}
        q = collections.deque(self.inits)
        while q:
            s = q.popleft()
            for ei in self.out[s]:
                t = self.edges[ei][2]
                if t not in par:
                    par[t] = ei
                    q.append(t)
        return par

    def path_to(self, par, s):
        path = []
        while par[s] is not None:
            ei = par[s]
            path.append(ei)
            s = self.edges[ei][0]
        path.reverse()
        return path

    def tour(self, maxlen=80, only=None, lookahead=4):
        """Cover every edge (or the subset *only*) with segments that each
        start at an initial state.  Returns list of lists of edge indices."""
        par = self.bfs_parents()
        want = set(range(len(self.edges))) if only is None else set(only)
        want = {e for e in want if self.edges[e][0] in par}
        untaken = set(want)
        # per-state list of still-untaken wanted edges
        pend = collections.defaultdict(list)
        for e in sorted(want):
            pend[self.edges[e][0]].append(e)
        depth = {}
        for s in par:
            depth[s] = len(self.path_to(par, s)) if len(par) < 20000 else 0
        order = sorted(want, key=lambda e: (depth.get(self.edges[e][0], 0), e))
        segs = []
        for e0 in order:
            if e0 not in untaken:
                continue
            seg = self.path_to(par, self.edges[e0][0])
            for e in seg:
                untaken.discard(e)
            seg.append(e0)
            untaken.discard(e0)
            cur = self.edges[e0][2]
            while len(seg) < maxlen:
                nxt = None
                while pend[cur]:
                    c = pend[cur].pop()
                    if c in untaken:
                        nxt = [c]
                        break
                if nxt is None:
                    nxt = self._nearest(cur, untaken, pend, lookahead)
                if nxt is None:
                    break
                for e in nxt:
                    seg.append(e)
                    untaken.discard(e)
                cur = self.edges[seg[-1]][2]
            segs.append(seg)
        return segs

    def _nearest(self, cur, untaken, pend, lookahead):
        """BFS (bounded) from cur to a state with an untaken edge; returns the
        connecting edges plus that edge."""
        q = collections.deque([(cur, [])])
        seen = {cur}
        while q:
            s, path = q.popleft()
            if len(path) >= lookahead:
                continue
            for ei in self.out[s]:
                t = self.edges[ei][2]
                if t in seen:
                    continue
                seen.add(t)
                while pend[t]:
                    c = pend[t][-1]
                    if c in untaken:
                        pend[t].pop()
                        return path + [ei, c]
                    pend[t].pop()
                q.append((t, path + [ei]))
        return None


class _LazyStates:
    def __init__(self, g):
        self.g = g

    def __getstate__(self):
        return {"g": self.g}

    def __getitem__(self, i):
        return self.g.state(i)

    def __len__(self):
        return len(self.g._raw)


def from_dump(r):
    """Graph of a tlc.dump_cached() result; the built graph is itself cached
    (pickle) next to the dump, keyed by the dump's key."""
    import os
    import pickle
    path = getattr(r, "cache_path", None)
    if path:
        gp = path[:-len(".txt.gz")] + ".graph.pkl"
        if os.path.exists(gp):
            with open(gp, "rb") as f:
                return pickle.load(f)
    g = Graph(r.tr)
    if path:
        tmp = gp + ".tmp%d" % os.getpid()
        with open(tmp, "wb") as f:
            pickle.dump(g, f, protocol=pickle.HIGHEST_PROTOCOL)
        os.replace(tmp, gp)
    return g

"""Kernel state and renderers for C08: /proc/meminfo, /proc/zoneinfo, /proc/vmstat
and sysinfo(2), rendered from the abstract input records of spec/MemInfo.tla.

The texts follow fs/proc/meminfo.c (``"%-15s %8lu kB\\n"`` lines in the kernel's
order, `HugePages_*` lines without a unit), mm/vmstat.c (``zoneinfo_show_print``:
one block per zone with the min/low/high watermarks in pages; ``vmstat_show``:
``name value`` lines).  Fields psutil does not use are rendered too, with
figures of their own, so that a confused column or prefix match is visible."""

import errno

ABSENT = -1
PROC = "/proc"

# (meminfo name, key of the abstract record | None, constant kB figure of a distractor)
# in the order fs/proc/meminfo.c prints them; the 2.4-era names sit where that kernel had them
MEMINFO_LINES = [
    ("MemTotal", "total", None),
    ("MemFree", "free", None),
    ("MemShared", "memshared", None),
    ("MemAvailable", "mavail", None),
    ("Buffers", "buffers", None),
    ("Cached", "cached", None),
    ("SwapCached", None, 7001),
    ("Active", "active", None),
    ("Inact_dirty", "inact_d", None),
    ("Inact_laundry", "inact_l", None),
    ("Inact_clean", "inact_c", None),
    ("Inactive", "inactive", None),
    ("Active(anon)", None, 7002),
    ("Inactive(anon)", None, 7003),
    ("Active(file)", "afile", None),
    ("Inactive(file)", "ifile", None),
    ("Unevictable", None, 7004),
    ("Mlocked", None, 7005),
    ("SwapTotal", "stotal", None),
    ("SwapFree", "sfree", None),
    ("Dirty", None, 7006),
    ("Writeback", None, 7007),
    ("AnonPages", None, 7008),
    ("Mapped", None, 7009),
    ("Shmem", "shmem", None),
    ("KReclaimable", None, 7010),
    ("Slab", "slab", None),
    ("SReclaimable", "srecl", None),
    ("SUnreclaim", None, 7011),
    ("KernelStack", None, 7012),
    ("PageTables", None, 7013),
    ("CommitLimit", None, 7014),
    ("Committed_AS", None, 7015),
    ("VmallocTotal", None, 34359738367),
    ("ShmemHugePages", None, 7016),
    ("HugePages_Total", None, "nounit"),
    ("HugePages_Free", None, "nounit"),
    ("Hugepagesize", None, 2048),
    ("DirectMap4k", None, 7017),
]

VM_DEFAULT = {"total": 100, "free": 20, "buffers": 6, "cached": 14, "srecl": 10, "shmem": 3,
              "memshared": ABSENT, "active": 31, "inactive": 27, "inact_d": ABSENT,
              "inact_c": ABSENT, "inact_l": ABSENT, "slab": 12, "mavail": 45, "afile": 10,
              "ifile": 16, "zone": True, "lows": [1]}
SWAP_DEFAULT = {"stotal": 64, "sfree": 48, "sys": [65536, 49152, 1], "vmstat": True,
                "pin": 3, "pout": 7}


def render_meminfo(rec, S=1):
    out = []
    for name, key, const in MEMINFO_LINES:
        if key is not None:
            v = rec.get(key, ABSENT)
            if v == ABSENT:
                continue
            out.append("%-15s %8d kB\n" % (name + ":", v * S))
        elif const == "nounit":
            out.append("%-15s %8d\n" % (name + ":", 0))
        else:
            out.append("%-15s %8d kB\n" % (name + ":", const))
    return "".join(out).encode()


_ZONES = ["DMA", "Normal", "HighMem", "Movable"]


def render_zoneinfo(lows, S=1, layout=None):
    out = []
    if layout is None:
        layout = (sum(lows) + len(lows) + S) % 3
    for n, low in enumerate(lows):
        low = low * S
        out.append("Node 0, zone %8s\n" % _ZONES[n % len(_ZONES)])
        if n == 0:
            out.append("  per-node stats\n      nr_inactive_anon 7101\n      nr_active_anon 7102\n"
                       "      nr_inactive_file 7103\n      nr_active_file 7104\n")
        out.append("  pages free     %d\n" % 7105)
        # mm/vmstat.c over the years: 2.6-4.x print min/low/high (+ scanned), 5.0 adds boost
        # in front, 6.x adds promo behind; every kernel without MemAvailable has the first form
        if layout != 1:
            out.append("        boost    %d\n" % (0 if layout == 0 else 7112))
        out.append("        min      %d\n" % (low * 4 // 5))
        out.append("        low      %d\n" % low)
        out.append("        high     %d\n" % (low + low // 5))
        if layout == 1:
            out.append("        scanned  7113\n")
        if layout == 2:
            out.append("        promo    %d\n" % (low + low // 4))
        out.append("        spanned  7106\n        present  7107\n        managed  7108\n        cma      0\n")
        out.append("        protection: (0, 7109, 7110, 7110)\n")
        out.append("      nr_free_pages 7105\n      nr_zone_inactive_anon 7111\n")
        out.append("  pagesets\n    cpu: 0\n              count: 7\n              high:  14\n              batch: 1\n")
        out.append("  vm stats threshold: 10\n  node_unreclaimable:  0\n  start_pfn:           %d\n" % (1 + n * 4096))
    return "".join(out).encode()


def render_vmstat(pin, pout, S=1):
    out = ["nr_free_pages 7201\n", "nr_zone_inactive_anon 7202\n", "pgpgin 7203\n", "pgpgout 7204\n"]
    if pin != ABSENT:
        out.append("pswpin %d\n" % (pin * S))
    if pout != ABSENT:
        out.append("pswpout %d\n" % (pout * S))
    out += ["pgalloc_dma 7205\n", "pgfree 7206\n", "pgfault 7207\n", "swap_ra 7208\n", "swap_ra_hit 7209\n"]
    return "".join(out).encode()


def install(w, inp, S=1):
    """Make world *w* present the abstract input *inp* (a MemInfo.tla input record, kB /
    pages / sysinfo units) with every magnitude multiplied by S."""
    rec = dict(VM_DEFAULT)
    rec.update(SWAP_DEFAULT)
    rec.update(inp)
    w.files[PROC + "/meminfo"] = render_meminfo(rec, S)
    for p in (PROC + "/zoneinfo", PROC + "/vmstat"):
        w.files.pop(p, None)
    if rec["zone"]:
        w.files[PROC + "/zoneinfo"] = render_zoneinfo(rec["lows"], S)
    w.deny.pop(PROC + "/vmstat", None)
    if rec["vmstat"]:
        w.files[PROC + "/vmstat"] = render_vmstat(rec["pin"], rec["pout"], S)
    elif (S + len(rec.get("lows", ()))) % 2:
        # not missing but masked (a container runtime, an LSM): present in the listing, refused when opened
        w.files[PROC + "/vmstat"] = render_vmstat(7, 8, S)
        w.deny[PROC + "/vmstat"] = errno.EACCES
    tot, free, unit = rec["sys"]
    # struct sysinfo: totalram, freeram, bufferram, sharedram, totalswap, freeswap, mem_unit
    w.sysinfo = (7301, 7302, 7303, 7304, tot * S, free * S, unit)
    return rec

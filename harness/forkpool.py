"""Run jobs in forked children so that every job starts from the pristine
module state of the parent (template) process."""
import json
import os
import pickle
import signal
import struct
import sys
import traceback


def _run_child(fn, item, wfd):
    try:
        res = ("ok", fn(item))
    except BaseException:  # noqa: BLE001
        res = ("exc", traceback.format_exc())
    data = pickle.dumps(res)
    with os.fdopen(wfd, "wb") as f:
        f.write(data)
    os._exit(0)


def fork_call(fn, item, timeout=None):
    """Run fn(item) in a forked child; return ('ok', result) | ('exc', tb) |
    ('died', status)."""
    rfd, wfd = os.pipe()
    sys.stdout.flush()
    sys.stderr.flush()
    pid = os.fork()
    if pid == 0:
        os.close(rfd)
        if timeout:
            signal.alarm(int(timeout))
        _run_child(fn, item, wfd)
    os.close(wfd)
    chunks = []
    with os.fdopen(rfd, "rb") as f:
        while True:
            b = f.read(1 << 16)
            if not b:
                break
            chunks.append(b)
    _, status = os.waitpid(pid, 0)
    data = b"".join(chunks)
    if not data:
        return ("died", status)
    return pickle.loads(data)


def map_fork(fn, items, nproc=16, per_item_fork=True, timeout=120):
    """Apply fn to every item; each item runs in its own forked grandchild of
    one of *nproc* lieutenant processes.  Returns results in order."""
    items = list(items)
    if not items:
        return []
    nproc = max(1, min(nproc, len(items)))
    shares = [list(range(i, len(items), nproc)) for i in range(nproc)]
    pipes = []
    sys.stdout.flush()
    sys.stderr.flush()
    for share in shares:
        rfd, wfd = os.pipe()
        pid = os.fork()
        if pid == 0:
            os.close(rfd)
            for r, _, _ in pipes:
                os.close(r)
            out = []
            for idx in share:
                if per_item_fork:
                    out.append((idx, fork_call(fn, items[idx], timeout)))
                else:
                    try:
                        out.append((idx, ("ok", fn(items[idx]))))
                    except BaseException:  # noqa: BLE001
                        out.append((idx, ("exc", traceback.format_exc())))
            with os.fdopen(wfd, "wb") as f:
                f.write(pickle.dumps(out))
            os._exit(0)
        os.close(wfd)
        pipes.append((rfd, pid, share))
    results = [None] * len(items)
    for rfd, pid, share in pipes:
        chunks = []
        with os.fdopen(rfd, "rb") as f:
            while True:
                b = f.read(1 << 16)
                if not b:
                    break
                chunks.append(b)
        os.waitpid(pid, 0)
        data = b"".join(chunks)
        if not data:
            for idx in share:
                results[idx] = ("died", -1)
            continue
        for idx, res in pickle.loads(data):
            results[idx] = res
    return results

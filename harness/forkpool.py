"""Run jobs in forked children so that every job starts from the pristine
module state of a template process.

A pool of lieutenant processes is forked EARLY (while the parent is still
small); each lieutenant runs the template initialiser (imports psutil under
the shim) and then serves jobs: for every job it forks a child, the child runs
fn(item) and pipes the pickled result back.  Forking from the small lieutenant
instead of the (graph-laden) parent keeps fork() cheap."""
import os
import pickle
import signal
import struct
import sys
import traceback

_POOL = None


def _send(fd, obj):
    data = pickle.dumps(obj, protocol=pickle.HIGHEST_PROTOCOL)
    os.write(fd, struct.pack("<Q", len(data)))
    view = memoryview(data)
    while view:
        n = os.write(fd, view[:1 << 20])
        view = view[n:]


def _recv(fd):
    hdr = b""
    while len(hdr) < 8:
        b = os.read(fd, 8 - len(hdr))
        if not b:
            return None
        hdr += b
    n = struct.unpack("<Q", hdr)[0]
    chunks = []
    while n:
        b = os.read(fd, min(n, 1 << 20))
        if not b:
            return None
        chunks.append(b)
        n -= len(b)
    return pickle.loads(b"".join(chunks))


def _run_child(fn, item, wfd):
    try:
        res = ("ok", fn(item))
    except BaseException:  # noqa: BLE001
        res = ("exc", traceback.format_exc())
    try:
        _send(wfd, res)
    finally:
        os._exit(0)


def fork_call(fn, item, timeout=None):
    """Run fn(item) in a forked child of the *current* process."""
    rfd, wfd = os.pipe()
    sys.stdout.flush()
    sys.stderr.flush()
    pid = os.fork()
    if pid == 0:
        os.close(rfd)
        if timeout:
            signal.alarm(int(timeout))
        _run_child(fn, item, wfd)
    os.close(wfd)
    res = _recv(rfd)
    os.close(rfd)
    _, status = os.waitpid(pid, 0)
    if res is None:
        return ("died", status)
    return res


class Pool:
    def __init__(self, nproc=16, init=None):
        self.lts = []
        sys.stdout.flush()
        sys.stderr.flush()
        for _ in range(nproc):
            p2c_r, p2c_w = os.pipe()
            c2p_r, c2p_w = os.pipe()
            pid = os.fork()
            if pid == 0:
                os.close(p2c_w)
                os.close(c2p_r)
                for (_, w, r) in self.lts:
                    os.close(w)
                    os.close(r)
                try:
                    if init:
                        init()
                    while True:
                        msg = _recv(p2c_r)
                        if msg is None:
                            break
                        fn, items, per_item_fork, timeout = msg
                        out = []
                        for it in items:
                            if per_item_fork:
                                out.append(fork_call(fn, it, timeout))
                            else:
                                try:
                                    out.append(("ok", fn(it)))
                                except BaseException:  # noqa: BLE001
                                    out.append(("exc", traceback.format_exc()))
                        _send(c2p_w, out)
                except BaseException:  # noqa: BLE001
                    traceback.print_exc()
                finally:
                    os._exit(0)
            os.close(p2c_r)
            os.close(c2p_w)
            self.lts.append((pid, p2c_w, c2p_r))

    def map(self, fn, items, per_item_fork=True, timeout=120):
        items = list(items)
        n = len(self.lts)
        shares = [list(range(i, len(items), n)) for i in range(n)]
        results = [None] * len(items)
        # send in a helper thread-free way: messages are small relative to the
        # pipe only if chunked; use a forked sender to avoid deadlock
        import threading

        def sender():
            for (pid, w, r), share in zip(self.lts, shares):
                if share:
                    _send(w, (fn, [items[i] for i in share], per_item_fork, timeout))
        th = threading.Thread(target=sender)
        th.start()
        for (pid, w, r), share in zip(self.lts, shares):
            if not share:
                continue
            out = _recv(r)
            if out is None:
                for i in share:
                    results[i] = ("died", -1)
                continue
            for i, res in zip(share, out):
                results[i] = res
        th.join()
        return results

    def close(self):
        for pid, w, r in self.lts:
            try:
                os.close(w)
                os.close(r)
            except OSError:
                pass
        for pid, w, r in self.lts:
            try:
                os.waitpid(pid, 0)
            except OSError:
                pass
        self.lts = []


def start(nproc=16, init=None):
    """Fork the lieutenants now (call this before loading large data)."""
    global _POOL
    if _POOL is None:
        _POOL = Pool(nproc, init)
    return _POOL


def map_fork(fn, items, nproc=16, per_item_fork=True, timeout=120):
    pool = start(nproc)
    return pool.map(fn, items, per_item_fork, timeout)


def shutdown():
    global _POOL
    if _POOL is not None:
        _POOL.close()
        _POOL = None

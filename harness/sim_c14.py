"""Kernel pieces C14 needs beyond simkernel's defaults, applied to a World
*instance* at run time (no edit of the shared class):

* /proc/<pid>/fdinfo/<n> rendered exactly as fs/proc/fd.c:seq_show() prints it
  ("pos:\\t%lli\\nflags:\\t0%o\\nmnt_id:\\t%i\\nino:\\t%lu\\n");
* a descriptor can be closed by its owner right before the j-th access the
  scanning code makes to that descriptor's fd/<n> or fdinfo/<n> entry
  (j = 1: before the link is read; j = 2: before fdinfo is opened; j = 3:
  after fdinfo was opened, before it is read -- the kernel looks the
  descriptor up again at read time and the read fails with ENOENT);
* the kernel's transformation of open(2) flags into the number fdinfo shows;
* live calibration of all of the above against the running kernel.
"""
import errno
import os
import re
import tempfile
import types

from harness import simkernel
from harness.simkernel import Fd, World, oserr

# flag names of spec/ProcFds.tla -> the host's bit values
BITS = {"APPEND": os.O_APPEND, "CREAT": os.O_CREAT, "TRUNC": os.O_TRUNC,
        "CLOEXEC": os.O_CLOEXEC, "LARGEFILE": getattr(os, "O_LARGEFILE", 0) or 0o100000,
        "NONBLOCK": os.O_NONBLOCK, "DSYNC": os.O_DSYNC,
        "NOATIME": getattr(os, "O_NOATIME", 0o1000000), "DIRECT": getattr(os, "O_DIRECT", 0o40000)}
NOT_KEPT = ("CREAT", "TRUNC")       # fs/open.c strips O_CREAT|O_EXCL|O_NOCTTY|O_TRUNC from f_flags

TARGETS = {"socket": "socket:[4242]", "pipe": "pipe:[4343]", "anon": "anon_inode:[eventpoll]",
           "dev": "/dev/null", "dir": "/v/dir", "rel": "(unreachable)/x/f"}


def kernel_word(acc, fl):
    """The number the kernel prints in fdinfo for a file opened with access
    mode *acc* and the named flags."""
    w = acc
    for f in fl:
        if f not in NOT_KEPT:
            w |= BITS[f]
    return w


def fdinfo_bytes(pos, word, mnt_id=25, ino=3, locks=()):
    """fs/proc/fd.c:seq_show(): the four fixed lines, then one 'lock:' line per
    advisory lock held through the descriptor (fs/locks.c:show_fd_locks)."""
    out = b"pos:\t%d\nflags:\t0%o\nmnt_id:\t%d\nino:\t%d\n" % (pos, word, mnt_id, ino)
    for i, (kind, mode, owner) in enumerate(locks, 1):
        out += b"lock:\t%d: %s  ADVISORY  %s %d 00:19:%d 0 EOF\n" % (i, kind, mode, owner, ino)
    return out


def locks_of(pid, fd):
    """Locks are no part of what open_files() reports: which descriptors hold
    one is fixed by the descriptor number (every third holds a flock, every
    fifth a POSIX lock as well)."""
    out = []
    if fd % 3 == 0:
        out.append((b"FLOCK", b"WRITE", pid))
    if fd % 5 == 0:
        out.append((b"POSIX", b"READ", pid))
    return out


class _FdinfoRaw(simkernel._SimRaw):
    """fdinfo content is produced when the file is READ: a descriptor closed
    after open() but before read() makes the read fail with ENOENT."""

    def __init__(self, world, path, pid, fd):
        super().__init__(world, path, b"")
        self._pid, self._fd = pid, fd

    def readinto(self, b):
        if self._first:
            self._first = False
            w = self._w
            w._access("read", self._path)
            p = w.procs.get(self._pid)
            if p is None:
                raise oserr(errno.ESRCH, self._path)
            d = p.fds.get(self._fd)
            if d is None or p.state == "Z":
                raise oserr(errno.ENOENT, self._path)
            self._data = fdinfo_bytes(d.pos, d.flags, locks=locks_of(self._pid, self._fd))
        n = min(len(b), len(self._data) - self._pos)
        b[:n] = self._data[self._pos:self._pos + n]
        self._pos += n
        return n


def install(w):
    """Patch the World instance (idempotent)."""
    if getattr(w, "c14", None) is not None:
        return w.c14
    st = types.SimpleNamespace(plan={}, cnt={}, fired={}, pid=None)
    w.c14 = st
    orig_access = w._access
    orig_open = w.sys_open
    pat = re.compile(re.escape(w.PROCFS) + r"/(\d+)/(fd|fdinfo)/(\d+)$")

    def _access(op, path):
        m = pat.match(path) if isinstance(path, str) else None
        if m and int(m.group(1)) == st.pid:
            n = int(m.group(3))
            st.cnt[n] = c = st.cnt.get(n, 0) + 1
            if st.plan.get(n) == c:
                p = w.procs.get(st.pid)
                if p is not None and n in p.fds:
                    del p.fds[n]            # the owner closes the descriptor now
                    st.fired[n] = (c, op)
        return orig_access(op, path)

    def sys_open(path, binary=True):
        if isinstance(path, bytes):
            path = path.decode("utf8", "surrogateescape")
        m = pat.match(path)
        if m and m.group(2) == "fdinfo":
            w._access("open", path)
            pid, n = int(m.group(1)), int(m.group(3))
            p = w.procs.get(pid)
            if p is None or p.state == "Z" or n not in p.fds:
                raise oserr(errno.ENOENT, path)
            return _FdinfoRaw(w, path, pid, n)
        return orig_open(path, binary)

    w._access = _access
    w.sys_open = sys_open
    return st


def reset(w, pid):
    st = install(w)
    st.plan, st.cnt, st.fired, st.pid = {}, {}, {}, pid
    return st


# ---------------------------------------------------------------------------
# live calibration
# ---------------------------------------------------------------------------

def calibrate():
    """Compare the renderer and the access semantics above with the running
    kernel.  Returns (n_checked, mismatches, skipped)."""
    bad, skipped, n = [], [], 0
    d = tempfile.mkdtemp(prefix="c14cal-")
    path = os.path.join(d, "f")
    with open(path, "wb") as f:
        f.write(b"0123456789" * 10)
    forced = set()
    try:
        names = ["APPEND", "CREAT", "TRUNC", "CLOEXEC", "LARGEFILE", "NONBLOCK", "DSYNC", "NOATIME"]
        subsets = []
        for m in range(32):
            subsets.append([names[i] for i in range(5) if m >> i & 1])
        subsets += [["LARGEFILE", "NONBLOCK"], ["LARGEFILE", "DSYNC", "APPEND"], ["LARGEFILE", "NOATIME", "CLOEXEC"]]
        for acc in range(4):
            for fl in subsets:
                word = acc
                for x in fl:
                    if x != "CLOEXEC":
                        word |= BITS[x]
                try:
                    fd = os.open(path, word)      # Python adds O_CLOEXEC itself ...
                except OSError as e:
                    skipped.append("open(%o): %s" % (word, e))
                    continue
                try:
                    os.set_inheritable(fd, "CLOEXEC" not in fl)   # ... so set the bit explicitly
                    pos = 0
                    if acc != 3:
                        pos = os.lseek(fd, 7 + acc, os.SEEK_SET)
                    live = open("/proc/self/fdinfo/%d" % fd, "rb").read()
                    lw = int(live.split(b"\n")[1].split()[1], 8)
                    if "LARGEFILE" not in fl and lw & BITS["LARGEFILE"]:
                        # 64-bit kernels force O_LARGEFILE on every open(2): this table
                        # entry cannot be produced here
                        forced.add(acc)
                        continue
                    mine = fdinfo_bytes(pos, kernel_word(acc, fl))
                    n += 1
                    if live.split(b"\n")[:2] != mine.split(b"\n")[:2] or \
                            [l.split(b":")[0] for l in live.split(b"\n")[:4]] != [b"pos", b"flags", b"mnt_id", b"ino"]:
                        bad.append("fdinfo for open flags 0%o: kernel %r, renderer %r" % (word, live, mine))
                    if os.readlink("/proc/self/fd/%d" % fd) != path:
                        bad.append("fd link target %r" % os.readlink("/proc/self/fd/%d" % fd))
                finally:
                    os.close(fd)
        if forced:
            skipped.append("flag words without O_LARGEFILE cannot be produced on this kernel (forced on open)")
        # lock lines
        import fcntl
        fd = os.open(path, os.O_RDWR)
        try:
            fcntl.flock(fd, fcntl.LOCK_EX)
            fcntl.lockf(fd, fcntl.LOCK_SH)
            live = open("/proc/self/fdinfo/%d" % fd, "rb").read().split(b"\n")
            mine = fdinfo_bytes(0, 0o100002, locks=[(b"FLOCK", b"WRITE", os.getpid()), (b"POSIX", b"READ", os.getpid())]).split(b"\n")
            rx = re.compile(br"lock:\t\d+: (FLOCK|POSIX)  ADVISORY  (READ|WRITE) \d+ [0-9a-f]+:[0-9a-f]+:\d+ 0 EOF$")
            n += 1
            ll = [l for l in live if l.startswith(b"lock:")]
            ml = [l for l in mine if l.startswith(b"lock:")]
            if len(ll) != 2 or not all(rx.match(l) for l in ll):
                skipped.append("lock lines of this kernel look different: %r" % (ll,))
            elif not all(rx.match(l) for l in ml) or live.index(ll[0]) != 4:
                bad.append("lock lines: kernel %r, renderer %r" % (ll, ml))
        except OSError as e:
            skipped.append("advisory locks: %s" % e)
        finally:
            os.close(fd)
        # closing semantics
        fd = os.open(path, os.O_RDONLY)
        fi = open("/proc/self/fdinfo/%d" % fd, "rb", buffering=0)
        os.close(fd)
        for what, fn in (("read of an opened fdinfo after close", fi.read),
                         ("readlink after close", lambda: os.readlink("/proc/self/fd/%d" % fd)),
                         ("open of fdinfo after close", lambda: open("/proc/self/fdinfo/%d" % fd, "rb"))):
            n += 1
            try:
                fn()
                bad.append("%s succeeded on the live kernel" % what)
            except OSError as e:
                if e.errno != errno.ENOENT:
                    bad.append("%s: errno %d, simulated ENOENT" % (what, e.errno))
        fi.close()
        # ' (deleted)' suffix and the other kinds of targets
        fd = os.open(path, os.O_RDONLY)
        os.unlink(path)
        n += 1
        if os.readlink("/proc/self/fd/%d" % fd) != path + " (deleted)":
            bad.append("unlinked target %r" % os.readlink("/proc/self/fd/%d" % fd))
        os.close(fd)
        r, wr = os.pipe()
        import socket
        s = socket.socket()
        checks = [(r, r"pipe:\[\d+\]$", "pipe"), (s.fileno(), r"socket:\[\d+\]$", "socket")]
        try:
            import select
            ep = select.epoll()
            checks.append((ep.fileno(), r"anon_inode:\[eventpoll\]$", "anon"))
        except (ImportError, OSError, AttributeError) as e:
            ep = None
            skipped.append("epoll: %s" % e)
        dn = os.open("/dev/null", os.O_RDWR)
        checks.append((dn, r"/dev/null$", "dev"))
        for fdn, rx, kind in checks:
            n += 1
            t = os.readlink("/proc/self/fd/%d" % fdn)
            if not re.match(rx, t) or not re.match(rx, TARGETS[kind]):
                bad.append("%s target %r vs simulated %r" % (kind, t, TARGETS[kind]))
        for x in (r, wr, dn):
            os.close(x)
        s.close()
        if ep is not None:
            ep.close()
        # /proc/<pid>/io layout
        try:
            live = open("/proc/self/io", "rb").read()
            w = World()
            p = w.spawn(5)
            mine = w.render_io(p)
            n += 1
            shape = lambda b: [re.sub(rb"\d+", b"N", l) for l in b.split(b"\n")]  # noqa: E731
            if shape(live) != shape(mine):
                bad.append("/proc/self/io layout: kernel %r, renderer %r" % (live, mine))
        except OSError as e:
            skipped.append("/proc/self/io: %s" % e)
    finally:
        import shutil
        shutil.rmtree(d, ignore_errors=True)
    return n, bad, skipped

"""Runs inside a private network namespace: builds interfaces whose names and addresses sit at the
kernel's limits, then prints psutil's view next to the kernel's own (procfs + ioctl), as JSON."""
import fcntl, json, os, socket, struct, sys

SIOCBRADDBR, SIOCGIFFLAGS, SIOCSIFFLAGS, SIOCSIFADDR = 0x89A0, 0x8913, 0x8914, 0x8916
SIOCGIFMTU, SIOCSIFMTU, SIOCGIFHWADDR = 0x8921, 0x8922, 0x8927
NICS = [("verif-bridge-15", 1431, ["fe80:1111:2222:3333:4444:5555:6666:7777", "fe80::1",
                                   "2001:db8:1111:2222:3333:4444:5555:6666"], "10.201.202.203"),
        ("verif-bridge14", 1377, ["fe80:aaaa:bbbb:cccc:dddd:eeee:ffff:1234"], "192.168.250.251"),
        ("b", 1290, ["fe80::2"], None),
        ("verif.br:0-x%y", 1312, ["fe80:1:2:3:4:5:6:7"], None)]


def private_netns():
    try:
        os.unshare(os.CLONE_NEWNET)
        return
    except OSError:
        pass
    uid, gid = os.getuid(), os.getgid()
    os.unshare(os.CLONE_NEWUSER | os.CLONE_NEWNET)
    for name, text in (("setgroups", "deny"), ("uid_map", "0 %d 1" % uid), ("gid_map", "0 %d 1" % gid)):
        try:
            with open("/proc/self/" + name, "w") as f:
                f.write(text)
        except OSError:
            pass


def ifr(name, fmt="", *vals):
    return struct.pack("16s" + fmt, name.encode(), *vals).ljust(40, b"\0")


def setup():
    private_netns()
    made = []
    with socket.socket(socket.AF_INET, socket.SOCK_DGRAM) as s:
        for name, mtu, v6, v4 in NICS:
            try:
                fcntl.ioctl(s, SIOCBRADDBR, name.encode() + b"\0")
            except OSError:
                if len(name) >= 14 and ":" not in name:
                    raise
                continue            # the kernel may refuse odd names; the long ones are the point
            fcntl.ioctl(s, SIOCSIFMTU, ifr(name, "i", mtu))
            flags = struct.unpack("16sh", fcntl.ioctl(s, SIOCGIFFLAGS, ifr(name))[:18])[1]
            fcntl.ioctl(s, SIOCSIFFLAGS, ifr(name, "h", flags | 1))
            if v4:
                sa = struct.pack("H2s4s8s", socket.AF_INET, b"\0\0", socket.inet_aton(v4), b"\0" * 8)
                fcntl.ioctl(s, SIOCSIFADDR, struct.pack("16s16s", name.encode(), sa).ljust(40, b"\0"))
            idx = socket.if_nametoindex(name)
            with socket.socket(socket.AF_INET6, socket.SOCK_DGRAM) as s6:
                for a in v6:
                    fcntl.ioctl(s6, SIOCSIFADDR, struct.pack("16sIi", socket.inet_pton(socket.AF_INET6, a), 64, idx))
            made.append(name)
    return made


def kernel():
    out = {}
    names = [n for _, n in socket.if_nameindex()]
    with socket.socket(socket.AF_INET, socket.SOCK_DGRAM) as s:
        for n in names:
            mtu = struct.unpack("16si", fcntl.ioctl(s, SIOCGIFMTU, ifr(n))[:20])[1]
            flags = struct.unpack("16sH", fcntl.ioctl(s, SIOCGIFFLAGS, ifr(n))[:18])[1]
            hw = fcntl.ioctl(s, SIOCGIFHWADDR, ifr(n))[18:24]
            try:
                v4 = [socket.inet_ntoa(fcntl.ioctl(s, 0x8915, ifr(n))[20:24])]
            except OSError:
                v4 = []
            out[n] = {"mtu": mtu, "flags": flags, "mac": ":".join("%02x" % b for b in hw), "v6": [], "v4": v4}
    with open("/proc/net/if_inet6") as f:
        for line in f:
            p = line.split()
            out[p[-1]]["v6"].append(p[0])
    return out


def main():
    try:
        made = setup()
    except OSError as e:
        print(json.dumps({"setup_failed": repr(e)}))
        return 0
    before = kernel()
    import psutil
    a, st = psutil.net_if_addrs(), psutil.net_if_stats()
    after = kernel()
    # a lookup that fails (an interface that is not there) must leave no trace: the same answers
    # afterwards, and no descriptor of the program touched
    from psutil import _psutil_posix as cext_posix
    failed = []
    for name in ("verif-gone-0", "", "x" * 40):
        for fn in ("net_if_mtu", "net_if_flags", "net_if_is_running"):
            try:
                getattr(cext_posix, fn)(name)
                failed.append("%s(%r) returned" % (fn, name))
            except OSError:
                pass
            except Exception as e:
                failed.append("%s(%r) raised %r" % (fn, name, e))
    mine = [os.open("/proc/self/stat", os.O_RDONLY) for _ in range(4)]
    try:
        st2 = psutil.net_if_stats()
        again = {k: [v.isup, v.mtu, v.flags] for k, v in st2.items()}
    except Exception as e:
        again = "raised %r" % (e,)
    fds_ok = []
    for fd in mine:
        try:
            fds_ok.append(os.read(fd, 4) != b"")
            os.close(fd)
        except OSError as e:
            fds_ok.append("descriptor %d of the program: %r" % (fd, e))
    print(json.dumps({"again": again, "failed_lookups": failed, "fds_ok": fds_ok,
        "made": made, "before": before, "after": after, "file": psutil.__file__,
        "addrs": {k: [[int(x.family), x.address, x.netmask] for x in v] for k, v in a.items()},
        "stats": {k: [v.isup, v.mtu, v.flags] for k, v in st.items()}}))
    return 0


if __name__ == "__main__":
    sys.exit(main())

"""C09: kernel-side rendering of the abstract tables of spec/IoCounters.tla into
the simulated kernel (trusted base of the check).

/proc/net/dev is rendered here in the kernel's two historical line formats
(simkernel's own renderer joins the columns with single blanks); diskstats and
/sys/block use simkernel's tables (World.disks / World.sysblock)."""

NET_HEADER = (
    "Inter-|   Receive                                                |  Transmit\n"
    " face |bytes    packets errs drop fifo frame compressed multicast"
    "|bytes    packets errs drop fifo colls carrier compressed\n")

# net/core/net-procfs.c dev_seq_printf_stats(): "%6s: %7llu %7llu %4llu ..."
_W_MODERN = (7, 7, 4, 4, 4, 5, 10, 9, 8, 7, 4, 4, 4, 5, 7, 10)
# Linux 2.x net/core/dev.c sprintf_stats(): "%6s:%8lu %7lu %4lu ..." -- no blank
# after the colon, so a wide first counter touches it ("  eth0:12345678 ...")
_W_OLD = (8, 7, 4, 4, 4, 5, 10, 9, 8, 7, 4, 4, 4, 5, 7, 10)


def netdev_line(name, cols, fmt):
    assert len(cols) == 16
    if fmt == "old":
        return "%6s:%s\n" % (name, " ".join("%*d" % (w, v) for w, v in zip(_W_OLD, cols)))
    return "%6s: %s\n" % (name, " ".join("%*d" % (w, v) for w, v in zip(_W_MODERN, cols)))


def render_netdev(table, fmt):
    """table: list of (name, 16 columns) in listing order."""
    return (NET_HEADER + "".join(netdev_line(n, c, fmt) for n, c in table)).encode()


def set_netdev(w, table, fmt):
    data = render_netdev(table, fmt)
    w.netdev = None
    w.dyn[w.PROCFS + "/net/dev"] = lambda: data


def set_disks(w, devs, sysblock):
    """devs: list of (name, layout, blocks, counters) in listing order;
    sysblock: device names that are whole disks (own /sys/block entry)."""
    w.disks = []
    for i, (name, layout, blocks, c) in enumerate(devs):
        vals = ([blocks] if layout == 15 else []) + list(c)
        # distinct major/minor so that a misread leading column is visible
        w.disks.append((8 + 251 * (i % 2), 16 * i + 3, name, vals, layout))
    # the kernel spells '/' of a device name as '!' in sysfs
    w.sysblock = {n.replace("/", "!") for n in sysblock}


def set_statvfs(w, path, blocks, bfree, bavail, frsize):
    # f_bsize (preferred I/O size) is no part of the contract: the counts are in
    # f_frsize units.  Half of the cases are NFS-like (1 MiB-ish I/O size over
    # small fragments), the other half have the two equal as on local disks.
    bsize = frsize * 256 if blocks % 2 else frsize
    w.statvfs_map = {path: (blocks, bfree, bavail, frsize, bsize)}

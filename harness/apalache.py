"""Apalache (symbolic) side checks: inductive invariants over unbounded
integers for the arithmetic cores that TLC only visits for small values.

These add to what TLC decides; they never take anything away.  An
obligation that does not finish inside its time box, or a tool that is
missing, is recorded in the evidence and nothing else.  A *refuted*
obligation is a defect in the specification itself (the modules here have
no binding to code of their own -- the TLC models they abstract are the
ones replayed into psutil), so it is a machinery failure, not a property
violation.
"""
import os
import re
import shutil
import subprocess
import tempfile
import time

from . import core

HERE = os.path.dirname(os.path.dirname(os.path.abspath(__file__)))
DIR = os.path.join(HERE, "spec", "apalache")


def _one(module, init, inv, length, timeout):
    out = tempfile.mkdtemp(prefix="apa-")
    t0 = time.time()
    try:
        p = subprocess.run(["timeout", str(timeout), "apalache-mc", "check", "--init=" + init, "--inv=" + inv,
                            "--length=%d" % length, "--out-dir=" + out, "--run-dir=" + out, module + ".tla"],
                           cwd=DIR, stdout=subprocess.PIPE, stderr=subprocess.STDOUT, text=True)
        txt = p.stdout
    except OSError as e:
        return "unavailable: %s" % e, 0.0
    finally:
        shutil.rmtree(out, ignore_errors=True)
        for junk in ("_apalache-out", "tmp"):
            shutil.rmtree(os.path.join(DIR, junk), ignore_errors=True)
    m = re.search(r"The outcome is: (\w+)", txt)
    if p.returncode == 124:
        return "timeout", time.time() - t0
    return (m.group(1) if m else "unparsed(rc=%d)" % p.returncode), time.time() - t0


def discharge(ctx, module, timeout=240):
    """Init => IndInv  and  IndInv /\\ Next => IndInv' """
    if not shutil.which("apalache-mc"):
        ctx.notes.append("apalache %s: tool not present, skipped" % module)
        return
    res = []
    for init, length, label in (("Init", 0, "Init=>IndInv"), ("IndInit", 1, "IndInv/\\Next=>IndInv'")):
        outcome, wall = _one(module, init, "IndInv", length, timeout)
        res.append((label, outcome, round(wall, 1)))
        if outcome == "Error":
            raise core.Machinery("apalache refutes %s of spec/apalache/%s.tla" % (label, module))
    ctx.notes.append("apalache %s (unbounded integers): %s" % (module, "; ".join("%s: %s in %ss" % r for r in res)))
    ctx.cov.setdefault("apalache", {})[module] = {l: o for l, o, _ in res}

"""Snapshot /repo's working tree and build the C extension (content-hash cached)."""
import hashlib
import os
import shutil
import subprocess
import sys
import tempfile

REPO = os.environ.get("VERIF_REPO", "/repo")
VERIF = os.path.dirname(os.path.dirname(os.path.abspath(__file__)))
CACHE = os.path.join(VERIF, ".cache")
PY = "/venv/bin/python"


def _hash_csources(root):
    h = hashlib.sha256()
    files = ["setup.py", "pyproject.toml"]
    for d, _, fs in os.walk(os.path.join(root, "psutil")):
        for f in fs:
            if f.endswith((".c", ".h")):
                files.append(os.path.relpath(os.path.join(d, f), root))
    # _common.py is imported by setup.py
    files.append("psutil/_common.py")
    for f in sorted(files):
        p = os.path.join(root, f)
        if os.path.exists(p):
            h.update(f.encode())
            h.update(open(p, "rb").read())
    return h.hexdigest()[:24]


def snapshot(asan=False):
    """Return a scratch dir containing a built copy of the working tree.
    Caller removes it (cleanup())."""
    base = "/dev/shm" if os.path.isdir("/dev/shm") else tempfile.gettempdir()
    dst = tempfile.mkdtemp(prefix="psv-", dir=base)
    subprocess.check_call(["rsync", "-a", "--exclude", ".git", "--exclude", "build",
                           "--exclude", "*.so", "--exclude", "__pycache__",
                           "--exclude", "*.egg-info",
                           REPO + "/", dst + "/"])
    key = _hash_csources(dst) + ("-asan" if asan else "")
    cdir = os.path.join(CACHE, key)
    if not os.path.isdir(cdir):
        env = dict(os.environ)
        if asan:
            env["CC"] = "clang"
            env["CFLAGS"] = "-fsanitize=address,undefined -fno-omit-frame-pointer -g -O1"
            env["LDSHARED"] = "clang -shared -fsanitize=address,undefined"
        r = subprocess.run([PY, "setup.py", "build_ext", "-i"], cwd=dst, env=env,
                           stdout=subprocess.PIPE, stderr=subprocess.STDOUT)
        if r.returncode != 0:
            sys.stderr.write(r.stdout.decode(errors="replace")[-4000:])
            raise SystemExit(2)
        os.makedirs(CACHE, exist_ok=True)
        tmp = tempfile.mkdtemp(dir=CACHE)
        for f in os.listdir(os.path.join(dst, "psutil")):
            if f.endswith(".so"):
                shutil.copy2(os.path.join(dst, "psutil", f), tmp)
        try:
            os.rename(tmp, cdir)
        except OSError:
            shutil.rmtree(tmp, ignore_errors=True)
        shutil.rmtree(os.path.join(dst, "build"), ignore_errors=True)
    else:
        for f in os.listdir(cdir):
            shutil.copy2(os.path.join(cdir, f), os.path.join(dst, "psutil"))
    return dst


def cleanup(dst):
    shutil.rmtree(dst, ignore_errors=True)


if __name__ == "__main__":
    d = snapshot("--asan" in sys.argv)
    print(d)

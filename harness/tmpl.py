"""The template process state shared by the state-machine checks: psutil
imported once under the shim over a default world."""
from harness.simkernel import World, import_psutil

_T = {}


def template():
    if "ps" not in _T:
        w = World()
        w.ncpus = 2
        w.netdev = {}
        w.disks = []
        ps = import_psutil(w)

        class FakeSubprocess:
            """psutil.Popen delegates process creation to subprocess.Popen: hand
            it a child that owns the PID the replayed behaviour chose."""
            def __getattr__(self, name):
                import subprocess
                return getattr(subprocess, name)

            class Popen:
                def __init__(self, *a, **k):
                    self.pid = w.popen_pid
                    self.returncode = None
                    self.args = a
        ps.subprocess = FakeSubprocess()
        _T["w"], _T["ps"] = w, ps
    return _T["w"], _T["ps"]

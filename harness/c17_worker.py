"""C17 worker: runs in a plain interpreter (real kernel, real C extension,
possibly built with ASan/UBSan and LD_PRELOADed runtime).  Reads a JSON list
of cases, prints one JSON line per case ("BEGIN i" first, so that a crash is
attributed to the case being run)."""
import json
import os
import struct
import sys
import tempfile

import psutil
from psutil import _psutil_linux as cext
from psutil import _psutil_posix as cposix

UT = {"USER": 7, "DEAD": 8, "LOGIN": 6, "BOOT": 2}


def field(fill, width, tag):
    if fill == "empty":
        return b""
    if fill == "full":
        return (tag * width)[:width]
    if fill == "colon0":
        return b":0"
    if fill == "colon00":
        return b":0.0"
    if fill == "colon01":
        return b":0.1"
    if fill == "colon0s":
        return b":0:S.0"
    return (tag * 5)[:5]


def utmp_bytes(recs):
    out = b""
    for i, r in enumerate(recs):
        out += struct.pack("hi32s4s32s256shhiii4i20s", UT[r["type"]], 4000 + i,
                           field(r["line"], 32, b"L"), b"id%d" % i, field(r["user"], 32, b"U"),
                           field(r["host"], 256, b"H"), 0, 0, 1, 1700000000 + i,
                           # the sub-second part is whatever the writer left there
                           (0, 999999, 1000000, 2147483647, -1, -2147483648, 123456)[(3 * i + len(recs)) % 7], 0, 0, 0, 0, b"")
    return out


def run_utmp_threads(case):
    """users() from several threads at once over a long login file: every call
    must give what a single-threaded call gives."""
    import threading
    recs = [{"type": ("USER", "USER", "DEAD")[i % 3], "user": "short", "line": "short", "host": ("short", "colon0")[i % 2]}
            for i in range(case["n"])]
    with open("/run/utmp", "wb") as f:
        f.write(utmp_bytes(recs))

    def snap():
        return [(r.name, r.terminal, r.host, r.started, r.pid) for r in psutil.users()]
    ref = snap()
    diff = []

    def body():
        for _ in range(case["calls"]):
            got = snap()
            if got != ref:
                diff.append((len(got), len(ref)))
    ts = [threading.Thread(target=body) for _ in range(case["threads"])]
    for t in ts:
        t.start()
    for t in ts:
        t.join()
    return {"threads": case["threads"], "calls": case["threads"] * case["calls"], "reference_rows": len(ref),
            "differing": len(diff), "first": diff[:1]}


def run_utmp(case):
    if case.get("threads"):
        return run_utmp_threads(case)
    with open("/run/utmp", "wb") as f:
        f.write(utmp_bytes(case["recs"]))
    rows = psutil.users()
    return [{"user": r.name, "terminal": r.terminal, "host": r.host, "started": r.started, "pid": r.pid} for r in rows]


ESC = {" ": "\\040", "\t": "\\011", "\\": "\\134"}
DIRS = {"/": "/", "/mnt/a b": "/mnt/a b", "/mnt/tab": "/mnt/t\tb", "/mnt/bslash": "/mnt/back\\040slash",
        # a name that is not UTF-8 (the kernel prints the bytes as they are; Python spells them with
        # surrogate escapes so that os.fsencode() gives them back)
        "/mnt/latin1": "/mnt/caf\udce9"}


def esc(s):
    return "".join(ESC.get(c, c) for c in s)


def opts_of(kind):
    if kind == "badutf8":
        return "rw,lowerdir=/srv/caf\udce9,relatime"       # written with surrogateescape: the byte 0xE9
    if kind != "long":
        return "rw,relatime"
    s = "rw,lowerdir=" + ":".join("/var/lib/layers/%04d" % i for i in range(200))
    return s[:2793] + ",x=last"          # 2800 bytes


def run_mounts(case, root):
    os.makedirs(os.path.join(root, "self"), exist_ok=True)
    with open(os.path.join(root, "filesystems"), "w") as f:
        f.write("\text4\nnodev\ttmpfs\nnodev\tzfs\nnodev\tproc\n")
    with open(os.path.join(root, "self", "mounts"), "w", encoding="utf8", errors="surrogateescape") as f:
        for e in case["ents"]:
            f.write("%s %s %s %s 0 0\n" % (esc(e["dev"]), esc(DIRS[e["dir"]]), e["type"], opts_of(e.get("opts"))))
    psutil.PROCFS_PATH = root
    try:
        if any(e.get("opts") == "badutf8" for e in case["ents"]):
            # (several times: an error path that frees once too often shows on the repeat)
            out = None
            for _ in range(4):
                try:
                    out = {"class": "value", "rows": len(psutil.disk_partitions(all=case["all"]))}
                except Exception as ex:  # noqa: BLE001
                    out = {"class": "exception", "repr": repr(ex)[:120]}
            return out
        rows = psutil.disk_partitions(all=case["all"])
    finally:
        psutil.PROCFS_PATH = "/proc"
    return [{"device": r.device, "mountpoint": r.mountpoint, "fstype": r.fstype, "opts": r.opts} for r in rows]


PIDARG = {"minus2p63": -2 ** 63, "minus1": -1, "zero": 0, "one": 1, "2p31m1": 2 ** 31 - 1, "2p31": 2 ** 31,
          "2p63": 2 ** 63, "2p64": 2 ** 64, "str": "1", "none": None, "float": 1.5}
NAMEARG = {"empty": "", "len15": "e" * 15, "len16": "e" * 16, "len17": "e" * 17, "len4096": "e" * 4096,
           "nul_inside": "lo\0x", "int": 7, "bytes": b"lo", "percent": "/nonexistent/%s%s%s%n%d%d"}


def run_args(case, child):
    fn, arg = case["fn"], case["arg"]
    mod = cext if hasattr(cext, fn) and fn not in ("getpriority", "setpriority", "net_if_mtu", "net_if_flags", "net_if_is_running") else cposix
    if fn == "net_if_duplex_speed":
        mod = cext
    f = getattr(mod, fn)
    try:
        if arg == "noargs":
            v = f()
        elif fn in ("proc_ioprio_get", "proc_cpu_affinity_get", "getpriority", "check_pid_range"):
            v = f(PIDARG[arg])
        elif fn in ("net_if_mtu", "net_if_flags", "net_if_is_running", "net_if_duplex_speed", "disk_partitions"):
            v = f(NAMEARG[arg])
        elif fn == "proc_cpu_affinity_set":
            a = {"empty_list": [], "neg": [-1], "huge": [100000], "dups": [0, 0, 0], "2p40": [2 ** 40],
                 "strs": ["0"], "not_seq": 5, "tuple": (0,), "generator": (i for i in range(1)),
                 "cpu63": [63], "cpu64": [64], "cpu300": [300], "cpu1023": [1023], "cpu1024": [1024],
                 "many": list(range(0, 1100, 7))}[arg]
            v = f(child, a)
        elif fn == "setpriority":
            a = {"ok": 5, "out_of_range": 1000, "2p31": 2 ** 31, "str": "5"}[arg]
            v = f(child, a)
        elif fn == "proc_ioprio_set":
            a = {"ok": (2, 4), "out_of_range": (9, 99), "2p31": (2 ** 31, 2 ** 31), "str": ("2", "4")}[arg]
            v = f(child, *a)
        else:
            raise RuntimeError("unknown fn " + fn)
        return {"class": "value", "repr": repr(v)[:80]}
    except BaseException as ex:  # noqa: BLE001
        return {"class": "exception", "repr": repr(ex)[:120]}


def main():
    fam, path = sys.argv[1], sys.argv[2]
    cases = json.load(open(path))
    child = None
    root = None
    if fam == "args":
        child = os.fork()
        if child == 0:
            import time
            time.sleep(600)
            os._exit(0)
    if fam == "mounts":
        root = tempfile.mkdtemp(prefix="c17-")
    try:
        for i, c in enumerate(cases):
            print("BEGIN %d" % i, flush=True)
            if fam == "utmp":
                res = run_utmp(c)
            elif fam == "mounts":
                res = run_mounts(c, root)
            else:
                res = run_args(c, child)
            print("RESULT " + json.dumps(res), flush=True)
    finally:
        if child:
            os.kill(child, 9)
            os.waitpid(child, 0)
        if root:
            import shutil
            shutil.rmtree(root, ignore_errors=True)
    print("END", flush=True)


main()

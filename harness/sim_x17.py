"""X17 (C17, Python layer): kernel-side rendering of the abstract tables of
spec/SysTables.tla into the simulated kernel (trusted base of the check).

* mount tables are rendered as fstab(5)/mtab text with getmntent(3)'s octal
  escapes into the world's VFS and parsed back by an emulation of glibc's
  getmntent -- so `cext.disk_partitions(path)` answers from the file psutil
  asked for (simkernel's own stub ignores the path);
* /proc/filesystems in the kernel's "<nodev|>\\t<type>" format;
* the three views RootFsDeviceFinder consults (PROCFS/partitions,
  /sys/dev/block/M:m/uevent, /sys/class/block/*/dev), the device node, and the
  st_dev of "/";
* the interface list (/proc/net/dev), per-interface MTU / flags / duplex+speed
  answers or errno, the raw address rows, the raw login rows.

Everything is applied to the World instance or to psutil's module namespace at
run time; simkernel.py is not modified."""
import errno
import os

from harness.simkernel import oserr

DIRS = {"D_ROOT": "/", "D_SPACE": "/mnt/a b", "D_TAB": "/mnt/t\tb", "D_BSL": "/mnt/b\\s", "D_NL": "/mnt/n\nl"}
RDIRS = {v: k for k, v in DIRS.items()}

_ESC = [("\\", "\\134"), (" ", "\\040"), ("\t", "\\011"), ("\n", "\\012")]


def mnt_escape(s):
    for a, b in _ESC:
        s = s.replace(a, b)
    return s


def mnt_unescape(s):
    """glibc misc/mntent_r.c decode_name()."""
    out, i = [], 0
    while i < len(s):
        for code, ch in (("\\040", " "), ("\\011", "\t"), ("\\012", "\n"), ("\\134", "\\"), ("\\\\", "\\")):
            if s.startswith(code, i):
                out.append(ch)
                i += len(code)
                break
        else:
            out.append(s[i])
            i += 1
    return "".join(out)


def render_mounts(ents):
    """ents: [(fsname, dir, type, opts)] decoded."""
    return "".join("%s %s %s %s 0 0\n" % tuple(mnt_escape(x) for x in e) for e in ents).encode("utf8", "surrogateescape")


def parse_mounts(data):
    rows = []
    for line in data.decode("utf8", "surrogateescape").split("\n"):
        line = line.lstrip(" \t")
        if not line or line.startswith("#"):
            continue
        f = [x for x in line.replace("\t", " ").split(" ") if x]
        while len(f) < 4:
            f.append("")
        rows.append(tuple(mnt_unescape(x) for x in f[:4]))
    return rows


def render_filesystems(fst):
    """fs/filesystems.c filesystems_proc_show(): "%s\\t%s\\n" """
    return "".join("%s\t%s\n" % ("nodev" if l["nodev"] else "", l["type"]) for l in fst).encode()


def render_partitions(rows):
    """block/genhd.c show_partition(): "%4d  %7d %10llu %s\\n" after a two-line header."""
    return ("major minor  #blocks  name\n\n" + "".join("%4d  %7d %10d %s\n" % r for r in rows)).encode()


class ErrMap(dict):
    """name -> answer of an interface ioctl, or the errno it fails with; an
    interface the kernel does not know fails with ENODEV."""

    def __init__(self, values, errs):
        dict.__init__(self, values)
        self.errs = errs

    def __getitem__(self, name):
        e = self.errs.get(name)
        if e:
            raise oserr(e)
        if name not in self:
            raise oserr(errno.ENODEV)
        return dict.__getitem__(self, name)


def install(w, ps):
    """Run-time interposition needed by X17 (idempotent)."""
    if getattr(w, "x17_installed", False):
        return
    from psutil import _pslinux
    base_stat = w.sys_stat

    def sys_stat(path, follow=True, op="stat"):
        st = base_stat(path, follow, op)
        p = path.decode("utf8", "surrogateescape") if isinstance(path, bytes) else path
        if p == "/" and getattr(w, "x17_rootdev", None) is not None:
            st.st_dev = os.makedev(*w.x17_rootdev)
        return st
    w.sys_stat = sys_stat

    def disk_partitions(path):
        # setmntent(path) + getmntent() loop of psutil/arch/linux/disk.c
        if not isinstance(path, str):
            raise TypeError("argument 1 must be str")
        w._access("setmntent", path)
        kind, payload, _ = w.resolve(path)
        if kind != "file":
            raise oserr(errno.EINVAL, path)
        w.x17_mount_reads = getattr(w, "x17_mount_reads", []) + [path]
        return parse_mounts(payload)
    _pslinux.cext.disk_partitions = disk_partitions          # instance attribute of the FakeCext proxy
    # `net_if_addrs = cext_posix.net_if_addrs` is bound at import time to the
    # real extension function: route it to the simulated one
    real = getattr(_pslinux.cext_posix, "_real", None)
    if real is not None and getattr(_pslinux, "net_if_addrs", None) is getattr(real, "net_if_addrs", object()):
        _pslinux.net_if_addrs = lambda: _pslinux.cext_posix.net_if_addrs()
    w.x17_base = (dict(w.files), dict(w.links), dict(w.devs), set(w.dirs))
    w.x17_installed = True


def reset(w, ps):
    w.files, w.links, w.devs, w.dirs = dict(w.x17_base[0]), dict(w.x17_base[1]), dict(w.x17_base[2]), set(w.x17_base[3])
    w.x17_rootdev = None
    w.x17_mount_reads = []
    w.users_raw, w.partitions_raw, w.nic = [], [], {}
    w.netdev = {}
    ps.PROCFS_PATH = "/proc"


DECOY = [("/dev/decoy", "/decoy", "ext4", "rw")]


def set_mounts(w, ps, inp):
    """inp: the specification's mount input record."""
    pf = inp["procfs"]
    ps.PROCFS_PATH = pf
    ents = [(e["dev"], DIRS.get(e["dir"], e["dir"]), e["type"], e["opts"]) for e in inp["ents"]]
    table, decoy = render_mounts(ents), render_mounts(DECOY)
    w.files[pf + "/self/mounts"] = table
    fs = render_filesystems(inp["fst"])
    w.files[pf + "/filesystems"] = fs
    w.links[pf + "/mounts"] = "self/mounts"       # fs/proc/root.c: /proc/mounts -> self/mounts
    if pf != "/proc":
        # the live /proc of the caller: another mount table (PROCFS_PATH must be honoured)
        w.files["/proc/self/mounts"] = decoy
        w.files["/proc/filesystems"] = fs
    mt = inp["mtab"]
    if mt == "link":
        w.links["/etc/mtab"] = "/proc/self/mounts"
    elif mt == "rellink":
        w.links["/etc/mtab"] = "../proc/self/mounts"
    elif mt == "file":
        # a regular /etc/mtab has the content of the caller's own /proc/self/mounts
        w.files["/etc/mtab"] = table if pf == "/proc" else decoy
    # ---- the device "/" lives on
    r = inp["root"]
    maj, mi = r["dev"]
    w.x17_rootdev = (maj, mi)
    name = r["path"][len("/dev/"):]
    noise = [(maj, mi + 1, 1000, "xx%dn" % mi), (maj + 1, mi, 1001, "yy%dn" % mi), (7, 0, 8, "loop0")]
    if r["parts"] != "absent":
        rows = list(noise)
        if r["parts"] == "match":
            # first, in the middle or last line of the table, depending on the device
            rows.insert((maj + mi + 3) % 4, (maj, mi, 524288, name))
        for p in {pf, "/proc"}:
            w.files[p + "/partitions"] = render_partitions(rows)
    if r["uevent"] != "absent":
        txt = "MAJOR=%d\nMINOR=%d\n" % (maj, mi)
        if r["uevent"] == "match":
            txt += "DEVNAME=%s\n" % name
        txt += "DEVTYPE=partition\nPARTN=1\n"
        w.files["/sys/dev/block/%d:%d/uevent" % (maj, mi)] = txt.encode()
    if r["cls"] != "absent":
        for a, b, _, n in noise:
            w.files["/sys/class/block/%s/dev" % n] = b"%d:%d\n" % (a, b)
        if r["cls"] == "match":
            w.files["/sys/class/block/%s/dev" % name] = b"%d:%d\n" % (maj, mi)
    for a, b, _, n in noise:
        w.devs["/dev/" + n] = os.makedev(a, b)
    if r["node"]:
        w.devs[r["path"]] = os.makedev(maj, mi)


def join(groups):
    return ":".join(groups) if groups else None


def set_stats(w, ps, inp):
    nics = inp["nics"]
    w.netdev = {n["name"]: [100 * k + c for c in range(16)] for k, n in enumerate(nics, 1)}

    def m(field, at):
        return ErrMap({n["name"]: field(n) for n in nics},
                      {n["name"]: n["err"] for n in nics if n["err"] and n["errat"] == at})
    w.nic = {"addrs": [],
             "mtu": m(lambda n: n["mtu"], "mtu"),
             "flags": m(lambda n: list(n["flags"]), "flags"),
             "duplex": m(lambda n: (n["duplex"], n["speed"]), "duplex")}


def set_addrs(w, ps, inp):
    w.nic = {"addrs": [(r["name"], r["fam"], join(r["addr"]), join(r["mask"]), join(r["bcast"]), join(r["ptp"]))
                       for r in inp["rows"]],
             "mtu": ErrMap({}, {}), "flags": ErrMap({}, {}), "duplex": ErrMap({}, {})}


def set_users(w, ps, inp):
    w.users_raw = [(r["user"], r["tty"], r["host"], float(r["tstamp"]), r["pid"]) for r in inp["recs"]]

"""TLC runner: exhaustive check, transition dump, simulation, trace validation."""
import json
import os
import re
import shutil
import subprocess
import tempfile
import time

VERIF = os.path.dirname(os.path.dirname(os.path.abspath(__file__)))
SPEC = os.path.join(VERIF, "spec")
JAR = "/opt/veriftools/tla/tla2tools.jar:/opt/veriftools/tla/CommunityModules-deps.jar"


class TLCResult:
    def __init__(self):
        self.out = ""
        self.rc = None
        self.generated = self.distinct = self.depth = 0
        self.violated = None        # name/text of violated property or None
        self.error = None           # machinery error text
        self.trace = []             # list of (action_label, state_text)
        self.tr = []                # parsed TR records (dump mode)
        self.printed = []           # other PrintT payloads
        self.coverage = {}          # action -> (distinct, generated)
        self.wall = 0.0
        self.timed_out = False

    def ok(self):
        return self.error is None and self.violated is None


def scratch():
    base = "/dev/shm" if os.path.isdir("/dev/shm") else tempfile.gettempdir()
    return tempfile.mkdtemp(prefix="tlc-", dir=base)


def write_cfg(path, constants, init="Init", next_="Next", spec=None, view=None,
              invariants=(), properties=(), constraints=(), action_constraints=(),
              postcondition=None, deadlock=False, symmetry=None):
    L = []
    if constants:
        L.append("CONSTANTS")
        for k, v in constants.items():
            if isinstance(v, str) and v.startswith("<-"):
                L.append("  %s <- %s" % (k, v[2:].strip()))     # definition override
            else:
                L.append("  %s = %s" % (k, tla_value(v)))
    if spec:
        L.append("SPECIFICATION " + spec)
    else:
        L.append("INIT " + init)
        L.append("NEXT " + next_)
    if view:
        L.append("VIEW " + view)
    for i in invariants:
        L.append("INVARIANT " + i)
    for p in properties:
        L.append("PROPERTY " + p)
    for c in constraints:
        L.append("CONSTRAINT " + c)
    for c in action_constraints:
        L.append("ACTION_CONSTRAINT " + c)
    if postcondition:
        L.append("POSTCONDITION " + postcondition)
    L.append("CHECK_DEADLOCK " + ("TRUE" if deadlock else "FALSE"))
    with open(path, "w") as f:
        f.write("\n".join(L) + "\n")


def tla_value(v):
    if isinstance(v, bool):
        return "TRUE" if v else "FALSE"
    if isinstance(v, int):
        return str(v)
    if isinstance(v, str):
        if v.startswith("@"):      # raw TLA+ text
            return v[1:]
        return '"%s"' % v
    if isinstance(v, (set, frozenset)):
        return "{" + ", ".join(tla_value(x) for x in sorted(v, key=lambda x: (str(type(x)), x))) + "}"
    if isinstance(v, (list, tuple)):
        return "<<" + ", ".join(tla_value(x) for x in v) + ">>"
    raise TypeError(v)


def run(module, cfg, workers=16, simulate=None, depth=None, seed=None,
        coverage=False, timeout=1800, env=None, extra=(), dfid=None, cwd=None,
        keep_out=True, heap=None):
    """Run TLC on spec/<module>.tla with config file *cfg* (absolute or in spec/)."""
    r = TLCResult()
    meta = scratch()
    cwd = cwd or SPEC
    cfgp = cfg if os.path.isabs(cfg) else os.path.join(cwd, cfg)
    cmd = ["java", "-XX:+UseParallelGC"]
    if heap:
        cmd.append("-Xmx" + heap)
    cmd += ["-cp", JAR, "tlc2.TLC", "-metadir", meta, "-noGenerateSpecTE",
            "-workers", str(workers), "-config", cfgp]
    if coverage:
        cmd += ["-coverage", "1"]
    if simulate:
        cmd += ["-simulate", simulate]
        if depth:
            cmd += ["-depth", str(depth)]
    if seed is not None:
        cmd += ["-seed", str(seed)]
    cmd += list(extra)
    cmd.append(module if module.endswith(".tla") else module + ".tla")
    e = dict(os.environ)
    if env:
        e.update(env)
    t0 = time.time()
    try:
        p = subprocess.run(cmd, cwd=cwd, env=e, stdout=subprocess.PIPE,
                           stderr=subprocess.STDOUT, timeout=timeout)
        r.out = p.stdout.decode("utf8", "replace")
        r.rc = p.returncode
    except subprocess.TimeoutExpired as ex:
        r.out = (ex.stdout or b"").decode("utf8", "replace")
        r.timed_out = True
        r.rc = -9
        subprocess.run(["pkill", "-f", meta], check=False)
    finally:
        shutil.rmtree(meta, ignore_errors=True)
    r.wall = time.time() - t0
    _parse(r)
    return r


_TR = re.compile(r'^<<"TR", "(.*)">>$')
_PR = re.compile(r'^<<"([A-Z_]+)", (.*)>>$')


def _parse(r):
    out = r.out
    m = re.search(r"(\d+) states generated, (\d+) distinct states found", out)
    if m:
        r.generated, r.distinct = int(m.group(1)), int(m.group(2))
    m = re.search(r"depth of the complete state graph search is (\d+)", out)
    if m:
        r.depth = int(m.group(1))
    for line in out.splitlines():
        if line.startswith('<<"TR", "'):
            r.tr.append(line)
            continue
        if line.startswith('<<"'):
            mm = _PR.match(line)
            if mm:
                r.printed.append((mm.group(1), mm.group(2)))
            continue
        mm = re.match(r"<(\w+) line \d+, col \d+ to line \d+, col \d+ of module \w+>: (\d+):(\d+)", line)
        if mm:
            r.coverage[mm.group(1)] = (int(mm.group(2)), int(mm.group(3)))
    r.printed = _printed(out)
    m = re.search(r"Error: (Invariant (\S+) is violated|Action property (\S+) is violated|"
                  r"Temporal properties were violated|Deadlock reached|"
                  r"The postcondition (\S+) (?:was|is) violated[^\n]*|"
                  r"Postcondition (\S+) at line[^\n]*is false|"
                  r"Assumption [^\n]* is false)", out)
    if m:
        r.violated = m.group(2) or m.group(3) or m.group(4) or m.group(5) or m.group(1)
    elif "Error:" in out and not r.timed_out:
        mm = re.search(r"Error: ([^\n]*(?:\n[^\n]*){0,6})", out)
        r.error = mm.group(1) if mm else "unknown TLC error"
    elif r.rc not in (0, None) and not r.timed_out and r.violated is None:
        if "Model checking completed. No error has been found" not in out and \
           "Finished in" not in out:
            r.error = "TLC exit code %s" % r.rc
    if r.violated:
        r.trace = parse_trace(out)


_STATE = re.compile(r"^State (\d+): <?(.*?)>?\s*$", re.M)


def parse_trace(out):
    """Return [(label, {var: text})] from a TLC counterexample."""
    res = []
    parts = _STATE.split(out)
    # parts = [pre, num, label, body, num, label, body...]
    for i in range(1, len(parts) - 2, 3):
        label = parts[i + 1].strip()
        body = parts[i + 2]
        body = re.split(r"\n\n|\n\d+ states generated|\nState \d+:", body)[0]
        res.append((label, body.strip()))
    return res


def trace_events(trace):
    """Extract the `ev` record text of each state of a counterexample."""
    evs = []
    for label, body in trace:
        m = re.search(r"/\\ ev = (.*?)(?=\n/\\ |\Z)", body, re.S)
        evs.append((label.split(" line ")[0], " ".join(m.group(1).split()) if m else ""))
    return evs


# --- tiny parser for TLA+ values as TLC prints them (records, sets, tuples) ---

def parse_value(s):
    v, i = _pv(s, 0)
    return v


def _ws(s, i):
    while i < len(s) and s[i] in " \n\t\r":
        i += 1
    return i


def _pv(s, i):
    i = _ws(s, i)
    if s.startswith("<<", i):
        i += 2
        items = []
        i = _ws(s, i)
        if s.startswith(">>", i):
            return items, i + 2
        while True:
            v, i = _pv(s, i)
            items.append(v)
            i = _ws(s, i)
            if s.startswith(">>", i):
                return items, i + 2
            assert s[i] == ",", s[i:i + 20]
            i += 1
    if s[i] == "[":
        i += 1
        rec = {}
        while True:
            i = _ws(s, i)
            m = re.match(r"(\w+) \|-> ", s[i:])
            assert m, s[i:i + 30]
            i += m.end()
            v, i = _pv(s, i)
            rec[m.group(1)] = v
            i = _ws(s, i)
            if s[i] == "]":
                return rec, i + 1
            assert s[i] == ",", s[i:i + 20]
            i += 1
    if s[i] == "{":
        i += 1
        items = []
        i = _ws(s, i)
        if s[i] == "}":
            return items, i + 1
        while True:
            v, i = _pv(s, i)
            items.append(v)
            i = _ws(s, i)
            if s[i] == "}":
                return items, i + 1
            assert s[i] == ",", s[i:i + 20]
            i += 1
    if s[i] == "(":   # function display (a :> b @@ c :> d)
        i += 1
        d = {}
        while True:
            k, i = _pv(s, i)
            i = _ws(s, i)
            assert s.startswith(":>", i)
            v, i = _pv(s, i + 2)
            d[k if not isinstance(k, list) else tuple(k)] = v
            i = _ws(s, i)
            if s[i] == ")":
                return d, i + 1
            assert s.startswith("@@", i), s[i:i + 20]
            i += 2
    if s[i] == '"':
        j = i + 1
        buf = []
        while s[j] != '"':
            if s[j] == "\\":
                j += 1
            buf.append(s[j])
            j += 1
        return "".join(buf), j + 1
    m = re.match(r"-?\d+", s[i:])
    if m:
        return int(m.group()), i + m.end()
    m = re.match(r"TRUE|FALSE", s[i:])
    if m:
        return m.group() == "TRUE", i + m.end()
    m = re.match(r"\w+", s[i:])
    if m:
        return m.group(), i + m.end()
    raise ValueError("cannot parse TLA+ value at: " + s[i:i + 40])


def parse_sim_file(path):
    """Parse one behaviour written by `tlc -simulate file=...`.
    Returns [(action_name, {var: value})]."""
    txt = open(path).read()
    res = []
    chunks = re.split(r"\n(?=STATE_\d+ ==)", txt)
    labels = re.findall(r"\\\* <?(\w+)", txt)
    k = 0
    for ch in chunks:
        m = re.match(r"STATE_(\d+) ==\s*(.*)", ch, re.S)
        if not m:
            continue
        body = m.group(2)
        body = re.split(r"\n\s*\n|\n\\\*|\n====", body)[0]
        st = {}
        for mm in re.finditer(r"/\\ (\w+) = (.*?)(?=\n/\\ |\Z)", body, re.S):
            try:
                st[mm.group(1)] = parse_value(mm.group(2))
            except Exception:
                st[mm.group(1)] = mm.group(2)
        res.append((labels[k] if k < len(labels) else "?", st))
        k += 1
    return res


def _module_closure(module):
    """The module and the spec/ modules it (transitively) EXTENDS / INSTANCEs."""
    seen, todo = set(), [module[:-4] if module.endswith(".tla") else module]
    while todo:
        m = todo.pop()
        p = os.path.join(SPEC, m + ".tla")
        if m in seen or not os.path.exists(p):
            continue
        seen.add(m)
        txt = open(p).read()
        for mm in re.finditer(r"^\s*EXTENDS\s+([^\n]+(?:\n\s+[^\n=]+)*)", txt, re.M):
            todo.extend(x.strip() for x in re.split(r"[,\s]+", mm.group(1)) if x.strip())
        todo.extend(re.findall(r"INSTANCE\s+(\w+)", txt))
    return seen


def dump_cached(module, constants, view="view", action_constraint="DumpL",
                constraints=(), timeout=1800):
    """Transition dump of spec/<module>.tla under *constants*; cached under
    .cache/dumps keyed by the spec sources and the configuration (the dump
    depends on the specification only, never on /repo).  r.tr holds the raw
    TR lines (see graph.Graph)."""
    import gzip
    import hashlib
    h = hashlib.sha256()
    for f in sorted(_module_closure(module)):
        h.update(open(os.path.join(SPEC, f + ".tla"), "rb").read())
    h.update(repr((module, sorted(constants.items(), key=str), view, action_constraint,
                   tuple(constraints))).encode())
    key = h.hexdigest()[:20]
    cdir = os.path.join(VERIF, ".cache", "dumps")
    path = os.path.join(cdir, "%s-%s.txt.gz" % (module, key))
    if os.path.exists(path):
        with gzip.open(path, "rt") as f:
            hdr = json.loads(f.readline())
            lines = f.read().splitlines()
        r = TLCResult()
        r.tr, r.generated, r.distinct, r.depth, r.wall = lines, hdr["generated"], hdr["distinct"], hdr["depth"], 0.0
        r.cached = True
        r.cache_path = path
        return r
    sc = scratch()
    cfg = os.path.join(sc, "dump.cfg")
    write_cfg(cfg, constants, view=view, action_constraints=[action_constraint],
              constraints=constraints)
    r = run(module, cfg, workers=1, timeout=timeout)
    shutil.rmtree(sc, ignore_errors=True)
    r.cached = False
    if r.error is None and not r.timed_out and r.tr:
        os.makedirs(cdir, exist_ok=True)
        tmp = path + ".tmp%d" % os.getpid()
        with gzip.open(tmp, "wt", compresslevel=1) as f:
            f.write(json.dumps({"generated": r.generated, "distinct": r.distinct,
                                "depth": r.depth}) + "\n")
            f.write("\n".join(r.tr))
        os.replace(tmp, path)
        r.cache_path = path
    return r


def tagged(r, tag="REJECTED"):
    """All values printed as PrintT(<<"tag", ...>>) in a run, parsed; works for
    values TLC pretty-prints over several lines (bracket matching)."""
    out = []
    txt = r.out
    needle = '<<"%s"' % tag
    i = txt.find(needle)
    while i != -1:
        depth, j = 0, i
        while j < len(txt):
            if txt.startswith("<<", j):
                depth += 1
                j += 2
                continue
            if txt.startswith(">>", j):
                depth -= 1
                j += 2
                if depth == 0:
                    break
                continue
            if txt[j] == '"':
                j += 1
                while j < len(txt) and txt[j] != '"':
                    j += 2 if txt[j] == "\\" else 1
            j += 1
        try:
            out.append(parse_value(txt[i:j])[1:])
        except Exception:  # noqa: BLE001
            pass
        i = txt.find(needle, j)
    return out


def _printed(txt):
    """[(tag, body_text)] for every PrintT(<<"TAG", ...>>) (TAG upper case, not
    TR), also when TLC pretty-printed the value over several lines."""
    out = []
    for m in re.finditer(r'^<<\s*"([A-Z_]+)",\s*', txt, re.M):
        if m.group(1) == "TR":
            continue
        i = m.start()
        depth, j = 0, i
        while j < len(txt):
            if txt.startswith("<<", j):
                depth += 1
                j += 2
                continue
            if txt.startswith(">>", j):
                depth -= 1
                j += 2
                if depth == 0:
                    break
                continue
            if txt[j] == '"':
                j += 1
                while j < len(txt) and txt[j] != '"':
                    j += 2 if txt[j] == "\\" else 1
            j += 1
        body = txt[m.end():j - 2]
        out.append((m.group(1), " ".join(body.split())))
    return out

"""Deterministic line-level thread scheduler (CHESS style) for real code.

Real threading.Thread objects run one at a time: a thread stops at every
`line` event inside the traced source files and waits for the scheduler's
token.  Locks that the code under test would block on in C are replaced (on
the instance, from outside) by cooperative locks that report "blocked" to the
scheduler.  Schedules are enumerated statelessly with a pre-emption bound:
a plan is a list of (step, thread) pre-emptions; everything else follows the
default policy (keep running the current thread; when it ends or blocks, run
the lowest-numbered enabled thread)."""
import sys
import threading


class Deadlock(Exception):
    pass


class _T:
    def __init__(self, idx, fn):
        self.idx, self.fn = idx, fn
        self.go = threading.Semaphore(0)
        self.done = False
        self.blocked_on = None
        self.exc = None
        self.thread = None
        self.started = False


class Run:
    """One execution of several thread bodies under a plan."""

    def __init__(self, bodies, plan, trace_files, max_steps=4000):
        self.ts = [_T(i, fn) for i, fn in enumerate(bodies)]
        self.plan = dict(plan)             # step -> thread index to pre-empt to
        self.files = tuple(trace_files)
        self.back = threading.Semaphore(0)
        self.step = 0
        self.history = []                  # (step, ran_thread, enabled_threads)
        self.max_steps = max_steps
        self.cur = None
        self.local = threading.local()
        self.aborted = False

    # ---- called from managed threads -------------------------------------
    def _tracer(self, frame, event, arg):
        if event != "call":
            return None
        if not frame.f_code.co_filename.endswith(self.files):
            return None
        return self._line

    def _line(self, frame, event, arg):
        if event == "line":
            self.yield_point()
        return self._line

    def yield_point(self):
        t = getattr(self.local, "t", None)
        if t is None or self.aborted:
            return
        self.back.release()
        t.go.acquire()

    def _body(self, t):
        self.local.t = t
        t.go.acquire()
        sys.settrace(self._tracer)
        try:
            t.fn()
        except BaseException as ex:  # noqa: BLE001
            t.exc = ex
        finally:
            sys.settrace(None)
            t.done = True
            self.local.t = None
            self.back.release()

    # ---- scheduler (caller's thread) -----------------------------------------
    def enabled(self):
        out = []
        for t in self.ts:
            if t.done:
                continue
            if t.blocked_on is not None and not t.blocked_on.available_for(t):
                continue
            out.append(t.idx)
        return out

    def execute(self):
        for t in self.ts:
            t.thread = threading.Thread(target=self._body, args=(t,), daemon=True)
            t.thread.start()
        while True:
            en = self.enabled()
            if not en:
                if all(t.done for t in self.ts):
                    break
                self.aborted = True
                for t in self.ts:
                    t.go.release()
                raise Deadlock("no enabled thread at step %d" % self.step)
            want = self.plan.get(self.step)
            if want is not None and want in en:
                nxt = want
            elif self.cur is not None and self.cur in en:
                nxt = self.cur
            else:
                nxt = en[0]
            self.history.append((self.step, nxt, en))
            self.cur = nxt
            self.step += 1
            if self.step > self.max_steps:
                self.aborted = True
                for t in self.ts:
                    t.go.release()
                raise Deadlock("step budget exhausted")
            self.ts[nxt].go.release()
            self.back.acquire()
        for t in self.ts:
            t.thread.join(timeout=5)
        return self


class CoopRLock:
    """Re-entrant lock that never blocks in C: a thread that cannot take it
    parks at a yield point until the scheduler sees the lock free."""

    def __init__(self, run):
        self.run = run
        self.owner = None
        self.depth = 0

    def available_for(self, t):
        return self.owner is None or self.owner is t

    def acquire(self, blocking=True, timeout=-1):
        t = getattr(self.run.local, "t", None)
        if t is None:
            return True
        while not self.available_for(t):
            t.blocked_on = self
            self.run.yield_point()
        t.blocked_on = None
        self.owner = t
        self.depth += 1
        return True

    def release(self):
        t = getattr(self.run.local, "t", None)
        if t is None:
            return
        self.depth -= 1
        if self.depth == 0:
            self.owner = None

    __enter__ = acquire

    def __exit__(self, *a):
        self.release()


class CoopLock(CoopRLock):
    def available_for(self, t):
        return self.owner is None


def coop_locks(obj, run):
    """Replace every threading lock held in an attribute of *obj* (whatever its
    name) by its cooperative counterpart.  Returns the number replaced."""
    import threading
    kinds = {type(threading.Lock()): CoopLock, type(threading.RLock()): CoopRLock}
    n = 0
    for name, val in list(vars(obj).items()):
        cls = kinds.get(type(val))
        if cls is not None:
            setattr(obj, name, cls(run))
            n += 1
    return n


def explore(make_bodies, trace_files, bound=2, limit=None, rnd=None, on_run=None, max_steps=4000):
    """Enumerate schedules with at most *bound* pre-emptions.  make_bodies(run)
    -> list of callables (fresh objects per execution).  on_run(run, plan) is
    called after every execution.  Returns the number of executions."""
    todo = [[]]
    n = 0
    seen = set()
    while todo:
        plan = todo.pop()
        key = tuple(plan)
        if key in seen:
            continue
        seen.add(key)
        run = Run([], plan, trace_files, max_steps)
        bodies = make_bodies(run)
        run.ts = [_T(i, fn) for i, fn in enumerate(bodies)]
        try:
            run.execute()
            err = None
        except Deadlock as ex:
            err = ex
        n += 1
        if on_run:
            on_run(run, plan, err)
        if limit is not None and n >= limit:
            break
        if len(plan) < bound:
            last = plan[-1][0] if plan else -1
            ext = []
            for (step, ran, en) in run.history:
                if step <= last:
                    continue
                for alt in en:
                    if alt != ran:
                        ext.append(plan + [(step, alt)])
            if rnd is not None:
                rnd.shuffle(ext)
            todo.extend(ext)
    return n

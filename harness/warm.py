"""setup: build /repo once (fills the content-hash build cache) and pre-compute
the cached transition dumps (they depend on spec/ only)."""
import sys

from harness import build


def main():
    snap = build.snapshot()
    sys.path.insert(0, snap)
    try:
        from harness import core
        import importlib
        ctx = core.Ctx("warm", "quick", 0)
        for name in ("identity", "c10", "c04", "c05", "c06", "c15", "c16", "c17", "c09", "c12", "c14",
                     "c08", "c11", "c13", "c19", "c20", "c07", "c18"):
            try:
                m = importlib.import_module("harness.props." + name)
            except ImportError:
                continue
            fn = getattr(m, "warm", None)
            if fn is None:
                continue
            try:
                fn(ctx)
            except Exception as ex:  # noqa: BLE001  (warming is best effort: checks rebuild what is missing)
                print("warm %s: %r" % (name, ex))
    finally:
        build.cleanup(snap)
    print("setup ok")


main()

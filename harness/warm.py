"""setup: build /repo once (fills the content-hash build cache) and pre-compute
the cached transition dumps (they depend on spec/ only)."""
import sys

from harness import build


def main():
    snap = build.snapshot()
    sys.path.insert(0, snap)
    try:
        from harness import core
        from harness.props import c04, c10, identity
        ctx = core.Ctx("warm", "quick", 0)
        for fn in (identity.warm, c10.warm, c04.warm):
            fn(ctx)
    finally:
        build.cleanup(snap)
    print("setup ok")


main()

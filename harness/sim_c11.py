"""C11 -- socket tables for the simulated kernel, the binding of
spec/NetConn.tla to the real net_connections(), and the live-kernel probe.

Trusted base of the property (calibrated against the live kernel by
calibrate()): the /proc/net/{tcp,tcp6,udp,udp6,unix} renderers below, written
after net/ipv4/tcp_ipv4.c (tcp4_seq_show), net/ipv6/tcp_ipv6.c, net/ipv4/udp.c,
net/ipv6/datagram.c and net/unix/af_unix.c (unix_seq_show).
"""
import enum
import errno
import json
import os
import socket
import sys

# ---------------------------------------------------------------------------
# symbols of the specification -> what the kernel holds
# ---------------------------------------------------------------------------

ADDRS = {   # symbol -> network-order bytes (written out, not parsed from the symbol)
    "0.0.0.0": bytes([0, 0, 0, 0]),
    "127.0.0.1": bytes([127, 0, 0, 1]),
    "10.0.0.5": bytes([10, 0, 0, 5]),
    "255.255.255.255": bytes([255, 255, 255, 255]),
    "::": bytes(16),
    "::1": bytes(15) + b"\x01",
    "::ffff:127.0.0.1": bytes(10) + b"\xff\xff" + bytes([127, 0, 0, 1]),
    "fe80::1": b"\xfe\x80" + bytes(13) + b"\x01",
    "2001:db8::1": b"\x20\x01\x0d\xb8" + bytes(11) + b"\x01",
}
TCP_ST = {"ESTABLISHED": 1, "SYN_SENT": 2, "SYN_RECV": 3, "FIN_WAIT1": 4, "FIN_WAIT2": 5,
          "TIME_WAIT": 6, "CLOSE": 7, "CLOSE_WAIT": 8, "LAST_ACK": 9, "LISTEN": 10, "CLOSING": 11}
UNHELD = ("TIME_WAIT", "SYN_RECV")
SOCK_TYPE = {"stream": 1, "dgram": 2, "seqpacket": 5}
FAMS = {"inet4": socket.AF_INET, "inet6": socket.AF_INET6, "unix": socket.AF_UNIX}
KINDS = ["all", "tcp", "tcp4", "tcp6", "udp", "udp4", "udp6", "unix", "inet", "inet4", "inet6"]
NET_FILES = ("tcp", "tcp6", "udp", "udp6", "unix")


def self_check():
    """The table above against the C library's own text form."""
    for sym, b in ADDRS.items():
        fam = socket.AF_INET if len(b) == 4 else socket.AF_INET6
        if socket.inet_ntop(fam, b) != sym:
            return "address table: %r is %r in text" % (sym, socket.inet_ntop(fam, b))
    return None


def sym_bytes(sym):
    b = ADDRS.get(sym)
    if b is None:     # random driver / live probe: the symbol is the canonical text
        b = socket.inet_pton(socket.AF_INET6 if ":" in sym else socket.AF_INET, sym)
    return b


def kernel_hex(b):
    """%08X of every 32-bit word as the host reads the network-order bytes."""
    return "".join("%08X" % int.from_bytes(b[i:i + 4], sys.byteorder) for i in range(0, len(b), 4))


# ---------------------------------------------------------------------------
# renderers
# ---------------------------------------------------------------------------

HDR = {
    "tcp": ("  sl  local_address rem_address   st tx_queue rx_queue tr tm->when retrnsmt"
            "   uid  timeout inode").ljust(149) + "\n",
    "tcp6": "  sl  local_address                         remote_address                        "
            "st tx_queue rx_queue tr tm->when retrnsmt   uid  timeout inode\n",
    "udp": ("   sl  local_address rem_address   st tx_queue rx_queue tr tm->when retrnsmt"
            "   uid  timeout inode ref pointer drops").ljust(127) + "\n",
    "udp6": "  sl  local_address                         remote_address                        "
            "st tx_queue rx_queue tr tm->when retrnsmt   uid  timeout inode ref pointer drops\n",
    "unix": "Num       RefCount Protocol Flags    Type St Inode Path\n",
}


def table_of(s):
    if s["fam"] == "unix":
        return "unix"
    return ("tcp" if s["type"] == "stream" else "udp") + ("6" if s["fam"] == "inet6" else "")


def inet_line(s, sl, inode, uid=0):
    la = "%s:%04X" % (kernel_hex(sym_bytes(s["l"][0])), s["l"][1])
    ra = "%s:%04X" % (kernel_hex(sym_bytes(s["r"][0])), s["r"][1])
    st = TCP_ST[s["st"]]
    ptr = "%016x" % (0xffff888000000000 + 64 * sl)
    if s["type"] == "stream":
        if s["st"] == "TIME_WAIT":
            body = "%4d: %s %s %02X %08X:%08X %02X:%08X %08X %5d %8d %d %d %s" % (
                sl, la, ra, st, 0, 0, 3, 0x1234, 0, 0, 0, 0, 2, ptr)
        elif s["st"] == "SYN_RECV":
            body = "%4d: %s %s %02X %08X:%08X %02X:%08X %08X %5u %8d %u %d %s" % (
                sl, la, ra, st, 0, 0, 1, 0x64, 1, uid, 0, 0, 0, ptr)
        else:
            body = "%4d: %s %s %02X %08X:%08X %02X:%08X %08X %5u %8d %d %d %s %d %d %d %d %d" % (
                sl, la, ra, st, 0, 0, 0, 0, 0, uid, 0, inode, 1, ptr, 100, 0, 0, 10, 0)
        return (body.ljust(149) if s["fam"] == "inet4" else body) + "\n"
    body = "%5d: %s %s %02X %08X:%08X %02X:%08X %08X %5u %8d %d %d %s %u" % (
        sl, la, ra, st, 0, 0, 0, 0, 0, uid, 0, inode, 2, ptr, 0)
    return (body.ljust(127) if s["fam"] == "inet4" else body) + "\n"


def unix_line(s, sl, inode):
    path = bytes(s["path"])
    listening = s["type"] != "dgram" and bool(path)
    connected = not path and sl % 2 == 1
    head = "%016x: %08X %08X %08X %04X %02X %5d" % (
        0xffff888000100000 + 1024 * sl, 3 if connected else 2, 0,
        0x10000 if listening else 0, SOCK_TYPE[s["type"]], 3 if connected else 1, inode)
    line = head.encode()
    if path:
        line += b" " + path
    return line + b"\n"


def render_tables(socks, inodes, order=None, first_sl=0):
    """{table name: bytes} for the five /proc/net files."""
    out = {n: [HDR[n].encode()] for n in NET_FILES}
    idx = list(range(len(socks))) if order is None else order
    sl = {n: first_sl for n in NET_FILES}
    for k in idx:
        s = socks[k]
        t = table_of(s)
        if t == "unix":
            out[t].append(unix_line(s, sl[t], inodes[k]))
        else:
            out[t].append(inet_line(s, sl[t], inodes[k]).encode())
        sl[t] += 1
    return {n: b"".join(v) for n, v in out.items()}


def inode_of(s, ino):
    return 0 if (s["fam"] != "unix" and s["type"] == "stream" and s["st"] in UNHELD) else ino


def build_world(w, inp, inodes=None, order=None, omit_v6=False, extra_pids=()):
    """Render the abstract tables of *inp* into the simulated kernel."""
    from harness.simkernel import Fd, oserr
    socks = inp["socks"]
    if inodes is None:
        inodes = [101 + k for k in range(len(socks))]
    inodes = [inode_of(s, i) for s, i in zip(socks, inodes)]
    for p in list(w.procs):
        if p != w.caller_pid:
            del w.procs[p]
    pids = {h[0] for h in inp["hold"]} | set(extra_pids)
    if inp["who"]:
        pids.add(inp["who"])
    for pid in sorted(pids):
        p = w.spawn(pid, comm=b"holder", ppid=1, start=5)
        # descriptors that are not sockets -- among them a pipe whose inode
        # number equals a socket's (pipefs and sockfs number independently)
        p.fds = {0: Fd("/dev/null", kind="dev"),
                 1: Fd("pipe:[%d]" % (inodes[0] if inodes and inodes[0] else 101), kind="pipe"),
                 2: Fd("anon_inode:[eventpoll]", kind="anon")}
    for pid, fd, k in sorted(map(tuple, inp["hold"])):
        w.procs[pid].fds[fd] = Fd("socket:[%d]" % inodes[k - 1], kind="socket")
    for pid in pids:   # the kernel lists descriptors in ascending order
        w.procs[pid].fds = dict(sorted(w.procs[pid].fds.items()))
    # every other holder closes its pipe (descriptor 1) between the listing of its descriptors and
    # the look at that one: the name is listed, readlink() answers ENOENT -- its sockets stay where they are
    closing = {"/proc/%d/fd/1" % pid for pid in pids if pid % 2 and w.procs[pid].fds[1].kind == "pipe"}
    if not hasattr(w, "_c11_readlink"):
        w._c11_readlink = w.sys_readlink

        def sys_readlink(path, _w=w):
            if path in _w._c11_closing:
                _w._access("readlink", path)
                raise oserr(errno.ENOENT, path)
            return _w._c11_readlink(path)
        w.sys_readlink = sys_readlink
    w._c11_closing = closing
    w.procs = dict(sorted(w.procs.items()))
    tabs = render_tables(socks, inodes, order)
    has6 = any(s["fam"] == "inet6" for s in socks)
    for n in NET_FILES:
        path = "/proc/net/" + n
        if n.endswith("6") and omit_v6 and not has6:
            w.files.pop(path, None)      # kernel without IPv6
        else:
            w.files[path] = tabs[n]
    w.devs.setdefault("/dev/null", 259)
    del w.log[:]
    return inodes


# ---------------------------------------------------------------------------
# the real code's answer, in the specification's vocabulary
# ---------------------------------------------------------------------------

def _fam_name(f):
    for n, v in FAMS.items():
        if f == v:
            return n
    return "family-%r" % (f,)


def _type_name(t):
    for n, v in (("stream", socket.SOCK_STREAM), ("dgram", socket.SOCK_DGRAM),
                 ("seqpacket", socket.SOCK_SEQPACKET)):
        if t == v:
            return n
    return "type-%r" % (t,)


def _addr(a, fam):
    """() -> [] ; (ip, port) -> [symbol, port].  The textual IP is the C
    library's presentation form (inet_ntop: RFC 5952, an IPv4-mapped address
    in mixed notation); another spelling of the same bytes is reported as
    such."""
    if a is None or a == "" or a == () or a == []:     # "empty"
        return []
    try:
        ip, port = a[0], a[1]
    except Exception:  # noqa: BLE001
        return ["<%r>" % (a,), -1]
    if isinstance(a, str) or len(a) != 2:
        return ["<%r>" % (a,), -1]
    if isinstance(port, bool) or not isinstance(port, int):
        return ["<port %r>" % (port,), -1]
    try:
        b = socket.inet_pton(FAMS[fam], ip)
    except Exception:  # noqa: BLE001
        return ["<%r>" % (ip,), port]
    if socket.inet_ntop(FAMS[fam], b) != ip:
        return ["<%s spelt %r>" % (socket.inet_ntop(FAMS[fam], b), ip), port]
    for sym, sb in ADDRS.items():
        if sb == b:
            return [sym, port]
    return [socket.inet_ntop(FAMS[fam], b), port]


def _name(x):
    """UNIX name as bytes; an abstract name may be reported with a leading NUL
    or with the kernel's '@' (the statement does not choose)."""
    if x is None or x == ():            # no name
        b = b""
    elif isinstance(x, str):
        b = os.fsencode(x)
    elif isinstance(x, bytes):
        b = x
    else:
        return [[60, 63, 62]]
    return [list(b.replace(b"\0", b"@"))]


def normalize(rows, who):
    """list of sconn/pconn -> [{"f": fields, "pid", "fd", "n"}] (distinct rows with
    their multiplicity)."""
    acc = {}
    for r in rows:
        fam, ty = _fam_name(r.family), _type_name(r.type)
        if fam == "unix":
            la, ra = _name(r.laddr), []       # the remote end of a UNIX socket is not stated
        elif fam in FAMS:
            la, ra = _addr(r.laddr, fam), _addr(r.raddr, fam)
        else:
            la, ra = ["<%r>" % (r.laddr,), -1], ["<%r>" % (r.raddr,), -1]
        pid = who if who else getattr(r, "pid", "<no pid field>")
        pid = 0 if pid is None else pid
        fd = r.fd
        if isinstance(pid, bool) or not isinstance(pid, int):
            pid = -7
        if isinstance(fd, bool) or not isinstance(fd, int):
            fd = -7
        st = r.status.value if isinstance(r.status, enum.Enum) else r.status
        row = {"f": {"fam": fam, "type": ty, "laddr": la, "raddr": ra, "status": str(st)},
               "pid": pid, "fd": fd}
        k = json.dumps(row, sort_keys=True)
        if k in acc:
            acc[k]["n"] += 1
        else:
            row["n"] = 1
            acc[k] = row
    return [acc[k] for k in sorted(acc)]


def query(ps, inp):
    """Call the public API for *inp*; returns the answer record."""
    try:
        if inp["who"]:
            rows = ps.Process(inp["who"]).net_connections(inp["kind"])
        else:
            rows = ps.net_connections(inp["kind"])
    except ValueError:
        return {"err": "ValueError", "rows": []}
    except Exception as ex:  # noqa: BLE001
        return {"err": type(ex).__name__, "rows": [], "msg": str(ex)[:200]}
    if not isinstance(rows, list):
        return {"err": "returned-" + type(rows).__name__, "rows": []}
    return {"err": "none", "rows": normalize(rows, inp["who"])}


# ---------------------------------------------------------------------------
# the acceptance relation of spec/NetConn.tla (Conforms / Why / Verdict),
# evaluated on the expectation groups TLC dumped
# ---------------------------------------------------------------------------

def _key(f, pid, fd):
    return json.dumps([f["fam"], f["type"], f["laddr"], f["raddr"], f["status"], pid, fd])


def why(exp, got):
    out = []
    if got["err"] != exp["err"]:
        out.append(("error", exp["err"], got["err"]))
    adm = {}
    for g in exp["groups"]:
        for o in g["owners"]:
            k = _key(g["f"], o[0], o[1])
            adm[k] = adm.get(k, 0) + 1
    have = set()
    for r in got["rows"]:
        k = _key(r["f"], r["pid"], r["fd"])
        have.add(k)
        c = adm.get(k, 0)
        if c == 0:
            out.append(("unexpected-row", r["f"]["fam"], r["f"]["type"]))
        elif r["n"] > c:
            out.append(("duplicate-row", r["f"]["fam"], r["f"]["type"]))
    for g in exp["groups"]:
        if not any(all(_key(g["f"], o[0], o[1]) in have for o in n) for n in g["need"]):
            out.append(("missing-row", g["f"]["fam"], g["f"]["type"]))
    # one row per inet socket, however many descriptors refer to it (Overcounted of NetConn.tla)
    admk = [{_key(g["f"], o[0], o[1]) for o in g["owners"]} for g in exp["groups"]]
    for g, ak in zip(exp["groups"], admk):
        if g["f"]["fam"] == "unix":
            continue
        total = sum(r["n"] for r in got["rows"] if _key(r["f"], r["pid"], r["fd"]) in ak)
        if total > sum(1 for bk in admk if bk & ak):
            out.append(("row-per-holder", g["f"]["fam"], g["f"]["type"]))
    return sorted(set(out))


def verdict(ev, got):
    """([] , []) when the answer conforms, else (minimal explaining shape sets |
    [["other"]], why)."""
    y = why(ev["out"], got)
    if not y:
        return [], []
    ys = [why(a["out"], got) for a in ev["alts"]]
    ks = [sorted(a["tags"]) for a, ya in zip(ev["alts"], ys) if not ya]
    if not ks:
        core = [t for t in y if all(t in ya for ya in ys)]      # WhyCore of the specification
        return [["other"]], core or y
    m = min(len(k) for k in ks)
    return sorted(k for k in ks if len(k) == m), y


def signatures(v, y):
    """Stable signatures of a rejected answer (same for both directions)."""
    if v == [["other"]]:       # one signature per failing clause x family x type
        return sorted({"conf:net_connections:" + "/".join(str(x) for x in t) for t in y})
    return ["conf:net_connections:" + t for t in v[0]]


# ---------------------------------------------------------------------------
# live kernel: real sockets shared with a child
# ---------------------------------------------------------------------------

def _shown(name):
    """sun_path -> what /proc/net/unix shows."""
    if isinstance(name, str):
        name = os.fsencode(name)
    return list(name.replace(b"\0", b"@"))


def live_main():
    """Runs in a fresh interpreter over the *unsimulated* psutil: create real
    loopback sockets, share some with a child, record independent facts
    (getsockname, fstat), the kernel's raw lines and the API's answers."""
    import shutil
    import subprocess
    import tempfile
    import psutil
    d = tempfile.mkdtemp(prefix="verif-c11-", dir="/dev/shm" if os.path.isdir("/dev/shm") else None)
    me = os.getpid()
    socks, keep, skipped = [], [], []

    def fact(s, st):
        fam = {socket.AF_INET: "inet4", socket.AF_INET6: "inet6", socket.AF_UNIX: "unix"}[s.family]
        ty = _type_name(s.type)
        rec = {"fam": fam, "type": ty, "fd": s.fileno(), "inode": os.fstat(s.fileno()).st_ino}
        if fam == "unix":
            rec.update(l=["-", 0], r=["-", 0], st="-", path=_shown(s.getsockname() or b""))
        else:
            la = s.getsockname()
            try:
                ra = s.getpeername()
            except OSError:
                ra = ("::" if fam == "inet6" else "0.0.0.0", 0)
            canon = lambda t: socket.inet_ntop(s.family, socket.inet_pton(s.family, t))  # noqa: E731
            rec.update(l=[canon(la[0]), la[1]], r=[canon(ra[0]), ra[1]], st=st, path=[])
        socks.append(rec)
        keep.append(s)
        return s

    try:
        l4 = socket.socket(socket.AF_INET, socket.SOCK_STREAM)
        l4.bind(("127.0.0.1", 0))
        l4.listen(4)
        fact(l4, "LISTEN")
        c4 = socket.socket(socket.AF_INET, socket.SOCK_STREAM)
        c4.connect(l4.getsockname())
        a4, _ = l4.accept()
        fact(c4, "ESTABLISHED")
        fact(a4, "ESTABLISHED")
        u4 = socket.socket(socket.AF_INET, socket.SOCK_DGRAM)
        u4.bind(("127.0.0.1", 0))
        fact(u4, "CLOSE")
        u4c = socket.socket(socket.AF_INET, socket.SOCK_DGRAM)
        u4c.connect(u4.getsockname())
        fact(u4c, "ESTABLISHED")
        try:
            l6 = socket.socket(socket.AF_INET6, socket.SOCK_STREAM)
            l6.bind(("::1", 0))
            l6.listen(1)
            fact(l6, "LISTEN")
            u6 = socket.socket(socket.AF_INET6, socket.SOCK_DGRAM)
            u6.bind(("::1", 0))
            fact(u6, "CLOSE")
        except OSError as ex:
            skipped.append("ipv6: %s" % ex)
        ux = socket.socket(socket.AF_UNIX, socket.SOCK_STREAM)
        ux.bind(os.path.join(d, "plain.sock"))
        ux.listen(1)
        fact(ux, "-")
        uxs = socket.socket(socket.AF_UNIX, socket.SOCK_STREAM)
        uxs.bind(os.path.join(d, "a b.sock"))
        fact(uxs, "-")
        uxd = socket.socket(socket.AF_UNIX, socket.SOCK_DGRAM)
        uxd.bind("\0verif-c11-%d" % me)
        fact(uxd, "-")
        uxq = socket.socket(socket.AF_UNIX, socket.SOCK_SEQPACKET)
        uxq.bind("\0verif-c11-q%d" % me)
        fact(uxq, "-")
        pa, pb = socket.socketpair()
        fact(pa, "-")
        fact(pb, "-")
        shared = [l4, u4, ux, uxd]
        child = subprocess.Popen([sys.executable, "-c", "import sys; sys.stdin.read()"],
                                 stdin=subprocess.PIPE, pass_fds=[s.fileno() for s in shared],
                                 close_fds=True)
        try:
            hold = [[me, r["fd"], i + 1] for i, r in enumerate(socks)]
            shared_fds = {s.fileno() for s in shared}
            hold += [[child.pid, r["fd"], i + 1] for i, r in enumerate(socks) if r["fd"] in shared_fds]
            raw = {}
            by_inode = {str(r["inode"]): i for i, r in enumerate(socks)}
            for n in NET_FILES:
                try:
                    lines = open("/proc/net/" + n, "rb").read().split(b"\n")
                except OSError:
                    continue
                raw[n] = {"header": lines[0].decode("latin1") + "\n", "lines": {}}
                for ln in lines[1:]:
                    tok = ln.split()
                    col = 6 if n == "unix" else 9
                    if len(tok) > col and tok[col].decode() in by_inode:
                        raw[n]["lines"][by_inode[tok[col].decode()]] = ln.decode("latin1") + "\n"
            answers = []
            for kind in KINDS + ["sctp"]:
                for who in (0, me, child.pid):
                    inp = {"kind": kind, "who": who}
                    got = query(psutil, inp)
                    if who == 0:
                        got["rows"] = [r for r in got["rows"] if r["pid"] in (me, child.pid)]
                    answers.append({"kind": kind, "who": who, "got": got})
        finally:
            child.stdin.close()
            child.wait()
        json.dump({"socks": socks, "hold": hold, "raw": raw, "answers": answers, "skipped": skipped,
                   "me": me, "child": child.pid}, sys.stdout)
    finally:
        for s in keep:
            s.close()
        shutil.rmtree(d, ignore_errors=True)


def live_probe(snapshot, timeout=60):
    """Run live_main() in a subprocess; returns the record or a 'skipped' text."""
    import subprocess
    verif = os.path.dirname(os.path.dirname(os.path.abspath(__file__)))
    env = dict(os.environ)
    env["PYTHONPATH"] = snapshot + os.pathsep + verif
    try:
        r = subprocess.run([sys.executable, "-c", "from harness import sim_c11; sim_c11.live_main()"],
                           env=env, stdin=subprocess.DEVNULL, stdout=subprocess.PIPE, stderr=subprocess.PIPE,
                           timeout=timeout, cwd=verif)
    except subprocess.TimeoutExpired:
        return "live probe timed out"
    if r.returncode != 0:
        return "live probe could not run: %s" % r.stderr.decode(errors="replace").strip().splitlines()[-1:]
    return json.loads(r.stdout)


import re  # noqa: E402
_UNIX_RE = re.compile(r"^[0-9a-f]+: [0-9A-F]{8} [0-9A-F]{8} [0-9A-F]{8} ([0-9A-F]{4}) ([0-9A-F]{2}) ( *[0-9]+)((?: .*)?)\n$", re.S)


def calibrate(live):
    """Diff the renderers against the live kernel's lines for the probe's own
    sockets (facts from getsockname/fstat).  Returns (n_compared, mismatches)."""
    bad, n = [], 0
    for tab, rec in live["raw"].items():
        if rec["header"] != HDR[tab]:
            bad.append("%s header: kernel %r, renderer %r" % (tab, rec["header"], HDR[tab]))
        for i, line in rec["lines"].items():
            s = live["socks"][int(i)]
            n += 1
            if table_of(s) != tab:
                bad.append("socket %r found in %s" % (s, tab))
                continue
            if tab == "unix":
                mine = unix_line(s, 0, s["inode"]).decode("latin1")
                a, b = _UNIX_RE.match(line), _UNIX_RE.match(mine)
                # type, inode (right-aligned in 5 columns) and the name, byte for byte
                if not a or not b or a.group(1, 3, 4) != b.group(1, 3, 4):
                    bad.append("unix line: kernel %r, renderer %r" % (line, mine))
            else:
                mine = inet_line(s, 0, s["inode"])
                a, b = line.split(), mine.split()
                if (a[1], a[2], a[3], a[9]) != (b[1], b[2], b[3], b[9]) or len(a) != len(b) or \
                        (not tab.endswith("6") and len(line) != len(mine)):
                    bad.append("%s line: kernel %r, renderer %r" % (tab, line, mine))
    return n, bad

"""Mode 5 ("spec as oracle"): TLC enumerates the abstract input space of a
functional specification (Init ranges over inputs, one Observe action
publishes F(input)); every observed <input, output> pair becomes one test of
the real code."""
import json
import os

from harness import core, forkpool, graph, tlc


def observe(ctx, module, name, consts, invariants=(), properties=(), check=True, timeout=1800):
    """Exhaustive TLC check of the structural invariants + cached dump of the
    Observe events.  Returns the list of event dicts."""
    if check:
        cfg = os.path.join(tlc.scratch(), name + ".cfg")
        tlc.write_cfg(cfg, consts, invariants=invariants, properties=properties)
        r = tlc.run(module, cfg, timeout=timeout)
        ctx.tlc(name, r, {k: (sorted(v, key=str) if isinstance(v, (set, frozenset)) else v) for k, v in consts.items()})
        if r.violated:
            evs = tlc.trace_events(r.trace)
            ctx.disagree("model:%s" % r.violated,
                         "TLC: structural property %s of the specification's function is violated\n%s"
                         % (r.violated, "\n".join("%s %s" % x for x in evs)), {"trace": evs})
    rd = tlc.dump_cached(module, consts, view=None)
    ctx.tlc(name + "-dump", rd)
    return events_of(rd)


def events_of(rd):
    path = getattr(rd, "cache_path", None)
    if path:
        ep = path[:-len(".txt.gz")] + ".events.json"
        if os.path.exists(ep):
            return json.load(open(ep))
    out, seen = [], set()
    for line in rd.tr:
        parts = graph._STR.findall(line)
        if len(parts) != 4:
            continue
        raw = parts[2]
        if raw in seen:
            continue
        seen.add(raw)
        out.append(json.loads(json.loads('"' + raw + '"')))
    if path:
        tmp = ep + ".tmp%d" % os.getpid()
        json.dump(out, open(tmp, "w"))
        os.replace(tmp, ep)
    return out


def run_cases(ctx, name, cases, fn, sig_fn, chunk=40):
    """cases: list of picklable case objects; fn(list_of_cases) runs in a forked
    child of the template and returns a list of (index_in_chunk, mismatch_text)."""
    chunks = [cases[i:i + chunk] for i in range(0, len(cases), chunk)]
    res = forkpool.map_fork(fn, chunks)
    bad = 0
    for ch, (st, val) in zip(chunks, res):
        if st != "ok":
            raise core.Machinery("case runner failed (%s): %s" % (st, val))
        for idx, text in val:
            bad += 1
            ctx.disagree("conf:" + sig_fn(ch[idx], text),
                         "code and specification disagree: %s" % text, {"case": ch[idx]})
        for c in ch:
            ctx.case(json.dumps(c, sort_keys=True, default=str))
    ctx.cov["traces_validated_against_impl"] += len(cases)
    ctx.cov.setdefault("replay", {})[name] = {"cases": len(cases), "disagreements": bad}
    if cases:
        ctx.sample({"kind": name, "case": cases[len(cases) // 2]})
    return bad


def close(x, num, den, ulps=4):
    """float x equals the exact rational num/den up to *ulps* units in the last place."""
    import math
    from fractions import Fraction
    if not isinstance(x, (int, float)):
        return False
    q = Fraction(num, den)
    fx = Fraction(x)
    if fx == q:
        return True
    tol = Fraction(math.ulp(float(q) if q else 1.0)) * ulps
    return abs(fx - q) <= tol

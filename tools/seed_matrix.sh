#!/bin/bash
# Run every confirmed seed against its property's check (and extra checks given in
# seeded/<name>/also.txt) in scratch worktrees; write seeded/RESULTS.tsv
cd /verif
OUT=seeded/RESULTS.tsv
echo -e "seed\tcheck\ttier\texit\tsignature" > $OUT.tmp
for d in seeded/C*/; do
  S=$(basename $d); P=${S%-*}
  CHECKS="$P"; [ -f $d/also.txt ] && CHECKS="$CHECKS $(cat $d/also.txt)"
  for C in $CHECKS; do
    LINE=$(tools/run_seed.sh $S $C quick)
    RC=$(echo "$LINE" | sed -n 's/.*exit=\([0-9]*\).*/\1/p')
    SIG=$(echo "$LINE" | sed -n 's/.*signature: \(.*\)/\1/p')
    echo -e "$S\t$C\tquick\t$RC\t$SIG" >> $OUT.tmp
  done
done
mv $OUT.tmp $OUT

#!/bin/bash
# Run every confirmed seed against its property's check (and extra checks given in
# seeded/<name>/also.txt) in scratch worktrees, $JOBS at a time; write seeded/RESULTS.tsv
cd /verif
OUT=seeded/RESULTS.tsv
JOBS=${JOBS:-4}
PAIRS=$(for d in seeded/C*/; do S=$(basename $d); P=${S%-*}; echo "$S $P"; [ -f $d/also.txt ] && for C in $(cat $d/also.txt); do echo "$S $C"; done; done)
TMP=$(mktemp -d)
echo "$PAIRS" | xargs -P $JOBS -L 1 bash -c 'LINE=$(tools/run_seed.sh $0 $1 quick); RC=$(echo "$LINE" | sed -n "s/.*exit=\([0-9]*\).*/\1/p"); SIG=$(echo "$LINE" | sed -n "s/.*signature: \(.*\)/\1/p"); echo -e "$0\t$1\tquick\t$RC\t$SIG" > '$TMP'/$0-$1.tsv'
echo -e "seed\tcheck\ttier\texit\tsignature" > $OUT
cat $TMP/*.tsv | sort >> $OUT
rm -rf $TMP

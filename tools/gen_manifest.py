#!/usr/bin/env python3
"""Regenerate MANIFEST.json from the table below (keeps it schema-valid)."""
import json
import os

HERE = os.path.dirname(os.path.dirname(os.path.abspath(__file__)))
IDS = [json.loads(l)["id"] for l in open(os.path.join(HERE, "properties.jsonl"))]

TB = ("Trusted base: TLC and the TLA+ modules in spec/; simkernel's rendering of procfs/sysfs and its "
      "syscall semantics (calibrated against the live kernel where the sandbox allows); the interposition "
      "table (psutil reaches the OS only through names replaced in its module namespaces).")

CHECKS = {
 "C01": dict(
    technique="TLA+ model checking (TLC) of ProcIdentity.tla + transition-tour and simulation replay into the real code over a simulated kernel",
    category="model_checking", ref="DESIGN.md section 3 C01",
    text=("Every history of spawn/exit/reap/PID-reuse/clock-step events interleaved with constructor, is_running, ==, "
          "signals, setters, ppid, boot_time and process_iter calls is enumerated by TLC for 2 PIDs x 2 objects x 3 "
          "incarnations (thorough: 3 objects, 4 incarnations, all four setters) and the no-misdelivery / reused-raises / "
          "never-group action properties are checked on every transition; the code is bound to the model by replaying a "
          "transition tour of three dumped configurations and hundreds of random deep behaviours into the unmodified "
          "psutil over simkernel, comparing results and the kill/setpriority/ioprio/affinity/prlimit calls the kernel received."),
    note=TB + " Calls are atomic w.r.t. kernel events; same-tick PID reuse excluded (documented psutil assumption)."),
 "C02": dict(
    technique="TLA+ model checking (TLC) of ProcIdentity.tla + transition-tour and simulation replay into the real code over a simulated kernel",
    category="model_checking", ref="DESIGN.md section 3 C02",
    text=("Same model as C01 with the identity properties: == iff same incarnation, hash agreement and stability, "
          "is_running() equal to ghost truth and sticky once False, under clock steps and boot_time()/process_iter() calls "
          "at any point; the regression config shows the model exposes the 7.0.0 defect; replay binds the real "
          "__eq__/__hash__/is_running to the model."),
    note=TB + " Objects built with _ignore_nsp for an already-gone PID are outside the == clause."),
}

SM = "TLA+ model checking (TLC) + transition-tour / simulation replay into the real code over a simulated kernel"
CHECKS["C04"] = dict(technique=SM, category="model_checking", ref="DESIGN.md section 3 C04",
    text=("ProcIter.tla models pids(), pid_exists() and the process_iter() generator at the granularity of one next() "
          "(listing, diff, drain of _pids_reused, visit, swallow of vanished PIDs, finally write-back), cache_clear(), "
          "is_running() on every object ever yielded or built, threads, and 1-2 live iterators. TLC checks order, "
          "completeness, object identity against a ghost cache, key eviction and pid_exists truth on every transition "
          "(1.2M-3M states quick); the real generator is driven through a full transition tour of a 1-PID model, sampled "
          "tours of 2-PID / 2-iterator models and random 3-PID behaviours, comparing yielded pid, object identity (is), "
          "info dict, StopIteration point, pids(), pid_exists() for PIDs, TIDs, negatives and integers beyond pid_t."),
    note=TB + " Object identity is only demanded in the non-overlapping regime (stated in DESIGN.md). Known finding C04-reused-skipped is signed.")
CHECKS["C10"] = dict(technique=SM, category="model_checking", ref="DESIGN.md section 3 C10",
    text=("WrapNumbers.tla models the kernel's per-device counters, the public net_io_counters/disk_io_counters wrappers "
          "(forms, nowrap flag, partition filter, empty listing) and _WrapNumbers' cache/reminders; a ghost carries what the "
          "statement demands (raw + sum of values before each observed decrease, history reset by observed absence or "
          "cache_clear). TLC checks res = exp on every call for all histories up to 4 (thorough 5) calls over 2 functions x 2 "
          "keys; the real functions are bound by full transition tours of four narrow-but-deep models (up to 8 calls), "
          "and by random 40-step behaviours with 2 fields, over rendered /proc/net/dev, /proc/diskstats and /sys/block with "
          "per-column scales up to 2^64/64."),
    note=TB + " Known finding C10-form-switch is signed; the two-thread clause is checked at call granularity only (lock-removal mutants need the line scheduler, see DESIGN.md).")

FN = "TLA+ specification as oracle: TLC enumerates the abstract input space and checks structural invariants of the specified function; every <input, output> pair is replayed into the real code over simkernel; recorded answers on random inputs are validated by TLC (trace validation)"
CHECKS["C06"] = dict(technique=FN, category="model_checking", ref="DESIGN.md section 3 C06",
    text=("ProcStat.tla states what the 12 per-process methods must answer for an abstract stat/status/task record; TLC "
          "enumerates every comm over a 6-byte alphabet (space, parentheses, newline, 0xff) up to length 2 (thorough 3) plus "
          "15/16-byte names x 12 state letters x 3 record layouts x 4 tty numbers x 1-2 threads (13k-80k inputs), checks "
          "independence from the name and one row per thread, and each pair is executed on the real code at counter scales up to 2^64; "
          "3k-20k random records (non-UTF-8 bytes, 3 threads) are run through the code and the recorded answers judged by TLC."),
    note=TB + " Floats compared with exact rationals up to 4 ulp.")

CHECKS["C15"] = dict(technique="TLA+ model checking (TLC) of the wait_pid polling loop in virtual time; every enumerated configuration replayed into the real wait() over a virtual clock; wait_procs executions validated by TLC against a TLA+ contract (trace validation)", category="model_checking", ref="DESIGN.md section 3 C15",
    text=("Wait.tla models Process.wait(timeout)/wait_pid as Poll / deadline-check / Sleep steps in virtual time (0.05 ms "
          "half-units, real constants: first sleep 0.1 ms, cap 40 ms) for child / non-child / never-existed PIDs; Init "
          "enumerates exit instants around every poll instant and deadline (thorough: every odd instant up to 150 ms) x "
          "timeouts (None, 0, negative, 5 to 16 finite) x 4 exit statuses; TLC checks never-early, right status, "
          "TimeoutExpired only with the process alive at the deadline and at most one poll late, back-off shape, no sleep "
          "for timeout=0, cached second call and termination (liveness under WF). Every configuration is then executed on "
          "the real code with os.waitpid/kill/time on the simulated kernel's virtual clock, comparing outcome, sleep "
          "arguments and return instant. 2.5k-20k seeded wait_procs executions are validated by TLC against WaitProcs.tla."),
    note=TB + " EINTR is absorbed by os.waitpid (PEP 475) and is not surfaced; wait status words come from real children.")

CHECKS["C05"] = dict(technique="TLA+ model checking (TLC): table enumeration + explicit DFS steps with liveness; every enumerated (table, caller) replayed into the real code over simkernel", category="model_checking", ref="DESIGN.md section 3 C05",
    text=("ProcTree.tla enumerates every process table of 3 PIDs (thorough: 4) -- ppid in listed PIDs, 0 or an unlisted PID, "
          "start ticks in 0..2, any listed subset -- and every caller; the recursive walk is modelled as the code's "
          "explicit stack/seen loop, one iteration per action, so TLC proves termination (liveness under WF) and a step bound "
          "on every graph incl. self-loops and cycles, and that the walk's result equals the declarative reachability, each "
          "node once, never the caller, never an older process. All 40k (table, caller) pairs are rendered as stat files "
          "(with hostile process names) and children()/children(recursive)/parent()/parents() compared as PID sets/"
          "sequences, plus recycled-caller, swept-cache and vanish-during-walk variants."),
    note=TB + " The walk prunes at processes older than the caller (documented behaviour); parents() only on chains that reach a root.")

CHECKS["C03"] = dict(technique="TLA+ model checking (TLC) of the error-translation trees over every placement of kernel phase changes; fault enumeration at every OS access of every Process query on the real code, each run judged by TLC against MidCallTrace.tla (trace validation)", category="model_checking", ref="DESIGN.md section 3 C03",
    text=("MidCall.tla models a query as a sequence of classed OS accesses with the kernel moving the process alive -> "
          "zombie -> gone at any instant (also between a failing access and the zombie / existence probes) and one refused "
          "access, through wrap_exceptions, _raise_if_zombie, the issue-2418 existence probe and hit_enoent/_raise_if_not_alive; "
          "TLC checks no bare OSError, NSP only if gone, ZP only if seen as zombie, AD only if denied, termination. On the real "
          "code every access index of 40 method forms (all as_dict attributes, as_dict, children, parent(s), is_running, "
          "process_iter(attrs), rlimit, cpu_affinity([]), wait(0)) gets vanish / zombie / EACCES / EPERM faults and "
          "(deny i, vanish j) pairs over a fully populated simulated process (threads, descriptors, mappings, sockets, "
          "children); each of the ~1-5k runs is logged and judged by TLC, including follow-up queries after the process is gone."),
    note=TB + " Three signed findings (identity probe denied, ppid_map denied, /proc listing denied). Truncated records are out of scope (the quantifier's kernel never returns partial records).")
CHECKS["C16"] = dict(technique="TLA+ model checking (TLC) of the memoize/oneshot algorithm at statement granularity with 1-3 threads; executions of the real code under a deterministic line-level thread scheduler (bounded pre-emptions) and random single-thread programs, each validated by TLC against OneshotTrace.tla; as_dict decision table enumerated by TLC and replayed", category="model_checking", ref="DESIGN.md section 3 C16",
    text=("Oneshot.tla models both cache layers (front-end and platform), the three-case lookup, the tolerant store, "
          "enter (lock, nested no-op, seven dict re-creations) and exit/raise (seven tolerant deletions) per statement, for four "
          "thread programs; TLC checks no spurious error, the quiescent-floor version window on every call, block snapshot and "
          "at-most-one-read on non-interfered blocks; a regression config shows the model raises the issue-1948 error without the "
          "guard. The real code is run (a) on 1.5k-6k random single-thread programs with nesting, raising bodies and mid-call kernel "
          "bumps and (b) under a CHESS-style scheduler that pre-empts real threads at every source line of psutil (<= 2, thorough 3 "
          "pre-emptions, 2.5k-11k schedules); every execution's event log is judged by TLC. AsDict.tla's 1024-row decision table "
          "(keys, ad_value, NoSuchProcess, ValueError/TypeError before any OS access) is replayed row by row."),
    note=TB + " CPython's threading/sys.settrace behaviour; Process._lock replaced by a cooperative lock from outside.")
CHECKS["C09"] = dict(technique=FN, category="model_checking", ref="DESIGN.md section 3 C09",
    text=("IoCounters.tla states the per-device and system-wide answers for abstract /proc/net/dev tables, /proc/diskstats "
          "listings in the five line layouts (per kernel generation) with the /sys/block set, and statvfs quadruples; 15 "
          "structural invariants (layout-agnostic decoding, totals = sum over whole disks, None/{} convention, 0 <= percent <= 100) "
          "are checked by TLC over the enumerated space (715 classes quick, 4053 thorough); every pair is replayed through "
          "net_io_counters/disk_io_counters (4 forms) and disk_usage over simkernel at scales up to 2^64-1, and 4k-60k random "
          "records are judged by TLC (with accept/reject canaries)."),
    note=TB + " Signed finding: the 15-field (Linux 2.4) layout is decoded one column early (an existing unit test pins that mapping).")

CHECKS["C12"] = dict(technique=FN, category="model_checking", ref="DESIGN.md section 3 C12",
    text=("ProcText.tla defines cmdline/environ/exe/cwd/name on the raw bytes the kernel exposes (five input families incl. an "
          "exe-memo state machine over link phases ok/withheld/denied/zombie) with structural invariants (argv round trip, "
          "declarative = operational environ fold, sticky exe answer, errors not remembered); TLC enumerates 21k (thorough "
          "338k) states; 9.8k-164k cases are replayed into the real methods over simkernel's sealed world (link targets and "
          "the files they name), and 4k-30k random records are judged by TLC with rejecting canaries."),
    note=TB + " Outcomes the statement leaves open are accepted as sets (listed in evidence assumptions).")

CHECKS["C17"] = dict(technique="TLA+ specification as oracle for the decoding contract (TLC enumerates utmp files, mount tables and entry-point x argument-class rows); every row executed through the real C extension rebuilt with AddressSanitizer+UBSan (memory safety observed, not decided)", category="other", ref="DESIGN.md section 3 C17 and section 4",
    text=("CExt.tla enumerates 900 utmp files (record type x fill class of user/line/host incl. full-width fields without "
          "terminator, ':0'/':0.0'), 480 mount tables (devices with escapes, 'none', nodev/zfs types, all flag) and 110 "
          "(entry point, argument class) rows (ints from -2^63 to 2^64, names of length 0/15/16/17/4096, embedded NUL, wrong types, "
          "CPU sequences with negative/huge/duplicate members); TLC checks field-width, record-type and filter invariants. Each "
          "row runs through the extension built from the working tree with clang ASan+UBSan: utmp via a private mount namespace "
          "(tmpfs over /run), mounts via PROCFS_PATH; rows are compared with the specification and any sanitizer report or "
          "abnormal exit is a violation. net_if_addrs/net_if_stats are compared with /sys/class/net and if_nameindex live."),
    note="Memory safety is outside the expressive power of TLA+: absence of sanitizer reports covers only the enumerated input classes. Trusted base: TLC, the sanitizer runtimes, the live kernel's /sys/class/net.")

CHECKS["C13"] = dict(technique=FN, category="model_checking", ref="DESIGN.md section 3 C13",
    text=("ProcMem.tla: statm page counts and mapping lists (0-3, thorough 4, mappings over 3-7 paths, all 32 optional-line "
          "subsets, roll-up present / ENOENT / ESRCH) -> memory_info, memory_full_info from both sources, ungrouped rows, grouped "
          "row set and memory_percent as exact rationals; 8 conservation invariants (grouped = sum of ungrouped per field, "
          "source independence) checked by TLC over 10k-83k inputs; every pair replayed over a task_mmu.c-faithful renderer "
          "calibrated byte-for-byte against the live /proc/self/smaps; 3k-20k random records judged by TLC."),
    note=TB)
CHECKS["C14"] = dict(technique=FN, category="model_checking", ref="DESIGN.md section 3 C14",
    text=("ProcFds.tla: descriptor tables (16 archetypes: regular/socket/pipe/anon/device/dir/relative, access modes 0-3 x "
          "flag sets, offsets to 2^63-1, ' (deleted)' situations, three close points) and /proc/<pid>/io contents -> open_files, "
          "num_fds, io_counters with an acceptance relation for the outcomes the statement leaves open; 8 invariants; 12k-74k "
          "inputs enumerated by TLC and replayed (closing descriptors through before-access hooks); 4k-60k random lines and two "
          "live-kernel records judged by TLC; 85 renderer facts calibrated against the live kernel each run."),
    note=TB)
CHECKS["C19"] = dict(technique=FN, category="model_checking", ref="DESIGN.md section 3 C19",
    text=("Sensors.tla: hwmon chips/sensors/fans in both nestings, thermal zones with trip points, batteries and AC adapter, "
          "cpufreq policies/offline CPUs, topology and /proc/stat -> the seven APIs as exact rationals with must/may entries "
          "where the statement leaves a choice; 9 invariants; 9.5k-55k trees enumerated by TLC and replayed over simkernel's "
          "sysfs for both import-time cpu_freq variants; 3.6k-28k random records judged by TLC, and TLC re-judges 20-50% of the "
          "enumerated cases against the Python twin of the agreement relation."),
    note=TB)
CHECKS["C20"] = dict(technique="TLA+ decision table (Platform.tla) checked by TLC for totality/determinism and replayed row by row on every non-Linux platform module imported over stub native layers; recorded rows re-judged by TLC", category="model_checking", ref="DESIGN.md section 3 C20",
    text=("Platform.tla: Expected/Allowed(platform, method, error, zombie listed, pid, pid 0 listed) written from the statement, "
          "slot tables transcribed from the C sources' Py_BuildValue calls, documented named tuples and promised names per "
          "platform; 14 meta-properties checked by TLC. 13k-17k error rows, 90 layout rows and 7 platform rows are replayed on "
          "_psbsd/_psosx/_pssunos/_psaix/_pswindows and on the package front end (MAC padding, Windows broadcast, __all__) "
          "imported in per-platform subprocesses over generated stub native modules with fault injection at the k-th native call."),
    note="Trusted base: TLC; the platform stubs and the slot tables transcribed from the C sources (native C of those platforms is not executed). Three signed findings (NetBSD cmdline EINVAL, SunOS unlisted PID 0 x2).")

CHECKS["C08"] = dict(technique=FN, category="model_checking", ref="DESIGN.md section 3 C08",
    text=("MemInfo.tla: meminfo field subsets x 9 magnitude patterns, zoneinfo present/absent with low watermarks, vmstat "
          "forms and sysinfo -> virtual_memory/swap_memory in bytes, percent as exact rational, the set of metrics the warning "
          "must name; 11 invariants (available and percent in range whenever free <= total, warned metrics are zero, swap "
          "conservation) over 39k (thorough 265k) inputs; 52k-531k cases replayed through the real API at scales up to 2^64/145 "
          "with warnings recorded; 6k-40k random records judged by TLC; 39 rule branches guarded against vacuity."),
    note=TB)
CHECKS["C11"] = dict(technique=FN, category="model_checking", ref="DESIGN.md section 3 C11",
    text=("NetConn.tla: socket tables (<= 3, thorough 4 sockets; 9 addresses x 3 ports, all 11 TCP states, TCP/UDP/UNIX "
          "stream/dgram/seqpacket, 5-8 UNIX names incl. abstract and with spaces), holder relation over 2 PIDs x 2 fds, 13-15 "
          "kind strings, system-wide and per-process forms -> one expectation group per selected socket with an acceptance "
          "relation (any holder for shared inet sockets, one row per holder for UNIX); 9 invariants (kind lattice, every socket "
          "once, per-process = projection); 28k-186k inputs replayed over rendered /proc/net/* and fd symlinks; 3k-20k random "
          "records and 36 live-kernel records (13 real loopback sockets shared with a child) judged by TLC."),
    note=TB)

CHECKS["C18"] = dict(technique=SM + "; the same transitions also replayed on two live child processes with independent read-back channels; recorded histories judged by TLC", category="model_checking", ref="DESIGN.md section 3 C18",
    text=("Settings.tla: two processes x nice / ioprio (class, data) / affinity within a cpuset / rlimits with psutil's "
          "validation rules and the kernel's EINVAL/EPERM rules; statement-shaped allowed outcomes vs implementation-shaped "
          "algorithm, action properties set-then-get, valid-succeeds, get-reads-kernel, others-unchanged, "
          "invalid-changes-nothing over the whole finite domains. Six dumped graphs (96k transitions, thorough +288k) are toured on "
          "simkernel (eligible sets with holes) and on two real children whose settings are read back through psutil and "
          "through os.getpriority / raw ioprio_get / sched_getaffinity / /proc/<pid>/limits, siblings compared before/after; "
          "with VERIF_ASAN=1 the live part runs on the ASan/UBSan build. 800-4800 recorded histories judged by TLC."),
    note=TB + " Live target needs >= 4 CPUs and root; two signed findings (eligible CPUs).")

CHECKS["C07"] = dict(technique=SM + " (each model thread is a real thread); recorded answers judged by TLC", category="model_checking", ref="DESIGN.md section 3 C07",
    text=("CpuPercent.tla: per-CPU kernel counters in ticks with 7-10 field layouts, the four per-thread last-sample maps of "
          "cpu_percent / cpu_times_percent (percpu or not), blocking and non-blocking forms on a virtual clock, and "
          "Process.cpu_percent's per-object sample; KernelAdvance adds arbitrary per-field deltas incl. negative ones; results "
          "as exact rationals; action properties: range [0,100], non-guest shares add up to 100 whenever any time elapsed, "
          "negative deltas contribute zero, thread independence. Transition tours and simulated behaviours are replayed with "
          "one real thread per model thread over rendered /proc/stat (one template process per field layout, since psutil "
          "samples at import); recorded answers on random snapshots are judged by TLC."),
    note=TB + " Values rounded to one decimal are compared with |x - q| <= 0.05.")

PENDING = "check under construction in this round (see DESIGN.md section 6 work order)"
NA = {}


def main():
    checks = []
    for pid in IDS:
        c = CHECKS.get(pid)
        if not c:
            continue
        checks.append({
            "property_id": pid,
            "quick_cmd": "./check %s --tier quick" % pid,
            "thorough_cmd": "./check %s --tier thorough" % pid,
            "evidence_file": "/verif/evidence/%s.json" % pid,
            "replay_cmd_template": "./check %s --replay {path}" % pid,
            "engine": "tlc+simkernel",
            "level_claimed": {"category": c["category"], "text": c["text"], "design_ref": c["ref"]},
            "level_note": c["note"],
            "technique": c["technique"],
        })
    na = [{"property_id": p, "reason": NA.get(p, PENDING)} for p in IDS if p not in CHECKS]
    m = {
        "version": 1,
        "setup_cmd": "./setup.sh",
        "hooks": {
            "guard": "PSUTIL_VERIF",
            "enable": "no source hooks: psutil is observed through its public API over an interposed simulated kernel; checks export PSUTIL_VERIF=1 but the sources do not read it",
            "baseline_off_cmd": "cd /repo && /venv/bin/python -m pytest -ra -q -p no:cacheprovider --timeout=900 --continue-on-collection-errors",
            "source_commits": [],
            "add_only": True,
        },
        "engines": [
            {"name": "tlc+simkernel", "path": "/verif/check",
             "serves_properties": sorted(CHECKS),
             "kind_free_text": "explicit TLA+ specifications (spec/*.tla) checked by TLC; conformance by replaying TLC transition dumps / simulated behaviours into the unmodified psutil running over a Python simulated kernel, and by validating recorded traces with TLC"},
        ],
        "checks": checks,
        "notes": "Known findings: /verif/known_findings.json. Genuine defects repaired in /repo by 'fix:' commits are listed there as fixed entries.",
        "not_applicable": na,
    }
    with open(os.path.join(HERE, "MANIFEST.json"), "w") as f:
        json.dump(m, f, indent=1)
    print("checks:", [c["property_id"] for c in checks], "n/a:", len(na))


main()

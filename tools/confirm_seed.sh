#!/bin/bash
# usage: confirm_seed.sh <PROP> <x>   -- confirm a seeded change in a scratch worktree
# and, if confirmed, store it under /verif/seeded/<PROP>-<x>/
P=$1; X=$2; SRC=/tmp/seed-$P/$X; WT=/tmp/cw-$P-$X; OUT=/verif/seeded/$P-$X
[ -f $SRC/patch.diff ] || { echo "no patch"; exit 1; }
git -C /repo worktree remove --force $WT 2>/dev/null
git -C /repo worktree add -q --detach $WT HEAD || exit 1
cd $WT && /venv/bin/python setup.py build_ext -i >/dev/null 2>&1
cp $SRC/demo.py $WT/_demo.py
PYTHONPATH=$WT timeout 300 /venv/bin/python _demo.py >/tmp/cw-$P-$X.unchanged.log 2>&1; RC0=$?
git apply $SRC/patch.diff || { echo "patch does not apply"; RCA=1; }
/venv/bin/python setup.py build_ext -i >/dev/null 2>&1
PYTHONPATH=$WT timeout 300 /venv/bin/python _demo.py >/tmp/cw-$P-$X.changed.log 2>&1; RC1=$?
PYTHONPATH=$WT timeout 1500 /venv/bin/python -m pytest -q -p no:cacheprovider psutil/tests/test_process.py psutil/tests/test_system.py psutil/tests/test_misc.py psutil/tests/test_linux.py psutil/tests/test_posix.py psutil/tests/test_testutils.py psutil/tests/test_contracts.py psutil/tests/test_unicode.py psutil/tests/test_memleaks.py -q --timeout=600 2>&1 | tail -5 > /tmp/cw-$P-$X.tests.log
FAILED=$(grep -c "^FAILED" /tmp/cw-$P-$X.tests.log)
# tests that fail under machine load are re-run alone (twice) before they count
ONLYUSERS=0
for T in $(grep "^FAILED" /tmp/cw-$P-$X.tests.log | grep -v "test_users" | awk '{print $2}'); do
  OK=0
  for i in 1 2; do PYTHONPATH=$WT timeout 600 /venv/bin/python -m pytest -q -p no:cacheprovider "$T" -q --timeout=300 >/dev/null 2>&1 && OK=1 && break; done
  [ $OK = 1 ] || ONLYUSERS=$((ONLYUSERS+1))
done
cd /; git -C /repo worktree remove --force $WT
echo "$P-$X demo_unchanged=$RC0 demo_changed=$RC1 other_failed_tests=$ONLYUSERS tests: $(tail -1 /tmp/cw-$P-$X.tests.log)"
if [ "$RC0" = 0 ] && [ "$RC1" != 0 ] && [ "$ONLYUSERS" = 0 ]; then
  mkdir -p $OUT; cp $SRC/patch.diff $SRC/demo.py $OUT/
  /venv/bin/python - <<PY
import json
m=json.load(open("$SRC/meta.json"))
m["confirmed"]={"demo_exit_unchanged":$RC0,"demo_exit_changed":$RC1,
 "tests":"test_process test_system test_misc test_linux test_posix test_testutils test_contracts test_unicode test_memleaks with the change applied: "+open("/tmp/cw-$P-$X.tests.log").read().strip().splitlines()[-1]+" (only pre-existing sandbox failure test_users tolerated)",
 "how":"tools/confirm_seed.sh $P $X in a scratch worktree of /repo HEAD"}
json.dump(m,open("$OUT/meta.json","w"),indent=1)
PY
  echo CONFIRMED $P-$X
else
  echo REJECTED $P-$X
fi

#!/bin/bash
# usage: run_neutral.sh <dir-name under /verif/neutral, e.g. C05-n1> <CHECK>...
# runs the given checks (quick tier) against a behaviour-preserving change in a scratch
# worktree; every check is expected to exit 0
S=$1; shift; WT=/tmp/neutralrun-$S-$$
git -C /repo worktree add -q --detach $WT HEAD || exit 2
git -C $WT apply /verif/neutral/$S/patch.diff 2>/dev/null || git -C $WT apply --3way /verif/neutral/$S/patch.diff || { git -C /repo worktree remove --force $WT; echo "neutral=$S patch does not apply"; exit 2; }
RCALL=0
for P in "$@"; do
  (cd /verif && VERIF_REPO=$WT ./check $P --tier quick > /tmp/neutralrun-$S-$P.log 2>&1); RC=$?
  echo "neutral=$S check=$P exit=$RC $(grep -m1 'signature' /tmp/neutralrun-$S-$P.log)"
  [ $RC = 0 ] || RCALL=1
done
git -C /repo worktree remove --force $WT; rm -rf $WT.verif-out
exit $RCALL

#!/bin/bash
# Run every behaviour-preserving change under /verif/neutral against its property's check (and the
# checks named in neutral/<name>/also.txt); every run must exit 0.  Writes neutral/RESULTS.tsv
cd /verif
JOBS=${JOBS:-3}
TMP=$(mktemp -d)
for d in neutral/C*/; do S=$(basename $d); P=${S%-*}; echo "$S $P"; [ -f $d/also.txt ] && for C in $(cat $d/also.txt); do echo "$S $C"; done; done \
 | xargs -P $JOBS -L 1 bash -c 'L=$(tools/run_neutral.sh $0 $1 | grep neutral=); RC=$(echo "$L" | sed -n "s/.*exit=\([0-9]*\).*/\1/p"); SIG=$(echo "$L" | sed -n "s/.*signature: \(.*\)/\1/p"); echo -e "$0\t$1\t${RC:-2}\t$SIG" > '$TMP'/$0-$1.tsv'
echo -e "neutral\tcheck\texit\tsignature" > neutral/RESULTS.tsv
cat $TMP/*.tsv | sort >> neutral/RESULTS.tsv
rm -rf $TMP
awk -F'\t' 'NR>1 && $3!=0' neutral/RESULTS.tsv

#!/bin/bash
# run every claimed check's quick (or given tier) command; print exit code and wall time
cd /verif; T=${1:-quick}
for P in $(python3 -c "import json; print(' '.join(c['property_id'] for c in json.load(open('MANIFEST.json'))['checks']))"); do
  S=$(date +%s.%N); ./check $P --tier $T > /tmp/runall-$P.log 2>&1; RC=$?; E=$(date +%s.%N)
  printf "%s exit=%s wall=%.0fs known=%s viol=%s\n" $P $RC $(echo "$E - $S" | bc) $(grep -c KNOWN-FINDING /tmp/runall-$P.log) $(grep -c VIOLATION /tmp/runall-$P.log)
done

#!/bin/bash
# usage: run_seed.sh <seed-dir-name e.g. C05-a> <PROP> [tier]  -- run a check against a seeded change
# in a scratch worktree (never touches /repo's working tree)
S=$1; P=$2; T=${3:-quick}; WT=/tmp/seedrun-$S-$$
git -C /repo worktree add -q --detach $WT HEAD || exit 2
git -C $WT apply /verif/seeded/$S/patch.diff 2>/dev/null || git -C $WT apply --3way /verif/seeded/$S/patch.diff || { git -C /repo worktree remove --force $WT; echo "patch does not apply"; exit 2; }
cd /verif && VERIF_REPO=$WT ./check $P --tier $T > /tmp/seedrun-$S-$P.log 2>&1; RC=$?
git -C /repo worktree remove --force $WT; rm -rf $WT.verif-out
echo "seed=$S check=$P tier=$T exit=$RC $(grep -m1 'signature' /tmp/seedrun-$S-$P.log)"
exit $RC

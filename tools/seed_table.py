#!/usr/bin/env python3
"""Write the seeded-change table of DESIGN.md section 7.5 from seeded/*/meta.json
and seeded/RESULTS.tsv (between the BEGIN/END SEEDS markers)."""
import glob
import json
import os

HERE = os.path.dirname(os.path.dirname(os.path.abspath(__file__)))
res = {}
p = os.path.join(HERE, "seeded", "RESULTS.tsv")
if os.path.exists(p):
    for line in open(p).read().splitlines()[1:]:
        f = line.split("\t")
        if len(f) >= 4:
            res.setdefault(f[0], []).append((f[1], f[3], f[4] if len(f) > 4 else ""))
rows = ["| seed | what the change does | needs | check: verdict (signature) |", "|---|---|---|---|"]
for d in sorted(glob.glob(os.path.join(HERE, "seeded", "C*"))):
    if not os.path.isdir(d):
        continue
    name = os.path.basename(d)
    m = json.load(open(os.path.join(d, "meta.json")))
    verdicts = "; ".join("%s: %s%s" % (c, "caught" if rc == "1" else ("MISSED" if rc == "0" else "error rc=" + rc),
                                       (" (`%s`)" % sig[:60]) if sig else "") for c, rc, sig in res.get(name, [])) or "not run yet"
    rows.append("| %s | %s | %s | %s |" % (name, m.get("summary", "").replace("|", "/")[:230],
                                         m.get("needs", "").replace("|", "/")[:200], verdicts))
txt = "\n".join(rows)
path = os.path.join(HERE, "DESIGN.md")
s = open(path).read()
b, e = "<!-- BEGIN SEEDS -->", "<!-- END SEEDS -->"
if b in s:
    s = s[:s.index(b) + len(b)] + "\n" + txt + "\n" + s[s.index(e):]
    open(path, "w").write(s)
    print("table written:", len(rows) - 2, "seeds")
else:
    print(txt)

----------------------------- MODULE CpuPercent -----------------------------
(***************************************************************************)
(* C07 -- psutil.cpu_times(percpu), psutil.cpu_percent(interval, percpu),  *)
(* psutil.cpu_times_percent(interval, percpu) and Process.cpu_percent(     *)
(* interval) over the kernel's per-CPU tick counters (/proc/stat), the     *)
(* calling threads' previous samples and the wall clock.                   *)
(*                                                                         *)
(* State: the import-time configuration (number of CPUs, 7..10 counter     *)
(* fields, CLK_TCK), the kernel's counters in ticks, the four per-thread   *)
(* "last sample" maps (cpu_percent / cpu_times_percent x percpu / not),    *)
(* one process' utime/stime ticks, the wall clock (unit 1/WallDen s) and   *)
(* the per-Process-object last sample.                                     *)
(*                                                                         *)
(* Every call publishes in `ev` what the STATEMENT of C07 demands, as      *)
(* exact rationals <<num, den>> (plus the value rounded half-even to one   *)
(* decimal, in tenths).  Algo = "stated" is the specification;             *)
(* Algo = "psutil700" transcribes the one place where psutil 7.0.0 is      *)
(* known to compute something else (cpu_times_percent's scale) and is only *)
(* used as a probe showing that TLC's SharesSum property is not vacuous.   *)
(***************************************************************************)
EXTENDS Naturals, Integers, Sequences, FiniteSets, TLC, Json

CONSTANTS NCpuSet, NFSet, ClkSet,   \* import-time configurations explored
          Threads,                  \* model threads; "main" imported psutil
          Fns,                      \* subset of {"cp", "ctp"}
          Forms,                    \* subset of {"per", "tot"}  (percpu=True / False)
          Modes,                    \* subset of {"nb", "block", "neg", "times"}
          DeltaMode,                \* "full": every vector over ActiveF x DVals on the first CPU
                                    \* "pat" : the named patterns of Patterns
          DPos, DNeg,               \* DVals = DPos \cup {-x : x \in DNeg}
          Patterns,                 \* named delta vectors of kernel advances
          BlockPats,                \* ... of the advance inside a blocking call
          MaxAdv, MaxCalls,         \* kernel advances / calls per thread
          Objs,                     \* Process objects (same PID); {} disables the process part
          PModes,                   \* subset of {"nb", "block", "neg"}
          WallSteps, ProcSteps,     \* wall clock steps (1/WallDen s), process tick steps
          MaxPCalls, MaxTicks,
          WallDen,                  \* wall clock unit = 1/WallDen second
          BlockWall,                \* wall units a blocking system-wide call sleeps
          Algo                      \* "stated" | "psutil700"

VARIABLES ncpu, nf, clk,            \* fixed by Init (import-time configuration)
          cpu,                      \* kernel: <<per CPU <<per field ticks>>>>
          last,                     \* [fn][form][thread] : sample (tuple of rows) or <<>>
          nadv, calls,
          wall, ptk,                \* wall clock; process <<utime, stime>> ticks
          plast,                    \* [obj] : <<>> or <<wall, ticks>>
          npcalls, nticks,
          ev

vars == <<ncpu, nf, clk, cpu, last, nadv, calls, wall, ptk, plast, npcalls, nticks, ev>>
view == <<ncpu, nf, clk, cpu, last, nadv, calls, wall, ptk, plast, npcalls, nticks>>

AllFns == {"cp", "ctp"}
AllForms == {"per", "tot"}
NoSample == <<>>
Open == <<0, 0>>                    \* the statement leaves this value open
Max(a, b) == IF a > b THEN a ELSE b
Min(a, b) == IF a < b THEN a ELSE b

(* kernel order of the fields: 1 user 2 nice 3 system 4 idle 5 iowait 6 irq
   7 softirq 8 steal 9 guest 10 guest_nice; guest time is contained in user,
   guest_nice in nice *)
IDLE == 4
IOWAIT == 5
IsGuest(f) == f >= 9
NonGuest(n) == 1..Min(n, 8)

SumTo(v, n) ==      \* v[1] + ... + v[n], n <= 12 (10 fields; up to 12 CPUs)
  LET G(k) == IF k <= n THEN v[k] ELSE 0
  IN G(1) + G(2) + G(3) + G(4) + G(5) + G(6) + G(7) + G(8) + G(9) + G(10) + G(11) + G(12)

\* <<F(1), ..., F(n)>> built eagerly (TLC keeps [i \in 1..n |-> e] lazy, and a
\* lazy value inside the VIEW-hidden `ev` cannot be written to the state queue)
MkSeq(n, F(_)) ==
  LET G(k) == IF k <= n THEN F(k) ELSE 0
  IN SubSeq(<<G(1), G(2), G(3), G(4), G(5), G(6), G(7), G(8), G(9), G(10), G(11), G(12)>>, 1, n)   \* n <= 12

Total(m) == MkSeq(Len(m[1]), LAMBDA f : SumTo([c \in 1..Len(m) |-> m[c][f]], Len(m)))
Samp(form, m) == IF form = "per" THEN m ELSE <<Total(m)>>

ZeroV(n) == MkSeq(n, LAMBDA f : 0)
ZeroM == MkSeq(ncpu, LAMBDA c : ZeroV(nf))
Plus(m, dm) == MkSeq(Len(m), LAMBDA c : MkSeq(Len(m[c]), LAMBDA f : m[c][f] + dm[c][f]))
NonNegM(m) == \A c \in 1..Len(m) : \A f \in 1..Len(m[c]) : m[c][f] >= 0

(* ---------------- what the statement demands for one CPU row ------------- *)
Deltas(a, b) == MkSeq(Len(b), LAMBDA f : Max(0, b[f] - a[f]))       \* decreasing counter: zero
Tot(d) == SumTo([f \in NonGuest(Len(d)) |-> d[f]], Min(Len(d), 8)) \* guest not counted twice
Busy(d) == Tot(d) - d[IDLE] - d[IOWAIT]                           \* idle, iowait are not busy

\* round-half-even of num/den to an integer (den > 0, num >= 0)
RoundHE(num, den) ==
  LET q == num \div den
      r == num % den
  IN IF 2 * r < den THEN q
     ELSE IF 2 * r > den THEN q + 1
     ELSE IF q % 2 = 0 THEN q ELSE q + 1

Ratio(num, den) == IF num > den THEN <<100, 1>> ELSE <<100 * num, den>>   \* clamp to 100
Tenths(q) == IF q[2] = 0 THEN -1 ELSE RoundHE(10 * q[1], q[2])

CpRow(a, b) ==
  LET d == Deltas(a, b)
      tot == Tot(d)
      \* no non-guest time elapsed: 0.0 -- unless the guest columns moved alone
      \* (user went backwards while guest advanced), which 100*busy/total leaves open
      q == IF tot = 0 THEN (IF \E f \in 1..Len(d) : IsGuest(f) /\ d[f] > 0 THEN Open ELSE <<0, 1>>)
           ELSE Ratio(Busy(d), tot)
  IN [tot |-> tot, d |-> d, q |-> q, r10 |-> Tenths(q)]

CtpRow(a, b) ==
  LET d == Deltas(a, b)
      tot == Tot(d)
      \* psutil 7.0.0: scale = 100.0 / max(1, all_delta) with all_delta in SECONDS
      den == IF Algo = "psutil700" /\ tot < clk THEN clk ELSE tot
      q == MkSeq(Len(d), LAMBDA f :
              IF tot = 0 THEN (IF IsGuest(f) /\ d[f] > 0 THEN Open ELSE <<0, 1>>)
              ELSE Ratio(d[f], den))
  IN [tot |-> tot, d |-> d, q |-> q, r10 |-> MkSeq(Len(d), LAMBDA f : Tenths(q[f]))]

RowRes(fn, a, b) == IF fn = "cp" THEN CpRow(a, b) ELSE CtpRow(a, b)

(* ---------------- kernel advances ---------------------------------------- *)
DVals == DPos \cup {0 - x : x \in DNeg}
ActiveF == IF nf >= 9 THEN {1, 3, 4, 5, 9} ELSE IF nf = 8 THEN {1, 3, 4, 5, 8} ELSE {1, 3, 4, 5, 7}

Pat10(p) ==
  CASE p = "idle"    -> <<0, 0, 0, 5, 0, 0, 0, 0, 0, 0>>      \* nothing busy
    [] p = "user"    -> <<1, 0, 0, 0, 0, 0, 0, 0, 0, 0>>      \* one tick: sub-second, all busy
    [] p = "mix"     -> <<5, 0, 1, 5, 1, 0, 0, 0, 0, 0>>      \* 12 ticks, 6 busy
    [] p = "guest"   -> <<5, 1, 0, 5, 0, 0, 0, 0, 5, 1>>      \* guest inside user, guest_nice inside nice
    [] p = "back"    -> <<1, 0, 0, -1, 0, 0, 0, 0, 0, 0>>     \* idle goes backwards
    [] p = "backall" -> <<-1, -1, -1, -1, -1, -1, -1, -1, -1, -1>>
    [] p = "all"     -> <<1, 1, 1, 1, 1, 1, 1, 1, 1, 1>>
    [] p = "steal"   -> <<0, 0, 0, 5, 0, 1, 1, 5, 0, 0>>
    [] p = "big"     -> <<100, 0, 100, 200, 0, 0, 0, 0, 0, 0>>  \* 4 s at CLK_TCK = 100
    [] p = "gonly"   -> <<-1, 0, 0, 0, 0, 0, 0, 0, 5, 0>>     \* guest advances, user clipped
PatV(p) == MkSeq(nf, LAMBDA f : Pat10(p)[f])

OneCpu(c, v) == MkSeq(ncpu, LAMBDA k : IF k = c THEN v ELSE ZeroV(nf))
AllCpu(v) == MkSeq(ncpu, LAMBDA k : v)

DeltaSpace(pats) ==
  IF DeltaMode = "full"
    \* every delta vector over ActiveF x DVals on the first CPU, after one
    \* initial advance of every counter (so that counters can go backwards)
    THEN IF nadv = 0 THEN {AllCpu(PatV("all"))}
         ELSE {OneCpu(1, MkSeq(nf, LAMBDA f : IF f \in ActiveF THEN v[f] ELSE 0)) :
                  v \in [ActiveF -> DVals]}
    ELSE {OneCpu(c, PatV(p)) : c \in 1..ncpu, p \in pats}
         \cup {AllCpu(PatV(p)) : p \in pats}

UnchangedCfg == UNCHANGED <<ncpu, nf, clk>>
UnchangedProc == UNCHANGED <<wall, ptk, plast, npcalls, nticks>>

KAdvance(dm) ==
  /\ nadv < MaxAdv
  /\ dm # ZeroM
  /\ NonNegM(Plus(cpu, dm))
  /\ cpu' = Plus(cpu, dm)
  /\ nadv' = nadv + 1
  /\ ev' = [op |-> "adv", dm |-> dm, cpu |-> cpu']
  /\ UnchangedCfg /\ UnchangedProc /\ UNCHANGED <<last, calls>>

(* ---------------- system-wide calls --------------------------------------- *)
\* cpu_times(percpu): every counter, in ticks (the code reports ticks / CLK_TCK seconds)
Times(form) ==
  /\ calls["main"] < MaxCalls
  /\ calls' = [calls EXCEPT !["main"] = @ + 1]
  /\ ev' = [op |-> "times", form |-> form, res |-> Samp(form, cpu)]
  /\ UnchangedCfg /\ UnchangedProc /\ UNCHANGED <<cpu, last, nadv>>

\* mode "nb": interval None / 0.0 ; "block": interval > 0 with the kernel
\* advancing by dm during the sleep.  A thread without a previous sample takes
\* both samples within the call: no time elapsed as far as the statement goes.
Call(t, fn, form, mode, dm) ==
  /\ calls[t] < MaxCalls
  /\ calls' = [calls EXCEPT ![t] = @ + 1]
  /\ mode = "nb" => dm = ZeroM
  /\ dm # ZeroM => nadv < MaxAdv
  /\ nadv' = IF dm # ZeroM THEN nadv + 1 ELSE nadv
  /\ NonNegM(Plus(cpu, dm))
  /\ cpu' = Plus(cpu, dm)
  /\ LET prev == last[fn][form][t]
         fresh == mode = "nb" /\ prev = NoSample
         a == IF mode = "block" \/ fresh THEN Samp(form, cpu) ELSE prev
         b == Samp(form, cpu')
     IN /\ last' = [last EXCEPT ![fn][form][t] = b]
        /\ ev' = [op |-> "call", t |-> t, fn |-> fn, form |-> form, mode |-> mode,
                  fresh |-> fresh, dm |-> dm, a |-> a, b |-> b,
                  res |-> MkSeq(Len(b), LAMBDA i : RowRes(fn, a[i], b[i]))]
  \* (the clock only matters to Process.cpu_percent: not tracked without objects)
  /\ wall' = IF mode = "block" /\ Objs # {} THEN wall + BlockWall ELSE wall
  /\ UnchangedCfg /\ UNCHANGED <<ptk, plast, npcalls, nticks>>

CallNeg(t, fn, form) ==
  /\ calls[t] < MaxCalls
  /\ calls' = [calls EXCEPT ![t] = @ + 1]
  /\ ev' = [op |-> "call", t |-> t, fn |-> fn, form |-> form, mode |-> "neg", err |-> "ValueError"]
  /\ UnchangedCfg /\ UnchangedProc /\ UNCHANGED <<cpu, last, nadv>>

(* ---------------- Process.cpu_percent -------------------------------------- *)
PTicks == ptk[1] + ptk[2]

Tick(dt) ==
  /\ nticks < MaxTicks
  /\ nticks' = nticks + 1
  /\ wall' = wall + dt
  /\ ev' = [op |-> "tick", dt |-> dt, wall |-> wall']
  /\ UnchangedCfg /\ UNCHANGED <<cpu, last, nadv, calls, ptk, plast, npcalls>>

PAdvance(du, ds) ==
  /\ nticks < MaxTicks
  /\ du + ds > 0
  /\ nticks' = nticks + 1
  /\ ptk' = <<ptk[1] + du, ptk[2] + ds>>
  /\ ev' = [op |-> "padv", ptk |-> ptk']
  /\ UnchangedCfg /\ UNCHANGED <<cpu, last, nadv, calls, wall, plast, npcalls>>

\* 100 * (ticks / clk) / (dw / WallDen)
RECURSIVE GCD(_, _)
GCD(a, b) == IF b = 0 THEN a ELSE GCD(b, a % b)
PRatio(dc, dw) ==
  LET g == GCD(100, clk)
  IN IF dw = 0 THEN Open ELSE <<(100 \div g) * dc * WallDen, (clk \div g) * dw>>

\* non-blocking: since this object's previous call; 0.0 on the first call
PCallNb(o) ==
  /\ npcalls < MaxPCalls
  /\ npcalls' = npcalls + 1
  /\ plast' = [plast EXCEPT ![o] = <<wall, PTicks>>]
  /\ ev' = [op |-> "pcall", o |-> o, mode |-> "nb", first |-> plast[o] = NoSample, err |-> "",
            res |-> IF plast[o] = NoSample THEN <<0, 1>>
                    ELSE PRatio(PTicks - plast[o][2], wall - plast[o][1])]
  /\ UnchangedCfg /\ UNCHANGED <<cpu, last, nadv, calls, wall, ptk, nticks>>

\* blocking: the process uses du+ds ticks while the caller sleeps dt
PCallBlock(o, dt, du, ds) ==
  /\ npcalls < MaxPCalls
  /\ dt > 0
  /\ npcalls' = npcalls + 1
  /\ wall' = wall + dt
  /\ ptk' = <<ptk[1] + du, ptk[2] + ds>>
  /\ plast' = [plast EXCEPT ![o] = <<wall', ptk'[1] + ptk'[2]>>]
  /\ ev' = [op |-> "pcall", o |-> o, mode |-> "block", first |-> FALSE, err |-> "", dt |-> dt, du |-> du, ds |-> ds,
            res |-> PRatio(du + ds, dt)]
  /\ UnchangedCfg /\ UNCHANGED <<cpu, last, nadv, calls, nticks>>

PCallNeg(o) ==
  /\ npcalls < MaxPCalls
  /\ npcalls' = npcalls + 1
  /\ ev' = [op |-> "pcall", o |-> o, mode |-> "neg", first |-> FALSE, err |-> "ValueError", res |-> Open]
  /\ UnchangedCfg /\ UNCHANGED <<cpu, last, nadv, calls, wall, ptk, plast, nticks>>

(* ---------------- behaviours ------------------------------------------------ *)
InitRest ==
  /\ cpu = ZeroM
  \* the importing thread's samples are taken when psutil is imported
  /\ last = [fn \in AllFns |-> [fm \in AllForms |-> [t \in Threads |->
               IF t = "main" THEN Samp(fm, cpu) ELSE NoSample]]]
  /\ nadv = 0
  /\ calls = [t \in Threads |-> 0]
  /\ wall = 0 /\ ptk = <<0, 0>>
  /\ plast = [o \in Objs |-> NoSample]
  /\ npcalls = 0 /\ nticks = 0
  /\ ev = [op |-> "init"]

Init == ncpu \in NCpuSet /\ nf \in NFSet /\ clk \in ClkSet /\ InitRest

\* (guards hoisted so that TLC does not build DeltaSpace in vain)
Advances == IF nadv < MaxAdv THEN DeltaSpace(Patterns) ELSE {}
MidCall == IF nadv < MaxAdv THEN DeltaSpace(BlockPats) ELSE {}

Next ==
  \/ \E dm \in Advances : KAdvance(dm)
  \/ \E t \in {u \in Threads : calls[u] < MaxCalls}, fn \in Fns, fm \in Forms :
        \/ "nb" \in Modes /\ Call(t, fn, fm, "nb", ZeroM)
        \/ "block" \in Modes /\ \E dm \in MidCall \cup {ZeroM} : Call(t, fn, fm, "block", dm)
        \/ "neg" \in Modes /\ CallNeg(t, fn, fm)
  \/ "times" \in Modes /\ \E fm \in Forms : Times(fm)
  \/ \E o \in Objs :
        \/ "nb" \in PModes /\ PCallNb(o)
        \/ "block" \in PModes /\ \E dt \in WallSteps \ {0}, du \in ProcSteps, ds \in ProcSteps :
                                     PCallBlock(o, dt, du, ds)
        \/ "neg" \in PModes /\ PCallNeg(o)
  \/ Objs # {} /\ \E dt \in WallSteps \ {0} : Tick(dt)
  \/ Objs # {} /\ \E du \in ProcSteps, ds \in ProcSteps : PAdvance(du, ds)

Spec == Init /\ [][Next]_vars

(* ---------------- properties ------------------------------------------------ *)
IsSysCall(e) == e.op = "call" /\ e.mode # "neg"
InRange(q) == q = Open \/ (q[2] > 0 /\ q[1] >= 0 /\ q[1] <= 100 * q[2])
RowQs(e, i) == IF e.fn = "cp" THEN {e.res[i].q} ELSE {e.res[i].q[f] : f \in 1..nf}

\* every value lies within [0, 100]
C07_Range ==
  [][IsSysCall(ev') => \A i \in 1..Len(ev'.res) : \A q \in RowQs(ev', i) : InRange(q)]_vars

\* the non-guest shares add up to 100 whenever any time elapsed, however
\* short, per CPU separately -- exactly, and within 0.05*n after rounding
C07_SharesSum ==
  [][(IsSysCall(ev') /\ ev'.fn = "ctp") =>
       \A i \in 1..Len(ev'.res) :
          LET r == ev'.res[i]
              n == Min(nf, 8)
          IN IF r.tot > 0
               THEN /\ \A f \in NonGuest(nf) : r.q[f][2] = r.tot
                    /\ SumTo([f \in NonGuest(nf) |-> r.q[f][1]], n) = 100 * r.tot
                    /\ LET s == SumTo([f \in NonGuest(nf) |-> r.r10[f]], n)
                       IN 2 * (IF s > 1000 THEN s - 1000 ELSE 1000 - s) <= n
               ELSE \A f \in NonGuest(nf) : r.q[f] = <<0, 1>>]_vars

\* a counter that went backwards contributes zero: the result is the one
\* obtained had that counter not moved at all
C07_Clip ==
  [][IsSysCall(ev') =>
       \A i \in 1..Len(ev'.res) : \A f \in 1..nf :
          ev'.b[i][f] < ev'.a[i][f] =>
             /\ ev'.res[i].d[f] = 0
             /\ ev'.res[i].q = RowRes(ev'.fn, ev'.a[i], [ev'.b[i] EXCEPT ![f] = ev'.a[i][f]]).q]_vars

\* cpu_percent: guest time is not counted twice (the result does not depend
\* on the guest columns), idle and iowait are not busy (moving idle ticks to
\* iowait changes nothing; only idle/iowait elapsed -> 0)
C07_Busy ==
  [][(IsSysCall(ev') /\ ev'.fn = "cp") =>
       \A i \in 1..Len(ev'.res) :
          LET a == ev'.a[i]
              b == ev'.b[i]
              r == ev'.res[i]
          IN /\ (nf >= 9 /\ r.tot > 0 => r.q = CpRow(a, [b EXCEPT ![9] = a[9]]).q)
             /\ (nf >= 10 /\ r.tot > 0 => r.q = CpRow(a, [b EXCEPT ![10] = a[10]]).q)
             /\ (r.tot = 0 => r.q \in {<<0, 1>>, Open})
             /\ ((r.tot > 0 /\ r.d[IDLE] + r.d[IOWAIT] = r.tot) => r.q = <<0, r.tot>>)
             /\ ((r.tot > 0 /\ r.d[IDLE] + r.d[IOWAIT] = 0) => r.q = <<100 * r.tot, r.tot>>)
             /\ (b[IDLE] >= a[IDLE] /\ b[IOWAIT] >= a[IOWAIT] =>
                   r.q = CpRow(a, [b EXCEPT ![IDLE] = a[IDLE], ![IOWAIT] = b[IOWAIT] + r.d[IDLE]]).q)]_vars

\* each calling thread (and each of the four functions/forms) is measured
\* against its own previous sample: a call touches no other sample
C07_ThreadIndependence ==
  [][ev'.op = "call" =>
       \A fn \in AllFns, fm \in AllForms, u \in Threads :
          (u # ev'.t \/ fn # ev'.fn \/ fm # ev'.form) => last'[fn][fm][u] = last[fn][fm][u]]_vars

C07_OwnSample ==
  [][(IsSysCall(ev') /\ ev'.mode = "nb" /\ ~ev'.fresh) =>
        /\ ev'.a = last[ev'.fn][ev'.form][ev'.t]
        /\ ev'.b = Samp(ev'.form, cpu)
        /\ last'[ev'.fn][ev'.form][ev'.t] = ev'.b]_vars

\* kernel events and process calls never touch a thread's sample
C07_SamplesOnlyByCalls == [][ev'.op # "call" => last' = last]_vars

\* Process.cpu_percent: 0.0 on an object's first non-blocking call, otherwise
\* a non-negative ratio against that object's own previous sample
C07_Proc ==
  [][ev'.op = "pcall" =>
       /\ (ev'.mode = "nb" /\ ev'.first => ev'.res = <<0, 1>>)
       /\ (ev'.mode # "neg" /\ ev'.res # Open => ev'.res[1] >= 0 /\ ev'.res[2] > 0)
       /\ \A o \in Objs \ {ev'.o} : plast'[o] = plast[o]]_vars

TypeOK ==
  /\ NonNegM(cpu)
  /\ \A fn \in AllFns, fm \in AllForms, t \in Threads :
        last[fn][fm][t] = NoSample \/ Len(last[fn][fm][t]) = (IF fm = "per" THEN ncpu ELSE 1)
  /\ \A fn \in AllFns, fm \in AllForms : last[fn][fm]["main"] # NoSample

(* ---------------- dump ------------------------------------------------------- *)
\* the replayer needs the call, the kernel's move and the demanded values only
EvJ(e) ==
  IF IsSysCall(e)
    THEN [op |-> e.op, t |-> e.t, fn |-> e.fn, form |-> e.form, mode |-> e.mode,
          fresh |-> e.fresh, dm |-> e.dm,
          res |-> MkSeq(Len(e.res), LAMBDA i :
                    [tot |-> e.res[i].tot, q |-> e.res[i].q, d |-> e.res[i].d,
                     back |-> \E f \in 1..nf : e.b[i][f] < e.a[i][f],
                     guest |-> \E f \in 1..nf : IsGuest(f) /\ e.res[i].d[f] > 0,
                     idle |-> e.res[i].d[IDLE] + e.res[i].d[IOWAIT]])]
    ELSE e
viewJ == view
DumpL == PrintT(<<"TR", ToJson(viewJ), ToJson(EvJ(ev')), ToJson(viewJ'), TLCGet("level")>>)
=============================================================================

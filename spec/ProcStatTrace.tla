--------------------------- MODULE ProcStatTrace ---------------------------
(***************************************************************************)
(* Trace validation for C06 (code -> spec): a driver feeds random larger   *)
(* records to the real code and logs <input, answers>; TLC evaluates the   *)
(* specification's F on every logged input and compares.                   *)
(***************************************************************************)
EXTENDS ProcStat, IOUtils, SequencesExt, Functions

Traces == ndJsonDeserialize(IOEnv.TRACE_FILE)

VARIABLE idx
tvars == <<idx, inp, out, ev>>


\* the logged answers, shaped like F's result
Got(g) == [ name |-> g.name, ppid |-> g.ppid, status |-> g.status, cpu_times |-> g.cpu_times,
            start |-> g.start, cpu_num |-> g.cpu_num, terminal |-> g.terminal,
            num_threads |-> g.num_threads, ctx |-> g.ctx, uids |-> g.uids, gids |-> g.gids,
            threads |-> Range(g.threads) ]

TInit == /\ idx \in 1..Len(Traces)
         /\ inp = Traces[idx].inp
         /\ out = Pending
         /\ ev = [op |-> "init"]
TNext == Observe /\ UNCHANGED idx

Match == (out # Pending) =>
           \/ out = Got(Traces[idx].got)
           \/ PrintT(<<"REJECTED", idx>>) /\ FALSE
=============================================================================

---- MODULE MC_Oneshot4 ----
EXTENDS Oneshot
ThreadsDef == {"A", "B", "C"}
ProgDef == [A |-> <<"enter", "mF", "exit", "mP">>, B |-> <<"mF", "mF">>, C |-> <<"enter", "mP", "exit">>]
====

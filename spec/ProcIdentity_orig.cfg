\* psutil 7.0.0 as pinned (no repairs): expected to VIOLATE C01/C02 -- kept as a
\* regression of the specification itself (the model must expose the defects).
CONSTANTS
  Pids = {1, 2}
  Objs = {1, 2}
  MaxInc = 3
  MaxUp = 2
  Boots = {10, 20}
  CLK = 2
  Sigs = {9}
  Setters = {"nice"}
  Fixes = {}
INIT Init
NEXT Next
VIEW view
PROPERTY C01_NoMisdelivery
CHECK_DEADLOCK FALSE

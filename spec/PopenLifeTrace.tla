-------------------------- MODULE PopenLifeTrace --------------------------
(***************************************************************************)
(* C15, code -> spec: the answers real children gave to every order of     *)
(* wait()/wait(0)/poll()/returncode on a psutil.Popen object, replayed     *)
(* through PopenLife.tla; a recorded answer that is not the model's is     *)
(* reported (and the run goes on).                                         *)
(***************************************************************************)
EXTENDS PopenLife
Traces == ndJsonDeserialize(IOEnv.TRACE_FILE)
VARIABLES tid, l
tvars == <<vars, tid, l>>
Tr == Traces[tid]
TInit == /\ tid \in 1..Len(Traces) /\ l = 1
         /\ child = "zombie" /\ st = Traces[tid].want /\ sub = Unset /\ ps = Unset /\ ev = [op |-> "init"]
Step(o) == CASE o[1] = "wait" -> Wait("wait") [] o[1] = "wait0" -> Wait("wait0")
             [] o[1] = "poll" -> Poll [] OTHER -> ReadRc
TNext == /\ l <= Len(Tr.obs) /\ l' = l + 1 /\ UNCHANGED tid
         /\ Step(Tr.obs[l])
\* the recorded answer is the model's answer
Agrees == (l > 1 /\ ev.op # "init") =>
            (ev.res = Tr.obs[l - 1][2] \/ PrintT(<<"REJECTED", tid, l - 1, ev.res>>))
=============================================================================

---------------------------- MODULE MidCallTrace ----------------------------
(***************************************************************************)
(* C03, code -> spec: every fault-injected run of a real Process method    *)
(* over the simulated kernel is logged as one record -- the accesses the   *)
(* kernel served (operation, errno or "ok", kernel phase at that instant), *)
(* the fault plan, the outcome class that reached the caller, the pid the  *)
(* exception carried, and the outcome classes of follow-up queries made on *)
(* the same object afterwards.  This module replays the access log to      *)
(* recompute the ghosts of MidCall.tla (sawZombie, denied, phase at the    *)
(* end) and evaluates the C03 clauses on the record.                       *)
(***************************************************************************)
EXTENDS Naturals, Integers, Sequences, FiniteSets, TLC, Json, IOUtils

Traces == ndJsonDeserialize(IOEnv.TRACE_FILE)
VARIABLE idx
Init == idx \in 1..Len(Traces)
Next == UNCHANGED idx

T == Traces[idx]
Acc == T.acc                       \* sequence of [op, res, phase]
SawZombie == \E i \in DOMAIN Acc : Acc[i].phase = "zombie"
Denied == \E i \in DOMAIN Acc : Acc[i].res \in {"EACCES", "EPERM"}
Psutil == {"value", "NSP", "ZP", "AD"}

NoBareError == T.out \in Psutil
WellFormed == T.out = "value" => T.wellformed
NSPOnlyIfGone == T.out = "NSP" => T.phaseEnd = "gone"
ZPOnlyIfZombie == T.out = "ZP" => (SawZombie \/ T.phaseEnd = "zombie")
ADOnlyIfDenied == T.out = "AD" => Denied
CarriesPid == T.out \in {"NSP", "ZP", "AD"} => T.pidok
\* once gone, every later query on the object raises NoSuchProcess
GoneForGood == T.phaseEnd = "gone" => \A i \in DOMAIN T.follow : T.follow[i] = "NSP"

\* ... including the first one: a query that BEGINS after the process is gone has no earlier moment to
\* answer for (T.before: the process vanished before the call; T.asks: the call is a query about it)
GoneBefore == (T.before /\ T.asks) => T.out = "NSP"

Clauses == <<NoBareError, WellFormed, NSPOnlyIfGone, ZPOnlyIfZombie, ADOnlyIfDenied, CarriesPid, GoneForGood, GoneBefore>>
Accepted == \/ \A i \in DOMAIN Clauses : Clauses[i]
            \/ PrintT(<<"REJECTED", idx, Clauses>>)     \* report and go on: every record is judged
=============================================================================

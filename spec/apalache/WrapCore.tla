------------------------------ MODULE WrapCore ------------------------------
(***************************************************************************)
(* The arithmetic core of _WrapNumbers for ONE counter of ONE device, over *)
(* unbounded integers, for Apalache: the inductive invariant IndInv        *)
(* implies that the value returned with nowrap=True never decreases and    *)
(* equals the raw value plus the accumulated offset, whatever magnitudes   *)
(* the kernel counter takes (TLC checks the full model WrapNumbers.tla only *)
(* for values 0..2).                                                       *)
(*   apalache-mc check --init=IndInit --inv=IndInv --length=1 WrapCore.tla  *)
(*   apalache-mc check --init=Init    --inv=IndInv --length=0 WrapCore.tla  *)
(***************************************************************************)
EXTENDS Integers

VARIABLES
  \* @type: Int;
  raw,      \* kernel counter now (>= 0)
  \* @type: Int;
  cached,   \* last value fed to the cache, -1 = device not in the cache
  \* @type: Int;
  rem,      \* reminder (sum of the values seen just before each decrease)
  \* @type: Int;
  ret,      \* value returned by the last call, -1 = no call yet in this history
  \* @type: Int;
  prevRet   \* value returned by the call before (history variable)

Init == raw \in Nat /\ cached = -1 /\ rem = 0 /\ ret = -1 /\ prevRet = -1

KSet == /\ \E v \in Int : v >= 0 /\ raw' = v
        /\ UNCHANGED <<cached, rem, ret, prevRet>>

\* wrap_numbers(): first call stores, later calls add the old value on a decrease
Call == /\ rem' = IF cached = -1 THEN 0 ELSE IF raw < cached THEN rem + cached ELSE rem
        /\ cached' = raw
        /\ ret' = raw + rem'
        /\ prevRet' = ret
        /\ UNCHANGED raw

\* the device is observed absent, or cache_clear(): history forgotten
Forget == /\ cached' = -1 /\ rem' = 0 /\ ret' = -1 /\ prevRet' = -1 /\ UNCHANGED raw

Next == KSet \/ Call \/ Forget

IndInv == /\ raw >= 0 /\ cached >= -1 /\ rem >= 0 /\ ret >= -1 /\ prevRet >= -1
          /\ (cached = -1 => (ret = -1 /\ rem = 0))
          /\ (cached # -1 => ret = cached + rem)     \* returned = raw seen + offset
          /\ prevRet <= ret \/ ret = -1                \* never decreases within a history

\* any state satisfying the invariant (for the inductive step)
IndInit == /\ raw \in Int /\ cached \in Int /\ rem \in Int /\ ret \in Int /\ prevRet \in Int
           /\ IndInv
=============================================================================

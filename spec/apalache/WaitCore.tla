------------------------------ MODULE WaitCore ------------------------------
(***************************************************************************)
(* The timing core of wait_pid() over unbounded integers, for Apalache:    *)
(* whatever the timeout, the starting instant and the number of polls, the *)
(* sleep argument stays within [First, Cap] and TimeoutExpired is raised   *)
(* less than Cap after the deadline (TLC checks Wait.tla for timeouts up to *)
(* 0.14 s only).  Time in arbitrary integer units; First = 2, Cap = 800.    *)
(*   apalache-mc check --init=IndInit --inv=IndInv --length=1 WaitCore.tla  *)
(*   apalache-mc check --init=Init    --inv=IndInv --length=0 WaitCore.tla  *)
(***************************************************************************)
EXTENDS Integers

First == 2
Cap == 800

VARIABLES
  \* @type: Int;
  now,
  \* @type: Int;
  deadline,
  \* @type: Int;
  interval,   \* next sleep argument
  \* @type: Int;
  slept,      \* argument of the last sleep (0 = none yet)
  \* @type: Bool;
  raised      \* TimeoutExpired raised

Init == /\ now \in Int /\ deadline \in Int /\ deadline >= now
        /\ interval = First /\ slept = 0 /\ raised = FALSE

\* sleep(): deadline check first, then the sleep and the back-off
Step == /\ ~raised
        /\ IF now >= deadline
             THEN raised' = TRUE /\ UNCHANGED <<now, deadline, interval, slept>>
             ELSE /\ now' = now + interval /\ slept' = interval
                  /\ interval' = IF 2 * interval < Cap THEN 2 * interval ELSE Cap
                  /\ UNCHANGED <<deadline, raised>>
Next == Step

IndInv == /\ First <= interval /\ interval <= Cap
          /\ 0 <= slept /\ slept <= Cap
          /\ (slept = 0 => now <= deadline)
          /\ now - slept < deadline \/ slept = 0      \* the last sleep started before the deadline
          /\ now < deadline + Cap                      \* hence at most one poll late
          /\ (raised => now >= deadline)

IndInit == /\ now \in Int /\ deadline \in Int /\ interval \in Int /\ slept \in Int /\ raised \in BOOLEAN
           /\ IndInv
=============================================================================

--------------------------- MODULE PlatformTrace ---------------------------
(***************************************************************************)
(* Trace validation for C20 (code -> spec): a seeded driver calls random   *)
(* public Process methods of every platform layer (through psutil.Process, *)
(* arbitrary PIDs, deeper fault sites, inside/outside oneshot()) while a   *)
(* random native access fails, and logs <row, kind of the access that      *)
(* failed, outcome>.  TLC re-evaluates the decision table of Platform.tla  *)
(* on every logged row and compares.                                       *)
(***************************************************************************)
EXTENDS Platform, IOUtils, SequencesExt, Functions

Traces == ndJsonDeserialize(IOEnv.TRACE_FILE)

VARIABLE idx
tvars == <<idx, inp, out, ev>>

TInit == /\ idx \in 1..Len(Traces)
         /\ inp = Traces[idx].inp
         /\ out = Pending
         /\ ev = [op |-> "init"]
TNext == Observe /\ UNCHANGED idx

\* "ok": the method recovered from the failure and returned; the value is
\* judged by the driver against the slot tables.  An exception must be of an
\* allowed class and -- if it is a psutil exception -- carry the pid and the
\* cached name.
Match == (out # Pending) =>
    LET g  == Traces[idx].got
        al == IF Traces[idx].inp.kind = "procfs" THEN out.procfs ELSE out.sys IN
    \/ g.cls = "ok"
    \/ g.cls \in al /\ (g.cls # "Unchanged" => g.pid_ok /\ g.name_ok)
    \/ PrintT(<<"REJECTED", idx, al>>) /\ FALSE
=============================================================================

------------------------------ MODULE WaitTrace ------------------------------
(***************************************************************************)
(* C15, code -> spec: every execution of the real Process.wait() in        *)
(* virtual time is logged as one record (configuration, the sleep()        *)
(* arguments the code issued, the instant and class of its outcome) and    *)
(* judged against the clauses of the statement -- NOT against the exact    *)
(* poll schedule of Wait.tla, so that a different but conforming back-off  *)
(* is accepted.  Times are in units of 0.5 microseconds (Cap = 80000).     *)
(***************************************************************************)
EXTENDS Naturals, Integers, Sequences, TLC, Json, IOUtils
CONSTANTS Cap, First          \* 40 ms and 0.1 ms in trace units
Traces == ndJsonDeserialize(IOEnv.TRACE_FILE)
VARIABLE idx
Init == idx \in 1..Len(Traces)
Next == UNCHANGED idx
T == Traces[idx]
NoneT == -1   NegT == -2   Never == -1

EndedAt(t) == T.kind = "never" \/ (T.exitAt # Never /\ T.exitAt <= t)
IsValue == T.out \in {"value", "none"}

\* never before the process has really ended; right status
NeverEarly == IsValue => /\ EndedAt(T.at)
                         /\ (T.kind = "child" => (T.out = "value" /\ T.code = T.expcode))
                         /\ (T.kind # "child" => T.out = "none")
\* TimeoutExpired only if the deadline passed with the process still alive, <= one poll late
TimeoutHonoured == T.out = "TimeoutExpired" =>
                     /\ T.timeout >= 0
                     /\ T.at >= T.timeout /\ T.at <= T.timeout + Cap
                     /\ ~EndedAt(T.at)
                     /\ T.secondsok /\ T.pidok
\* polls start at 0.1 ms and never exceed 40 ms
Polls == /\ \A i \in DOMAIN T.sleeps : T.sleeps[i] > 0 /\ T.sleeps[i] <= Cap
         /\ (Len(T.sleeps) > 0 => T.sleeps[1] = First)
ZeroNeverSleeps == T.timeout = 0 => Len(T.sleeps) = 0
Negative == (T.timeout = NegT) <=> (T.out = "ValueError")
NegativeBeforeSyscalls == T.out = "ValueError" => (Len(T.sleeps) = 0 /\ T.syscalls = 0)
NeverExisted == (T.kind = "never" /\ T.timeout # NegT) => (T.out = "none" /\ Len(T.sleeps) = 0)
\* detected within one poll of the exit
Prompt == (IsValue /\ T.exitAt > 0) => T.at <= T.exitAt + Cap
OnlyKnownOutcomes == T.out \in {"value", "none", "TimeoutExpired", "ValueError"}
\* later calls: cached value, no system call
Cached == T.again # "skipped" => (T.again = "same" /\ T.againsyscalls = 0)

\* ... and a negative timeout raises ValueError also on an object that holds a cached status
NegativeAlways == T.negafter \in {"skipped", "ValueError"}

Clauses == <<OnlyKnownOutcomes, NeverEarly, TimeoutHonoured, Polls, ZeroNeverSleeps, Negative,
             NegativeBeforeSyscalls, NeverExisted, Prompt, Cached, NegativeAlways>>
Accepted == (\A i \in DOMAIN Clauses : Clauses[i]) \/ PrintT(<<"REJECTED", idx, Clauses>>)
=============================================================================

--------------------------- MODULE MemInfoTrace ---------------------------
(***************************************************************************)
(* Trace validation for C08 (code -> spec): a driver renders random larger *)
(* meminfo / zoneinfo / vmstat / sysinfo contents, calls the real          *)
(* virtual_memory() / swap_memory() and logs <input, answers> (byte counts *)
(* divided by the scale the driver applied); TLC evaluates the             *)
(* specification's F on every logged input and compares.                   *)
(***************************************************************************)
EXTENDS MemInfo, IOUtils, SequencesExt, Functions

Traces == ndJsonDeserialize(IOEnv.TRACE_FILE)

VARIABLE idx
tvars == <<idx, inp, out, ev>>

TInit == /\ idx \in 1..Len(Traces)
         /\ inp = Traces[idx].inp
         /\ out = Pending
         /\ ev = [op |-> "init"]
TNext == Observe /\ UNCHANGED idx

\* the logged percent (tenths, the code rounds to one decimal) against the exact rational q:
\* |p10/10 - num/den| <= 0.05 ; a zero total leaves the value open inside [0, 100]
PercentOK(p10, q) == /\ p10 \in 0..1000
                     /\ \/ q[2] = 0
                        \/ LET d == p10 * q[2] - 10 * q[1]
                           IN  2 * (IF d < 0 THEN -d ELSE d) <= q[2]

\* every metric zeroed for want of a source is named; nothing else is, except what the
\* statement leaves open
WarnOK(o, g) == o.warn \subseteq Range(g.warn) /\ Range(g.warn) \subseteq o.warn \cup o.mayname

MatchVm(o, g) ==
  /\ o.total = g.total /\ o.available = g.available /\ o.used = g.used /\ o.free = g.free
  /\ o.active = g.active /\ o.inactive = g.inactive /\ o.buffers = g.buffers
  /\ o.cached = g.cached /\ o.shared = g.shared /\ o.slab = g.slab
  /\ WarnOK(o, g)
  /\ PercentOK(g.p10, o.percent)

MatchSwap(o, g) ==
  /\ o.total = g.total /\ o.used = g.used /\ o.free = g.free
  /\ o.sin = g.sin /\ o.sout = g.sout
  /\ WarnOK(o, g)
  /\ PercentOK(g.p10, o.percent)

Match == (out # Pending) =>
           \/ IF inp.k = "vm" THEN MatchVm(out, Traces[idx].got) ELSE MatchSwap(out, Traces[idx].got)
           \/ PrintT(<<"REJECTED", idx, ToJson(out)>>) /\ FALSE
=============================================================================

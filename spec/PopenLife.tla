----------------------------- MODULE PopenLife -----------------------------
(***************************************************************************)
(* C15 -- a psutil.Popen object: two caches of one child's exit status.    *)
(*   sub  : subprocess.Popen.returncode  (written by poll()/wait() of the  *)
(*          standard library, and by psutil.Popen.wait() after it waited)  *)
(*   ps   : psutil.Process._exitcode     (written by Process.wait())       *)
(* and the kernel's side: the child runs, is a zombie, or has been reaped  *)
(* (by whichever of the two layers called waitpid() first).  A layer that  *)
(* calls waitpid() after the other one reaped gets ECHILD: subprocess      *)
(* then settles on returncode 0, psutil on None ("not our child").         *)
(*                                                                         *)
(* Claim (statement: "returns ... the same cached value on every later     *)
(* call"): every wait(), wait(0), poll() and the returncode attribute of   *)
(* an ended child give the child's true status, in every order of calls.   *)
(* TLC checks it on the model; the recorded answers of real children are   *)
(* validated against the model (TInit/TNext below).                        *)
(***************************************************************************)
EXTENDS Integers, Sequences, TLC, Json, IOUtils

CONSTANTS Status,        \* statuses a child may end with: exit code, or 1000 + signal number (cfg files take no negatives)
          WriteBack      \* TRUE: psutil.Popen.wait() copies what it waited for into `sub` (7.0.0 does)

Unset == 9999            \* cache empty
NoneV == 9998            \* Process.wait() of a process that is not (any more) our child

VARIABLES child,   \* "running" | "zombie" | "reaped"
          st,      \* the true status
          sub, ps, \* the two caches
          ev       \* last observation
vars == <<child, st, sub, ps, ev>>

Init == /\ child = "running" /\ st \in Status /\ sub = Unset /\ ps = Unset
        /\ ev = [op |-> "init"]

Ends == /\ child = "running" /\ child' = "zombie"
        /\ ev' = [op |-> "ends"] /\ UNCHANGED <<st, sub, ps>>

\* waitpid(pid) by one of the layers on an ended child: <<answer, child'>>
Reap == IF child = "zombie" THEN <<st, "reaped">> ELSE <<-1, "reaped">>        \* -1: ECHILD

\* Process.wait(): cached, else waitpid; ECHILD -> polls until the PID is gone -> None
ProcessWait == IF ps # Unset THEN <<ps, child>>
               ELSE LET r == Reap IN <<IF r[1] = -1 THEN NoneV ELSE r[1], r[2]>>

\* psutil.Popen.wait(timeout) of a child that has ended
Wait(name) ==
  /\ child # "running"
  /\ IF sub # Unset
       THEN /\ ev' = [op |-> name, res |-> sub] /\ UNCHANGED <<child, st, sub, ps>>
       ELSE LET r == ProcessWait IN
            /\ ps' = r[1] /\ child' = r[2]
            /\ sub' = IF WriteBack THEN r[1] ELSE sub
            /\ ev' = [op |-> name, res |-> r[1]]
            /\ UNCHANGED st

\* subprocess.Popen.poll() (also what leaving a `with` block calls)
Poll ==
  /\ child # "running"
  /\ IF sub # Unset
       THEN /\ ev' = [op |-> "poll", res |-> sub] /\ UNCHANGED <<child, st, sub, ps>>
       ELSE LET r == Reap IN
            /\ sub' = IF r[1] = -1 THEN 0 ELSE r[1]
            /\ child' = r[2]
            /\ ev' = [op |-> "poll", res |-> sub']
            /\ UNCHANGED <<st, ps>>

ReadRc == /\ child # "running"
          /\ ev' = [op |-> "returncode", res |-> IF sub = Unset THEN NoneV ELSE sub]
          /\ UNCHANGED <<child, st, sub, ps>>

Next == Ends \/ Wait("wait") \/ Wait("wait0") \/ Poll \/ ReadRc
Spec == Init /\ [][Next]_vars

\* ---- the claim ----------------------------------------------------------
Answered == ev.op \in {"wait", "wait0", "poll"}
C15_TrueStatus == Answered => ev.res = st
\* once any call answered, the attribute agrees
C15_Attribute == (ev.op = "returncode" /\ (sub # Unset \/ ps # Unset)) => ev.res = st

=============================================================================

---- MODULE MC_MidCall ----
EXTENDS MidCall
\* access shapes of the Linux Process methods (classes, in order)
ShapesDef == { <<"stat">>,                       \* name, ppid, status, cpu_times, create_time, ...
               <<"stat", "stat">>,               \* stat + status (uids via as_dict...)
               <<"empty">>,                      \* cmdline, memory_maps
               <<"esrch">>,                      \* environ
               <<"link">>,                       \* exe, cwd
               <<"dir">>,                        \* num_fds
               <<"dir", "item", "item", "item">>,  \* threads, open_files
               <<"esrch", "empty", "stat">>,     \* memory_full_info: rollup -> smaps -> statm
               <<"stat", "empty", "link", "dir", "item">> }   \* as_dict-like composite
====

-------------------------- MODULE SysTablesTrace --------------------------
(***************************************************************************)
(* Trace validation for the Python layer of C17 (code -> spec): a seeded   *)
(* driver feeds random larger mount / interface / login tables to the real *)
(* psutil.disk_partitions, net_if_stats, net_if_addrs, users over the      *)
(* simulated kernel and logs <input, answer>; TLC evaluates the            *)
(* specification's F on every logged input and judges the answer.          *)
(* A rejected record is reported (PrintT) and the run continues.           *)
(***************************************************************************)
EXTENDS SysTables, IOUtils

Traces == ndJsonDeserialize(IOEnv.TRACE_FILE)

VARIABLE idx
tvars == <<idx, inp, out, ev>>

TInit == /\ idx \in 1..Len(Traces)
         /\ inp = Traces[idx].inp
         /\ out = Pending
         /\ ev = [op |-> "init"]
TNext == Observe /\ UNCHANGED idx

RankOf(n) == IF n \in {"AF_INET", "AF_INET6", "AF_LINK"} THEN FamRank(n) ELSE 999
NameSet(s) == {s[k].name : k \in DOMAIN s}

\* rows in no stated order
MountsOk(g, o) == SameBag(g.rows, o.rows)
UsersOk(g, o) == SameBag(g.rows, o.rows)

StatsOk(g, o) ==
  IF o.raises THEN g.raises /\ g.errno \in o.errnos
  ELSE /\ ~g.raises
       /\ Len(g.nics) = Cardinality(DOMAIN o.nics)
       /\ NameSet(g.nics) = DOMAIN o.nics
       /\ \A k \in DOMAIN g.nics :
            LET r == g.nics[k]
                e == o.nics[r.name]
            IN /\ r.isup = (IF e.isup THEN "true" ELSE "false") /\ r.duplex = e.duplex /\ r.speed = e.speed /\ r.mtu = e.mtu
               /\ Len(r.flags) = Len(e.flags) /\ Elems(r.flags) = Elems(e.flags)

AddrsOk(g, o) ==
  /\ Len(g.nics) = Cardinality(DOMAIN o.nics)
  /\ NameSet(g.nics) = DOMAIN o.nics
  /\ \A k \in DOMAIN g.nics :
       LET rows == g.nics[k].rows
           exp == o.nics[g.nics[k].name]
       IN /\ SameBag(rows, exp)
          /\ \A a, b \in DOMAIN rows : a < b => RankOf(rows[a].family) <= RankOf(rows[b].family)

Ok(fam, g, o) == CASE fam \in MountFams -> MountsOk(g, o)
                   [] fam = "stats" -> StatsOk(g, o)
                   [] fam = "addrs" -> AddrsOk(g, o)
                   [] fam = "users" -> UsersOk(g, o)

Match == (out # Pending) =>
           \/ Ok(inp.fam, Traces[idx].got, out)
           \/ PrintT(<<"REJECTED", idx, inp.fam>>)
=============================================================================
